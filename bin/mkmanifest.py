#!/usr/bin/env python3
"""Regenerates /verif/MANIFEST.json from the table below (one entry per claimed property)."""
import json
import os
import subprocess

VERIF = os.path.dirname(os.path.dirname(os.path.abspath(__file__)))

HOOK_COMMITS = subprocess.run(
    ["git", "-C", "/repo", "log", "--format=%H %s", "--grep=^verif hook"], capture_output=True, text=True
).stdout.strip().splitlines()

CLAIMED = {
    "C03": dict(
        engine="engine",
        technique="TLA+ spec StateTrie checked by TLC; TLC-generated behaviours replayed into MutableTrie/MutableState; recorded traces validated by TLC (StateTrieTrace)",
        text=("StateTrie.tla states the contract state as an ordered map with generations, handles, prefix locks and freeze/thaw; TLC checks its "
              "design invariants exhaustively for small constants (NoLeak, RefusalIsNoop, iterator snapshot), exports one behaviour per transition of the "
              "state graph plus random long behaviours, and each is replayed into the real trie in two driving modes with lookups, full iteration of every "
              "generation, the persistent state and every handle compared after every step. In the other direction seeded random workloads on the real trie "
              "(long keys, 0..300 byte values, persistence round trips) are recorded and TLC decides whether each trace is a behaviour of the spec."),
        note=("Bounded: keys <= 2 bytes and <= 5 ops (edge behaviours), 40 ops (simulated), <= 6-byte keys / 400-800 ops (recorded traces); values from five length classes. "
              "Trusted: TLC, the harness and its shims, the H1 wrappers (add-only, cfg-guarded). Handles/iterators are used only in their own generation (caller obligation)."),
        ref="4 C03"),
    "C04": dict(
        engine="engine",
        technique="TLA+ spec TrieCanon (canonical radix tree, Merkle term, serialisation layout) evaluated by TLC for every contents reached; real hash()/serialize() compared byte-for-byte; histories/persistence schedules from StateTrie behaviours",
        text=("TrieCanon.tla defines, from the map contents alone, the canonical compressed radix tree, the state hash as a SHA-256 term and the byte layout of "
              "serialize(); TLC checks the construction (refinement to the map, compression) for every map over the key universe and exports the terms. The real trie "
              "is driven to each of these maps through many different histories (insertion orders, supersets with deletions and prefix deletions, rolled-back "
              "checkpoints, six persistence schedules incl. store/load, cache, migrate, serialize) and every observed hash and serialisation must equal the evaluated "
              "term; contents reached by replayed StateTrie behaviours and by recorded random traces are checked against the terms as well; persistence must "
              "preserve hash and contents and refreezing an unmodified state must collect 0 bytes."),
        note=("Exhaustive over all maps on 7 (quick) / 8 (thorough) keys x 2-3 value classes; other contents sampled by behaviours/traces. The harness evaluates terms with "
              "SHA-256 only (hashlib). Backing-store I/O failures and the FFI callbacks are not modelled. 'Documented construction' = the one in the source at the pinned commit."),
        ref="4 C04"),
}

CLAIMED["C15"] = dict(
    engine="engine",
    technique="TLA+ specs StateTrie (prefix locks, iterator snapshot) and InstanceHandles (contract-visible handles, interrupts) checked by TLC; behaviours replayed into MutableTrie and InstanceState; recorded trie traces validated by TLC",
    text=("Lock rules are stated in StateTrie.tla (insert/delete refused iff a lock is a prefix of the key, delete_prefix refused iff a lock is a prefix of or extends the "
          "argument, delete_iter releases one occurrence) and TLC checks that under these rules a live iterator's key set equals its creation snapshot, that refusals are no-ops "
          "and that handles die with their entry; InstanceHandles.tla adds the contract-visible handle encoding, tombstoned iterators, partial reads/writes/resizes and the two "
          "resume protocols (state_updated false/true) with the invariants NoForeignData and StaleInvalid. One behaviour per transition of both TLC state graphs plus random long "
          "behaviours are replayed into the real MutableTrie (H1) and InstanceState (H3), comparing every return code and the full contents after every step; random real-trie "
          "traces with several iterators on equal/nested/disjoint prefixes are validated by TLC."),
    note=("Bounded as C03; InstanceHandles behaviours: 5 keys, <= 3-4 ops per transition-covering behaviour, 30 ops simulated, <= 8 handles. Which state handle the scheduler passes on resume is "
          "an environment assumption (DESIGN O6). Energy charged by these operations is C14's concern. Trusted: TLC, harness, H1/H3 wrappers."),
    ref="4 C15")

CLAIMED["C01"] = dict(
    engine="engine",
    technique="TLA+ reference semantics WasmSem + ALU (exact limb arithmetic) with generator WasmGen (programs admitted by the WasmValidate state machine) run by TLC; every generated program executed on the real engine in 6 configurations and compared with the reference outcome; recorded defects attributed through CompileModel hazard predicates",
    text=("WasmSem.tla is a small-step reference semantics of the on-chain Wasm subset written from the W3C specification (control with labels and carried values, locals, globals, "
          "memory with bounds, direct and indirect calls, exact i32/i64 arithmetic in ALU.tla); WasmGen.tla lets TLC enumerate every function body over six focused alphabets up to a "
          "length bound that the validation algorithm (WasmValidate.tla) admits - including unreachable code - plus ALU vectors over boundary operands and random longer bodies, and "
          "executes each on the reference for 4 argument vectors. Each program is assembled and run through parse/validate/compile/run of the real engine under ValidationConfig V0/V1 x "
          "{no metering, cost V0, cost V1}; result value, trap-ness, final memory (which includes the globals via a wrapper function) must equal the reference. The four recorded conformance "
          "defects (D1-D6) are attributed only through their root-cause predicates evaluated on the reference run (CompileModel.tla) and pinned witnesses are run every time."),
    note=("Bounded: one module template (4 functions, 2 globals, 1-2 pages, 4-entry table), bodies of length <= 4-7 per alphabet exhaustively and <= 14-24 randomly; i64 operands from boundary classes. "
          "A different defect that only shows on runs where a D1/D2/D4/D5/D6 hazard predicate also holds would be attributed to the recorded finding (DESIGN 3.6). D2 is attributed to any disagreeing run that executes code located, inside a value-carrying block or if, after a br_if to that block (the release of the result register is a compile-time event). Trap classes are compared as trap-ness only. "
          "Trusted: TLC, checks/wasmasm.py, harness, shims; the H2 assertions make out-of-bounds accesses deterministic panics."),
    ref="4 C01")
CLAIMED["C02"] = dict(
    engine="engine",
    technique="TLA+ Metering schedules (cost V0/V1) accumulated along the WasmSem reference run; real tick totals, account_memory announcements, budgets and interpreter step counts (H2) compared per generated program",
    text=("Metering.tla transcribes the two protocol cost schedules and defines the work of an execution (schedule summed over executed instructions + invoke_after at function entry + branch cost "
          "of taken br_if); WasmSem accumulates it along the reference run. For every generated program (same sources as C01) and both cost configurations the energy the real engine asks the "
          "host to pay must equal the work for runs that do not trap (independently of how the implementation segments), be at least the work when it traps, be identical for two executions, "
          "and account_memory must announce each memory.grow; budgets {used-1, used, used+5} must give out-of-energy / success / success with the same outcome; programs whose reference run "
          "does not terminate must stop with out-of-energy for budgets 0..10^5; and the H2 opcode counter must stay below 4*|code|*(energy+1)+16."),
    note=("The values of the schedule are taken as the protocol's definition (a change to them is flagged by design). The linear step bound is checked with a fixed constant, not proved. Budgets are enforced by the "
          "harness Host (tick_energy failing), i.e. at the wasm-transform level; the chain-integration InterpreterEnergy path is exercised by C14. Same bounds and trusted base as C01."),
    ref="4 C02")

CLAIMED["C06"] = dict(
    engine="base",
    technique="TLA+ specs AccessStructure (threshold policy), TxEnvelope (serialised header/payload, size, energy, digests) and UpdateKeys enumerated exhaustively by TLC; every vector replayed with real ed25519 keys on the verification, signing and construction functions",
    text=("AccessStructure.tla states the policy (account threshold of credentials, each registered and supplying its own threshold of signatures, every supplied signature by a "
          "registered key and valid for the digest; sponsored = sender and sponsor) and TLC enumerates every (access structure, signature map) within small index sets - including unknown "
          "credential/key indices, thresholds above the number of keys, index 255, and one corrupted or wrong-digest signature - checking the design facts (self-signing verifies, unknown or faulty "
          "signatures reject). Each vector is replayed with real keys on verify_data_signature, AccountTransaction and AccountTransactionV1 verification and AccountKeys signing, and authorised "
          "vectors are perturbed field by field (nonce, energy, expiry, sender, payload, key set, v0 digest on a v1 transaction). TxEnvelope.tla gives the serialised header and payload bytes, declared "
          "size and energy formula for four payload kinds as byte terms; construct::* output, sign digest and block-item hash are compared byte for byte. UpdateKeys.tla decides find_authorized_keys."),
    note=("The envelope specification covers eleven payload kinds of construct::* (transfer, memo, register data, schedule, deploy / init / update contract, remove baker, stake, restake, transfer to encrypted) and the v1 builder state machine. " "Bounded: <= 3 credentials x <= 3 keys, <= 6 signatures, thresholds {1,2,3,255}; payload kinds transfer, transfer with memo, register data, scheduled transfer. ed25519-dalek is trusted for single "
          "signatures. Chain-side verification of update instructions is in the Haskell node and not bound."),
    ref="4 C06")

CLAIMED["C05"] = dict(
    engine="base",
    technique="TLA+ wire grammar Wire.tla (canonical encodings with decoded-field expectations, near-miss classes) enumerated by TLC; vectors and their mutation closure decoded by the real Deserial impls, re-encoded, field-compared; hostile lengths decoded one per process under an address-space limit with a counting allocator",
    text=("Wire.tla states the binary format of the specified composites independently of the Rust code (big-endian integers, length-prefixed sequences, maps/sets with strictly increasing "
          "keys, feature bitmaps with defined bits only) and lists the near misses a canonical decoder must reject; TLC checks that near misses never coincide with canonical encodings and that "
          "encodings determine the fields. Every canonical vector must decode, consume exactly its length, show the spec's field values in the decoded value, and re-encode byte-identically; "
          "every near miss (unordered/duplicate keys, undefined bitmap bits and tags, counts/lengths beyond the content) must be rejected; every proper prefix must be rejected; trailing bytes must "
          "stay unconsumed; whatever a bit flip is decoded to must re-encode to the consumed bytes (one accepted encoding per value); and no decode may allocate more than 1 MiB + 64 x input. Found and "
          "fixed with this check: ConfigureBaker undefined bitmap bits (F4) and the ProtocolUpdate URL allocation (F5)."),
    note=("Only the composites in Wire.tla have an independent byte-exact grammar (about 14 types / payload kinds); the other Serial types are not covered by this check. 'All byte strings' is the mutation closure "
          "of the grammar, not an enumeration. Group elements inside credentials/proofs are out of scope here (C20)."),
    ref="4 C05")

CLAIMED["C16"] = dict(
    engine="base",
    technique="TLA+ specs ContractsCommon (contract-side binary grammar with near misses) and TextForms (grammars and value functions of amounts, names, timestamps, durations, contract addresses; symbolic checked arithmetic) enumerated by TLC; vectors replayed on concordium-contracts-common",
    text=("ContractsCommon.tla states the contract-side encoding (little-endian integers, u32/u16 length prefixes, one-byte tags, ordered collections) with the inputs that must be rejected "
          "(undefined tags, duplicates, unordered input for the order-checking readers, invalid UTF-8, invalid names, zero exchange rates, lengths beyond the content); every canonical vector must "
          "decode to the stated value, consume exactly its bytes and re-encode identically, every prefix must be rejected, bit flips must stay canonical, allocation is bounded. TextForms.tla classifies every "
          "string over a 5-symbol alphabet up to length 5 by the documented Amount grammar with its value, decides the three name validators around the 100-byte limit, converts calendar dates to milliseconds "
          "with an independent civil-date algorithm (leap days, year 9999/10000, 2^63, u64::MAX), and gives checked add/sub/duration_since on symbolic u64 values; the harness requires print -> parse to be the "
          "identity for every value. Found and fixed with this check: Timestamp Display beyond year 9999 and beyond 2^63 ms (T1/T2)."),
    note=("Account addresses (base58) are opaque; duration strings denoting more than u64::MAX ms are outside the property (O4). The default BTreeSet/BTreeMap readers only reject duplicates (documented), so 'unordered' "
          "is required to be rejected only by the order-checking readers."),
    ref="4 C16")

CLAIMED["C17"] = dict(
    engine="base",
    technique="TLA+ spec Cbor.tla (RFC 8949 data model with deterministic encoding; token types transcribed from cddl/cis-7.cddl; decoder-rule near misses) enumerated by TLC; vectors and their mutation closure decoded/encoded by the real codec with a counting allocator",
    text=("Cbor.tla encodes abstract CBOR values with shortest heads, definite lengths and bytewise key order, at every head-width boundary and to nesting depth 64, and describes the protocol-level-token types "
          "(token amount as decimal fraction, transfer/mint/burn/list/pause operations, tagged holder accounts with optional coin info) from the repository's CDDL rather than from the Rust derives. Every canonical vector must "
          "decode, re-encode byte-identically (determinism) and show the stated fields; every near miss (trailing data, truncated items, invalid UTF-8, hostile lengths, reserved heads, missing mandatory fields, "
          "undeclared fields under UnknownMapKeys::Fail, ill-typed items, wrong tags, two variants in one operation) must be rejected; unknown operations must be preserved where the type declares it; proper prefixes and "
          "appended bytes must be rejected; bit flips must leave decode . encode . decode stable; allocation is bounded by 64 KiB + 64 x input. Token amounts are checked across CBOR, decimal string and JSON forms."),
    note=("Maps of value::Value are compared modulo entry order; permissive decoder classes (non-shortest heads, indefinite lengths, duplicate keys) get totality and stability only (O9). String forms for decimals <= 28 (O8). "
          "Nesting beyond 64 is outside the property. Token events, module state and reject reasons are not yet specified."),
    ref="4 C17")

CLAIMED["C09"] = dict(
    engine="engine",
    technique="TLA+ validation state machine WasmValidate (Wasm 1.0 appendix algorithm) used as generator and recogniser, ModuleLimits decision table, WasmMutate mutation scripts; verdicts compared with validate_module under both configs, accepted modules compiled and run with H2 bounds assertions",
    text=("WasmValidate.tla is the specification's validation algorithm (operand stack with Unknown, control frames, unreachable code) with the chain rule locals + stack height <= 1024; TLC extends every valid "
          "prefix over a 45-instruction alphabet by every instruction: accepted ones continue, the first rejected one yields a minimally ill-typed body (closed syntactically), unclosed prefixes yield truncated bodies, and "
          "the invariant GenAgreesWithValidator ties generator and recogniser. ModuleLimits.tla decides module-level restrictions for a valid baseline with one or two parameters at limit-1/limit/limit+1 or switched "
          "to a forbidden construct (floats in five positions, start section, several memories/tables, import kinds, multi-value, section order, magic). Every vector's verdict must equal validate_module's under V0 and V1, "
          "with and without metering; accepted modules compile and execute with the H2 assertions. WasmMutate.tla scripts mutate valid binaries: the engine must answer without panicking and run what it accepts."),
    note=("Typing vectors up to 3-4 instructions plus closing ends; mutated byte strings have no verdict (totality and safe execution only); unsafe code is checked on executed paths only. Found while building: export names are "
          "limited to 100 bytes, not 512 (spec corrected)."),
    ref="4 C09")
CLAIMED["C13"] = dict(
    engine="engine",
    technique="TLA+ Interrupt.tla (suspend/resume semantics, transparency checked by TLC on generated programs) over WasmSem; programs with host calls run inline and under every interrupt schedule, and from serialised artifacts (borrowed and owned), all compared with the reference and each other",
    text=("Interrupt.tla adds suspension at host calls and resumption with the host's value to the reference semantics and TLC checks, for every generated program, argument vector and schedule, that the interrupted run "
          "ends in the same outcome as the inline run (InterruptTransparent). On the engine every program is run fresh, from its serialised artifact parsed zero-copy, and from the owned conversion - re-serialisation must be "
          "byte-identical - and programs calling the scripted host function are run with every subset of call sites interrupting (RunConfig::push_value + run_config); result, trap, memory, tick sequence, account_memory and "
          "host-call log must equal the uninterrupted run and the reference, in all six configurations."),
    note=("Interrupts are exercised at the wasm-transform level; the chain-level invoke/resume_receive path with state changes during the interrupt is not bound yet (C14 is not claimed). The trusted artifact parser is only fed "
          "artifacts produced by the engine. Same bounds and known-finding attribution as C01."),
    ref="4 C13")

CLAIMED["C10"] = dict(
    engine="base",
    technique="TLA+ spec Schema.tla: closure of (schema type, JSON value, bytes) triples under the type constructors with EncType for the schema's own binary form, enumerated by TLC; each triple replayed in both directions on the real conversion; refusal vectors; hostile inputs one per process",
    text=("Schema.tla relates schema types, the JSON values they accept (in the normal form bytes -> JSON yields) and the contract-side encoding: about 40 leaf triples written from the documentation of the "
          "primitive types (integers incl. 128-bit as strings, LEB128 with constraint, byte lists/arrays as hex, strings with four size lengths, contract/receive names, amounts, timestamps, durations, contract "
          "addresses) closed under pair, list, set, map, array, struct (named/unnamed/none), enum and tagged enum to depth 3 - about 10^4 triples. For each, serial_value must give exactly the bytes, to_json exactly "
          "the JSON consuming all bytes, and the schema type's binary form must equal EncType and read back. JSON values a type does not accept must be refused; bytes that encode no value must be refused without "
          "exhausting memory. Found and fixed with this check: ByteList/ByteArray memory exhaustion (S1) and unvalidated contract/receive names in JSON -> bytes (S2)."),
    note=("Leaf values with text forms come from a fixed table (their grammar is C16's); account addresses are not covered; module schema versions / base64 framing are not yet specified; nesting deeper than 32 "
          "and degenerate zero-width lengths are outside the property."),
    ref="4 C10")

CLAIMED["C20"] = dict(
    engine="base",
    technique="TLA+ specs Wnaf (recoding state machine, exhaustive at scaled limb widths), MultiExp (formal sums), Shamir (sharing over Z_q, exhaustive), PointEnc (decision table of accepted encodings) and HdPath (getter -> SLIP-10 path, injectivity) checked by TLC; their rows replayed on the curve instances, secret_sharing and the key-derivation crates against references recomputed from the definitions",
    text=("Wnaf.tla is the windowed-NAF recoding of GenericMultiExp as a state machine over (position, carry, digits); TLC proves for every scalar at four (limb width, limbs, window) settings that digits are odd or zero, "
          "bounded, and sum to the scalar with windows straddling limbs; every model scalar is embedded into 256-bit scalars (3 fills x 3 limb offsets) and GenericMultiExp with windows 1..7 and the ed25519 instance "
          "are compared with single scalar multiplications. MultiExp.tla gives multiexp its meaning as a formal sum over a basis (identity, repeated and inverse points, boundary scalars), replayed on G1, G2 and ed25519. "
          "Shamir.tla: TLC checks over Z_5 (quick) / Z_7 (thorough) that every >= t shares reconstruct in field and exponent and that fewer leave >= q-1 secrets possible; every (points, threshold, revealed subset) "
          "scenario is replayed on share / reveal / reveal_in_group with three point embeddings. PointEnc.tla: the canonical-encoding decision table (flags x coordinate class, Ristretto classes, scalar ranges, hash-to-group) "
          "instantiated as real byte strings: decoders must accept exactly the canonical class and re-encode identically. HdPath.tla: every wallet getter's path (checked injective by TLC) is recomputed with an independent "
          "HMAC-SHA512 SLIP-10 chain and HKDF BLS key generation. Found and fixed with this check: encodings with the infinity flag and arbitrary other bits were accepted as the identity (P1)."),
    note=("Field and single-point arithmetic of arkworks / dalek is the trusted base; the 64-bit recoding is model-checked only at scaled widths; 'fewer shares give an unrelated value' is checked as inequality with the "
          "secret; mnemonic-to-seed conversion is not covered."),
    ref="4 C20")

CLAIMED["C19"] = dict(
    engine="base",
    technique="TLA+ specs SigAgg (signatures as formal sums over (key, message); Sign-and-Aggregate state machine; the four verifiers as predicates, their agreement and soundness checked by TLC), Vrf (proof terms bound to key and input) and PsSig (signed vector with zero padding, blind issuance residue); all rows replayed with real BLS12-381 / ed25519 keys",
    text=("SigAgg.tla models a BLS signature as a vector over the basis (key, message) and aggregation as addition; TLC explores every aggregate of up to 3 (thorough 4) signatures over 3 keys x 3 messages and checks "
          "that verify, verify_aggregate_sig (rejects empty and duplicate messages), verify_aggregate_sig_hybrid and verify_aggregate_sig_trusted_keys agree where their preconditions overlap and accept exactly vector "
          "equality. Every (aggregate, neighbouring claim) row is replayed on aggregate_sig with real keys. Vrf.tla: proofs are terms of what they were made for; the full (prover, verifier, tamper) table is replayed on "
          "ecvrf (verify, to_hash equality iff same key and message, determinism, bit flips of the 80-byte encoding), on the BLS proof of possession and on the ed25519 dlog proof with transcript contexts. PsSig.tla: "
          "a signature is (zero-padded vector, unblinding residue); every vector of length 0..4 for a key of length 3, known and blind issuance, is verified against every neighbouring vector on ps_sig."),
    note=("Unforgeability is not decidable here; mismatches are the enumerated ones. Messages are three fixed byte strings, keys fixed seeded keys. Signature blinding (blind) is not covered."),
    ref="4 C19")

CLAIMED["C14"] = dict(
    engine="engine",
    technique="TLA+ specs HostV1 / HostV0 (one action per host call: trap condition, return value, effect on return value / logs / legacy state / action tree, minimal energy charge; limits as invariants checked by TLC) and InstanceHandles (state entries, iterators); their behaviours are compiled into Wasm contracts and run through v1::invoke_receive / v0::invoke_receive with metering, comparing outcome class, return codes, return value, logs, resulting state and the per-call energy trace",
    text=("HostV1.tla and HostV0.tla specify the host interface from the contract's side: for every host call the window / offset / tag / payload-length condition under which it traps, the value it returns otherwise "
          "(-1, 0/1, byte counts, u32::MAX), its effect (return-value length with the 16 KiB limit in P4, number and size of logs, legacy state length <= 16 KiB, action indices) and the least energy it must charge; TLC "
          "checks the limits as invariants over scripts of up to 4 calls with every boundary class of pointer, length, offset, size, parameter index and invoke tag in P4-P7. One script per transition of the one-call "
          "graph plus random scripts of up to 7 calls are compiled to Wasm contracts (results stored in memory and returned / logged) and executed with metering; outcome class (success / trap / interrupt kind / out of "
          "energy), every return code, return-value and log sizes, legacy state contents and DebugTracker's per-call energy (>= scheduled) must agree, a panic is a violation, and each script is re-run under reduced "
          "budgets (must end out-of-energy or identically). InstanceHandles.tla behaviours (entries, iterators, locks, stale handles, interrupts during which the instance state was or was not updated) are compiled to state "
          "host calls with an invoke at each interrupt; the harness plays the chain (re-entrant modification, v1::resume_receive with state_updated) and the invoke return codes, handle validity after the resume and the "
          "resulting persistent state are compared."),
    note=("Scripts run as receive functions and as init functions (receive-only calls must trap in init and vice versa). Not in the alphabet: signature verdicts (windows only), upgrade, policies, send (v0); interrupt responses are successes without return data. Out-of-window calls whose charge "
          "depends on the claimed length may end out-of-energy instead of trapping. Exact remaining energy is not compared (only per-call lower bounds and budget monotonicity). Call-depth limit not exercised."),
    ref="4 C14")

CLAIMED["C12"] = dict(
    engine="base",
    technique="TLA+ spec EncAmount (encrypted balance as carry-free chunk sums; Deposit / Transfer / SecToPub state machine; conservation, no overdraft, decrypt-inverts-encrypt checked by TLC for all amounts of the scaled model); simulated behaviours replayed with real ElGamal keys on encrypted_transfers with chunk-boundary amounts and per-field tampering",
    text=("EncAmount.tla models an account's encrypted balance as the pair of chunk sums that aggregation produces without carry, decryption as table lookup per chunk and recombination, and transfers as enabled iff the "
          "amount does not exceed the decrypted balance; TLC checks for every amount at chunk widths 2 and 3 that the chunk sums denote the balance, decryption inverts encryption, remaining + transferred = balance and no "
          "overdraft. Behaviours of four operations are replayed with amounts embedded chunk-wise into u64 (0, 1, 2^32-2, 2^32-1 per chunk, hence 2^32 +- 1 and 2^64-1): encrypt / encrypt_with_fixed_randomness / aggregate "
          "/ decrypt_amount must give the sums, make_transfer_data and make_sec_to_pub_transfer_data must return a value iff amount <= balance, the data must verify, remaining and transferred parts must decrypt to amounts "
          "summing to the balance, and verification must fail under each tamper field of the specification (each ciphertext chunk, index, keys, balance, proof bytes)."),
    note=("The embedding is not additive, so expected sums are computed by the harness from the rules TLC checked; the model's own verdict is compared while the balance is a single embedded amount. The aggregation index is "
          "not part of the proof (documented in the code): tampering with it is replayed as the verifier deriving a different balance. Chunk sums beyond 2^33 are outside the property. 36 transfer scenarios quick."),
    ref="4 C12")

CLAIMED["C07"] = dict(
    engine="base",
    technique="TLA+ specs Transcript (byte framing of the Fiat-Shamir transcript; injectivity of the V1 framing checked by TLC over pairs of same-shape operation sequences) and Sigma (every protocol as a matrix of group elements over Z_q: completeness, response / statement binding, special soundness for all witnesses, randomness and challenges); byte streams and (protocol, witness class, perturbation) rows replayed on the real transcript types and sigma protocols over BLS12-381",
    text=("Transcript.tla specifies what is hashed: u64be length-prefixed labels, serialised items, counted item lists, the domain as first label; TLC shows the V1 framing injective on all pairs of same-shape sequences of the "
          "bounded alphabet (the legacy oracle's documented ambiguity is kept as an explicit witness). Every sequence is replayed on TranscriptProtocolV1 and RandomOracle and the challenge compared with SHA3-256 of the "
          "specified bytes. Sigma.tla writes dlog, aggregate_dlog, dlog_eq, com_eq, com_eq_different_groups, com_eq_sig (every slot of the PS key in use), com_enc_eq, vcom_eq, com_lin, com_mult, enc_trans and the AND / replicated compositions as linear maps and TLC checks "
          "completeness, that changing any response component or (for non-zero challenge) any image changes the extracted commitment, and special soundness, for all values over Z_5 / Z_3. Its rows (one witness component at "
          "0, 1 or r-1, all random, all zero; perturbation of nothing, the context, the challenge, each public input, each response scalar) are replayed with prove / verify on G1 (and G2 where two groups are involved) "
          "under both transcript types: unperturbed proofs must verify, every perturbed one must not. For protocols whose statement carries an index set or lists of sub-statements (vcom_eq, the replicated "
          "composition, the two chunk lists of enc_trans - also with response counts shifted between the lists) a forged transcript is replayed as well: made for the statement without one row whose image is false, hashed as the full statement (invariant EveryRowChecked; found and led to the fix of Z1 in vcom_eq)."),
    note=("The statement binding of com_lin is not reached (seeded change C07-8). "
          "dlog_eq and com_lin are model-checked only (not constructible from outside the crate); ps_sig_known and com_ineq are exercised indirectly by the credential and statement checks. "
          "Soundness and zero-knowledge proper are outside TLC."),
    ref="4 C07")

CLAIMED["C11"] = dict(
    engine="base",
    technique="TLA+ spec RangeStmt (truth tables of range, less-or-equal, interval, membership and non-membership statements over ordered boundary tokens, supported sizes, perturbations) enumerated by TLC; every row replayed on the bulletproofs of concordium_base with real commitments, both proof versions",
    text=("RangeStmt.tla decides when each statement is true (every value below 2^n; a <= b with both operands and their difference n-bit; a <= v < b; element of / not element of a set) over eleven u64 boundary values, "
          "which sizes the inner-product argument supports (n*m a power of two), and which perturbation was applied; the row's verdict is 'accept' exactly for true, supported, unperturbed rows. Each row is replayed: "
          "commitments are made, range_proof::prove / verify_efficient, prove_/verify_less_than_or_equal, prove_/verify_in_range and the set (non-)membership provers and verifiers are run under Version1 and Version2, "
          "with perturbed commitment, bit width, transcript, generators, key, proof bytes, swapped commitments, bounds or set. A prover may refuse a false statement; whatever it outputs must not verify."),
    note=("No adversarial prover beyond calling the real prover with false inputs. Batch sizes up to 4, n up to 64."),
    ref="4 C11")

CLAIMED["C08"] = dict(
    engine="base",
    technique="TLA+ state machine IdIssuance (request with chosen revokers and threshold -> issuance -> credential creation -> chain verification under perturbations / anonymity revocation by subsets (public identity credential and PRF key) / identity recovery requests under perturbations; limits and threshold meaning as invariants checked by TLC); one behaviour per transition replayed end to end on the identity library with real keys",
    text=("IdIssuance.tla is the life cycle of an identity: the holder requests an identity object (version 0 with initial account, version 1 without) naming a subset of the provider's anonymity revokers and a threshold, "
          "creates a credential for a counter in {0, 1, max, max+1} revealing a subset of attributes for a new or an existing account, the chain verifies it (accepted iff the counter is within max_accounts and nothing "
          "was altered) and subsets of the chosen revokers decrypt their shares (the public identity credential is reconstructed iff the subset reaches the threshold). Every transition of the graph is a behaviour replayed "
          "with fresh holder secrets: generate_pio(_v1), verify_credentials(_v1), verify_initial_cdi, create_credential, verify_cdi with single-bit flips spread over the credential's encoding, another provider, revoker key, "
          "global context, account address or expiry, swapped revoker data, reveal_id_cred_pub over the decrypted shares, reveal_prf_key over the PRF key shares decrypted from the identity request (sampled: eight 32-bit "
          "discrete logarithms per share) and generate_id_recovery_request / validate_id_recovery_request with altered provider identity, provider key, chain parameters, timestamp, public identity credential or proof."),
    note=("Two attributes per identity; PRF-key reconstruction is sampled (28 behaviours quick, 160 thorough); creation with a counter above the limit may succeed in the library (the chain must "
          "then reject - checked)."),
    ref="4 C08")

CLAIMED["C18"] = dict(
    engine="base",
    technique="TLA+ spec Statements (attribute values ordered as their field encodings, truth and 64-bit provability of reveal / range / membership / non-membership atoms, perturbations) enumerated by TLC; rows replayed on StatementWithContext prove / verify over real Pedersen commitments, both proof versions; Version1's unbound range proofs recorded as known finding R1; TLA+ spec PresentationV1 (the V1 verification pipeline against an anchored request, one action per check, model-checked against its declarative reading) with every scenario of at most two deviations replayed on RequestV1::prove_with_rng / verify_presentation_with_request_anchor for account based and identity based credentials",
    text=("Statements.tla fixes the order of attribute values (length byte first, then bytes), decides the truth of each atom at lower = value, value = upper - 1, value = upper, singleton and larger sets, and marks "
          "range atoms provable only when bounds and value are within 2^64 of each other (the documented 64-bit range technique). Rows - attribute list, one or two atoms, perturbation in {challenge, credential id, "
          "commitments, statement, proof bytes, proof version} - are replayed: a proof must be produced and verify exactly for provable unperturbed rows, revealed values are the committed ones, everything else "
          "must not verify. With ProofVersion::Version1, statements made only of range atoms verify under a different challenge or credential id (their range proofs use a private transcript): recorded as R1."),
    note=("Presentations are covered for account and web3 credentials of web3id (request -> prove_with_rng -> Presentation::verify, issuer-signed commitments, holder linking signatures) with perturbed context, public "
          "data, credential id / holder, statement, borrowed proofs and borrowed linking proofs. The V1 format (web3id::v1: account based and identity based credentials, context, request anchor, allowed kinds and issuers, "
          "requested statements, validity period, network) is bound through PresentationV1.tla: 3 526 scenarios with at most two deviations plus about 700 statement rows; the failure kind is compared only where "
          "the specification says exactly one check fails. The audit record of every fourth verified exchange is checked for hash binding of (id, request, presentation) and for its CBOR / JSON / binary encodings. An account credential id is not part of the V0 proof (the verifier looks commitments up by it)."),
    ref="4 C18")

NOT_YET = {
}

LEVEL = "model_checking"


def main():
    props = [json.loads(l) for l in open(os.path.join(VERIF, "properties.jsonl"))]
    checks = []
    na = []
    for p in props:
        pid = p["id"]
        if pid in CLAIMED:
            c = CLAIMED[pid]
            checks.append({
                "property_id": pid,
                "quick_cmd": "bin/vcheck %s quick" % pid,
                "thorough_cmd": "bin/vcheck %s thorough" % pid,
                "evidence_file": "evidence/%s.json" % pid,
                "replay_cmd_template": "bin/vcheck %s --replay {path}" % pid,
                "engine": c["engine"],
                "level_claimed": {"category": LEVEL, "text": c["text"], "design_ref": "DESIGN.md section " + c["ref"]},
                "level_note": c["note"],
                "technique": c["technique"],
            })
        else:
            na.append({"property_id": pid, "reason": NOT_YET.get(pid, "check not built yet in this round (planned, see DESIGN.md section 7); not claimed until its TLA+ spec is bound to the code")})
    man = {
        "version": 1,
        "setup_cmd": "bin/vsetup",
        "hooks": {
            "guard": "concordium_base_verif",
            "enable": "rustflags = [\"--cfg\", \"concordium_base_verif\"] in harness/*/.cargo/config.toml (the harness workspaces build /repo's crates by path)",
            "baseline_off_cmd": "cd /repo/rust-src && cargo test --workspace --no-fail-fast --offline",
            "source_commits": [l.split()[0] for l in HOOK_COMMITS],
            "add_only": True,
        },
        "engines": [
            {"name": "base", "path": "harness/base", "serves_properties": sorted(k for k, v in CLAIMED.items() if v["engine"] == "base"),
             "kind_free_text": "Rust conformance harness over concordium_base (with internal-test-helpers) and the key-derivation crates; specs under spec/auth, spec/codec, spec/crypto"},
            {"name": "engine", "path": "harness/engine", "serves_properties": sorted(k for k, v in CLAIMED.items() if v["engine"] == "engine"),
             "kind_free_text": "Rust conformance harness (replay of TLC behaviours, trace recording) over wasm-transform / wasm-chain-integration, built offline with 4 shim crates; specs under spec/trie, spec/wasm, spec/host"},
        ],
        "checks": checks,
        "not_applicable": na,
        "notes": "Driver: bin/vcheck <ID> quick|thorough. Exit 0 held / 1 violation / 2 tool error. Known findings: known_findings.json.",
    }
    with open(os.path.join(VERIF, "MANIFEST.json"), "w") as f:
        json.dump(man, f, indent=1)
    print("MANIFEST: %d checks, %d not claimed" % (len(checks), len(na)))


if __name__ == "__main__":
    main()
