"""Shared machinery of the /verif checks: running TLC, extracting exported behaviours, building and
running the Rust conformance harnesses, known findings, evidence files, exit-code contract.

Exit codes (DESIGN 2.2): 0 held / 1 violation (with VIOLATION line + replay file) / 2 tool error.
"""
import hashlib
import json
import os
import re
import subprocess
import sys
import time

VERIF = os.path.dirname(os.path.dirname(os.path.abspath(__file__)))
REPO = "/repo"
TLA_CP = "/opt/veriftools/tla/tla2tools.jar:/opt/veriftools/tla/CommunityModules-deps.jar"
NCPU = os.cpu_count() or 8


class ToolError(Exception):
    pass


def sh(cmd, timeout=None, env=None, cwd=None, stdout=None):
    e = dict(os.environ)
    if env:
        e.update(env)
    return subprocess.run(cmd, timeout=timeout, env=e, cwd=cwd, stdout=stdout or subprocess.PIPE,
                          stderr=subprocess.STDOUT, text=True)


class TlcResult:
    def __init__(self):
        self.generated = 0
        self.distinct = 0
        self.depth = 0
        self.replays = []      # decoded JSON strings printed as <<"TAG", "json">>
        self.tagged = {}       # tag -> list of decoded JSON strings
        self.ok = False
        self.violation = None  # text of an invariant/property violation reported by TLC
        self.error = None
        self.out_path = None
        self.wall = 0.0
        self.postcondition_failed = False


_PRINT_RE = re.compile(r'^<<"([A-Z_]+)", (".*")>>(?:\s+(?:TRUE|FALSE))?$')


def parse_tlc_output(path, res, keep_tags=("REPLAY",)):
    gen = dist = 0
    with open(path, errors="replace") as f:
        for line in f:
            line = line.rstrip("\n")
            m = _PRINT_RE.match(line)
            if m:
                tag = m.group(1)
                try:
                    s = json.loads(m.group(2))
                except Exception:
                    continue
                res.tagged.setdefault(tag, []).append(s)
                continue
            m = re.match(r"^(\d+) states generated, (\d+) distinct states found", line)
            if m:
                gen, dist = int(m.group(1)), int(m.group(2))
                continue
            m = re.match(r"^The number of states generated: (\d+)", line)
            if m:
                gen = int(m.group(1))
                dist = max(dist, gen)
                continue
            m = re.match(r"^The depth of the complete state graph search is (\d+)", line)
            if m:
                res.depth = int(m.group(1))
                continue
            if line.startswith("Error: Invariant") or line.startswith("Error: Action property") or \
               line.startswith("Error: Temporal properties were violated") or "is violated" in line and line.startswith("Error:"):
                res.violation = line
            elif line.startswith("Error: The postcondition") or "Postcondition" in line and "violated" in line:
                res.postcondition_failed = True
            elif line.startswith("Error:") and res.error is None and res.violation is None:
                res.error = line
            if "Model checking completed. No error has been found" in line or \
               line.startswith("Finished in") and res.error is None and res.violation is None:
                res.ok = True
    res.generated, res.distinct = gen, dist
    res.replays = res.tagged.get("REPLAY", [])
    if res.violation or res.error or res.postcondition_failed:
        res.ok = False
    return res


def run_tlc(spec_dir, module, cfg, out_path, workers=8, timeout=900, simulate=None, depth=None,
            seed=None, env=None, jvm=None, extra=None, metadir=None, coverage=False):
    """Run TLC on spec_dir/module with spec_dir/cfg; full output goes to out_path."""
    metadir = metadir or (out_path + ".meta")
    cmd = ["java", "-XX:+UseParallelGC", "-Xss64m", "-DTLA-Library=" + os.path.join(VERIF, "spec", "lib")] + (jvm or []) + ["-cp", TLA_CP, "tlc2.TLC",
           "-workers", str(workers), "-metadir", metadir, "-cleanup", "-noGenerateSpecTE",
           "-config", cfg]
    if coverage:
        cmd += ["-coverage", "1"]
    if simulate is not None:
        cmd += ["-simulate", "num=%d" % simulate]
        if depth:
            cmd += ["-depth", str(depth)]
    if seed is not None:
        cmd += ["-seed", str(seed)]
    if extra:
        cmd += extra
    cmd.append(module)
    res = TlcResult()
    res.out_path = out_path
    t0 = time.time()
    os.makedirs(os.path.dirname(out_path), exist_ok=True)
    with open(out_path, "w") as fo:
        try:
            p = sh(cmd, timeout=timeout, env=env, cwd=spec_dir, stdout=fo)
            rc = p.returncode
        except subprocess.TimeoutExpired:
            res.error = "TLC timeout after %ss" % timeout
            rc = -1
    res.wall = time.time() - t0
    parse_tlc_output(out_path, res)
    res.returncode = rc
    subprocess.run(["rm", "-rf", metadir])
    if rc not in (0,) and res.error is None and res.violation is None and not res.postcondition_failed:
        res.error = "TLC exit code %s" % rc
        res.ok = False
    return res


def cargo_build(harness, log_path, timeout=3600):
    d = os.path.join(VERIF, "harness", harness)
    env = {"CARGO_NET_OFFLINE": "true"}
    p = sh(["cargo", "build", "--release", "--offline"], cwd=d, env=env, timeout=timeout)
    with open(log_path, "w") as f:
        f.write(p.stdout or "")
    if p.returncode != 0:
        tail = "\n".join((p.stdout or "").splitlines()[-40:])
        raise ToolError("cargo build of harness/%s failed:\n%s" % (harness, tail))
    return os.path.join(d, "target", "release")


def load_known_findings():
    p = os.path.join(VERIF, "known_findings.json")
    if not os.path.exists(p):
        return []
    with open(p) as f:
        return json.load(f).get("findings", [])


class Ctx:
    def __init__(self, prop, tier, seed):
        self.prop = prop
        self.tier = tier
        self.seed = seed
        self.t0 = time.time()
        self.work = os.path.join(VERIF, "work", prop)
        subprocess.run(["rm", "-rf", self.work])
        os.makedirs(self.work, exist_ok=True)
        self.replay_dir = os.path.join(VERIF, "replays", prop)
        os.makedirs(self.replay_dir, exist_ok=True)
        self.states = 0
        self.transitions = 0
        self.traces = 0
        self.evaluations = 0
        self.distinct = set()
        self.distinct_extra = 0
        self.samples = []
        self.exhaustive = False
        self.violations = []
        self.known_hits = {}
        self.assumptions = []
        self.extra = {}
        self.tlc_runs = []
        self.rule = ""
        self.known = [k for k in load_known_findings() if k.get("property") == prop]

    # ---------------------------------------------------------------- TLC
    def tlc(self, spec_rel_dir, module, cfg, name=None, must_pass=True, **kw):
        name = name or cfg.replace(".cfg", "")
        out = os.path.join(self.work, "tlc_%s.out" % name)
        kw.setdefault("seed", self.seed)
        res = run_tlc(os.path.join(VERIF, "spec", spec_rel_dir), module, cfg, out, **kw)
        self.states += res.distinct
        self.transitions += res.generated
        self.tlc_runs.append({"name": name, "module": module, "cfg": cfg, "generated": res.generated,
                              "distinct": res.distinct, "depth": res.depth, "wall_s": round(res.wall, 1),
                              "simulate": kw.get("simulate"), "ok": res.ok})
        if must_pass and not res.ok:
            tail = subprocess.run(["tail", "-n", "40", out], capture_output=True, text=True).stdout
            raise ToolError("TLC run %s failed (%s)\n%s" % (name, res.violation or res.error, tail))
        return res

    def tlc_parallel_sim(self, spec_rel_dir, module, cfg, name, total, depth, procs=6, timeout=3000):
        """Random simulation with several single-worker TLC processes (different seeds) side by side:
        multi-worker simulation of specs with deep recursive operators is unreliable in TLC 1.8."""
        from concurrent.futures import ThreadPoolExecutor
        per = max(1, total // procs)
        def one(i):
            return self.tlc(spec_rel_dir, module, cfg, name="%s_%d" % (name, i), workers=1, timeout=timeout,
                            simulate=per, depth=depth, seed=self.seed * 1000 + i)
        with ThreadPoolExecutor(max_workers=procs) as ex:
            return list(ex.map(one, range(procs)))

    # ---------------------------------------------------------------- harness
    def build(self, harness):
        t = time.time()
        d = cargo_build(harness, os.path.join(self.work, "cargo_%s.log" % harness))
        self.extra.setdefault("build_s", {})[harness] = round(time.time() - t, 1)
        return d

    def harness(self, harness, args, timeout=3600, env=None, ok_codes=(0,)):
        exe = os.path.join(VERIF, "harness", harness, "target", "release", "vh-" + harness)
        p = sh([exe] + args, timeout=timeout, env=env, cwd=self.work)
        if p.returncode not in ok_codes:
            raise ToolError("harness %s %s exited %s:\n%s" % (harness, args[:1], p.returncode,
                                                             "\n".join((p.stdout or "").splitlines()[-30:])))
        return p

    # ---------------------------------------------------------------- results
    def note_case(self, obj, nontrivial=True):
        """Count one explored case; distinct by content hash."""
        self.evaluations += 1
        if nontrivial:
            s = obj if isinstance(obj, str) else json.dumps(obj, sort_keys=True)
            self.distinct.add(hashlib.sha1(s.encode()).digest()[:10])

    def sample(self, obj, limit=5):
        if len(self.samples) < limit:
            self.samples.append(obj)

    def violation(self, what, replay_obj, signature=None):
        """Report a disagreement between implementation and specification."""
        for k in self.known:
            if k.get("status") == "recorded" and signature is not None and k.get("signature") == signature:
                self.known_hits.setdefault(k["id"], {"finding": k, "count": 0, "example": what})
                self.known_hits[k["id"]]["count"] += 1
                return False
        blob = json.dumps({"property": self.prop, "what": what, "replay": replay_obj}, sort_keys=True, indent=1)
        h = hashlib.sha1(blob.encode()).hexdigest()[:12]
        path = os.path.join(self.replay_dir, "%s.json" % h)
        with open(path, "w") as f:
            f.write(blob)
        if len(self.violations) < 50:
            print("VIOLATION property=%s replay=%s" % (self.prop, path))
            print("  " + what[:400])
        self.violations.append(path)
        return True

    def finish(self, level="model_checking"):
        for hid, h in sorted(self.known_hits.items()):
            print("KNOWN-FINDING: property=%s %s (%s; seen %d times this run)" % (
                self.prop, h["finding"].get("title", hid), hid, h["count"]))
        cov = {
            "states": self.states,
            "transitions": self.transitions,
            "traces_validated_against_impl": self.traces,
            "evaluations": self.evaluations,
            "distinct_nontrivial": len(self.distinct) + self.distinct_extra,
            "rule": self.rule,
            "samples": self.samples if self.samples else ["(no sample recorded)"],
            "exhaustive": self.exhaustive,
            "tlc_runs": self.tlc_runs,
        }
        cov.update(self.extra)
        ev = {
            "property_id": self.prop,
            "tier": self.tier,
            "seed": self.seed,
            "level": level,
            "coverage": cov,
            "assumptions": self.assumptions,
            "wall_s": round(time.time() - self.t0, 1),
            "violations": len(self.violations),
            "known_findings_seen": sorted(self.known_hits.keys()),
        }
        os.makedirs(os.path.join(VERIF, "evidence"), exist_ok=True)
        with open(os.path.join(VERIF, "evidence", "%s.json" % self.prop), "w") as f:
            json.dump(ev, f, indent=1)
        print("%s %s: states=%d transitions=%d traces=%d evaluations=%d distinct=%d violations=%d wall=%.0fs" % (
            self.prop, self.tier, self.states, self.transitions, self.traces, self.evaluations,
            cov["distinct_nontrivial"], len(self.violations), time.time() - self.t0))
        return 1 if self.violations else 0


def write_ndjson(path, items):
    with open(path, "w") as f:
        for it in items:
            f.write(it if isinstance(it, str) else json.dumps(it))
            f.write("\n")


def read_ndjson(path):
    out = []
    with open(path) as f:
        for l in f:
            l = l.strip()
            if l:
                out.append(json.loads(l))
    return out


# ------------------------------------------------------------------------------------------
# Common conformance patterns

def replay_behaviours(ctx, harness, subcmd, behaviours, name, extra_args=None, classify=None, timeout=3600):
    """spec -> impl: feed exported behaviours (list of JSON strings) to a harness replayer.
    The replayer writes one line per failing behaviour and a final summary line."""
    inp = os.path.join(ctx.work, name + ".ndjson")
    outp = os.path.join(ctx.work, name + ".res")
    write_ndjson(inp, behaviours)
    ctx.harness(harness, [subcmd, inp, outp] + (extra_args or []), timeout=timeout)
    summary = None
    bad = []
    for rec in read_ndjson(outp):
        if rec.get("summary"):
            summary = rec
        elif not rec.get("ok", True):
            bad.append(rec)
    if summary is None:
        raise ToolError("replayer %s produced no summary" % subcmd)
    ctx.traces += len(behaviours)
    for b in behaviours:
        ctx.note_case(b)
    for b in behaviours[:2]:
        ctx.sample({"kind": "behaviour replayed into the implementation", "steps": json.loads(b) if isinstance(b, str) else b}, limit=4)
    for rec in bad:
        beh = behaviours[rec["idx"]]
        sig = classify(rec, beh) if classify else None
        ctx.violation("%s: behaviour %d step %s: %s (expected %s, got %s)" % (
            subcmd, rec["idx"], rec.get("step"), rec.get("what"), json.dumps(rec.get("exp"))[:200], json.dumps(rec.get("got"))[:200]),
            {"kind": "behaviour", "harness": harness, "subcmd": subcmd, "args": extra_args or [],
             "behaviour": json.loads(beh) if isinstance(beh, str) else beh, "detail": rec}, signature=sig)
    return summary, bad


def validate_trace(ctx, spec_rel_dir, module, cfg, trace_path, name, timeout=900):
    """impl -> spec: let TLC decide whether the recorded ndjson trace is a behaviour of the spec.
    Returns (accepted, reject_info, tlc_result)."""
    res = ctx.tlc(spec_rel_dir, module, cfg, name=name, must_pass=False, workers=1, timeout=timeout,
                  env={"TRACE": trace_path,
                       "JAVA_TOOL_OPTIONS": "-Xss1g -Xmx4g -Dtlc2.tool.queue.IStateQueue=StateDeque"})
    if res.ok:
        return True, None, res
    rej = res.tagged.get("TRACE_REJECT")
    if rej:
        return False, json.loads(rej[0]), res
    if res.violation:
        return False, {"line": None, "invariant": res.violation}, res
    tail = subprocess.run(["tail", "-n", "30", res.out_path], capture_output=True, text=True).stdout
    raise ToolError("trace validation %s failed without a verdict: %s\n%s" % (name, res.error, tail))
