#!/bin/sh
# usage: run_mutant.sh <patch.diff> <ID> [tier]   -- applies the patch to /repo, runs the check, reverts.
patch="$(realpath "$1")"; id="$2"; tier="${3:-quick}"
cd /repo || exit 2
if ! git diff --quiet; then echo "/repo has uncommitted changes"; exit 2; fi
git apply "$patch" || { echo "patch does not apply"; exit 2; }
cd /verif && bin/vcheck "$id" "$tier" > /tmp/run_mutant_$$.log 2>&1
rc=$?
git -C /repo checkout -- .
grep -v conda /tmp/run_mutant_$$.log | grep -m3 -A1 "VIOLATION\|TOOL-ERROR"
grep -c VIOLATION /tmp/run_mutant_$$.log | sed 's/^/violations printed: /'
tail -n 1 /tmp/run_mutant_$$.log
rm -f /tmp/run_mutant_$$.log
echo "exit=$rc"
