#!/bin/sh
# Creates a scratch environment for a seeded-change sub-agent (outside /repo and /verif):
#   /tmp/mut/<name>/wt     git worktree of /repo HEAD (the agent edits this)
#   /tmp/mut/<name>/shims  copies of the offline shim crates (needed to build the engine crates)
#   /tmp/mut/<name>/demo   a cargo crate with path deps on the worktree's engine crates
# Nothing from /verif other than the shims (build infrastructure) is exposed.
set -e
name="$1"; kind="${2:-engine}"
d=/tmp/mut/$name
rm -rf "$d"; mkdir -p "$d"
git -C /repo worktree prune
git -C /repo worktree add -q "$d/wt" HEAD
if [ "$kind" = engine ]; then
  cp -r /verif/shims "$d/shims"
  mkdir -p "$d/demo/src" "$d/demo/.cargo"
  cat > "$d/demo/Cargo.toml" <<EOT
[package]
name = "demo"
version = "0.1.0"
edition = "2021"

[workspace]

[dependencies]
concordium-wasm = { path = "../wt/smart-contracts/wasm-transform" }
concordium-smart-contract-engine = { path = "../wt/smart-contracts/wasm-chain-integration" }
concordium-contracts-common = { path = "../wt/smart-contracts/contracts-common/concordium-contracts-common", features = ["derive-serde"] }
anyhow = "1"
sha2 = "0.10"
rand = { version = "=0.8", features = ["small_rng"] }
hex = "0.4"

[patch.crates-io]
num_enum = { path = "../shims/num_enum" }
slab = { path = "../shims/slab" }
secp256k1 = { path = "../shims/secp256k1" }
ed25519-zebra = { path = "../shims/ed25519-zebra" }
EOT
  printf '[net]\noffline = true\n[build]\ntarget-dir = "target"\nrustflags = ["--cfg", "concordium_base_verif", "--check-cfg", "cfg(concordium_base_verif)"]\n' > "$d/demo/.cargo/config.toml"
  cp /repo/rust-src/Cargo.lock "$d/demo/Cargo.lock"
  echo 'fn main() { println!("demo"); }' > "$d/demo/src/main.rs"
fi
echo "$d"
