#!/bin/sh
# usage: confirm_mutant.sh <envdir> <i>  -- confirms in the scratch env that demo passes clean and fails with patch
d="$1"; i="$2"
git -C "$d/wt" checkout -q -- . || exit 2
cp "$d/out/$i/demo.rs" "$d/demo/src/main.rs"
(cd "$d/demo" && cargo run -q >/tmp/confirm_clean.log 2>&1); c=$?
git -C "$d/wt" apply "$d/out/$i/patch.diff" || { echo "patch does not apply"; exit 2; }
(cd "$d/demo" && cargo run -q >/tmp/confirm_mut.log 2>&1); m=$?
git -C "$d/wt" checkout -q -- .
echo "clean exit=$c  mutated exit=$m  $(grep -m1 'FAIL' /tmp/confirm_mut.log | cut -c1-160)"
[ $c -eq 0 ] && [ $m -ne 0 ]
