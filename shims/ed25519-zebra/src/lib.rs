//! Offline shim for `ed25519-zebra` backed by `ed25519-dalek` (API subset used by the engine).
use std::convert::TryFrom;

#[derive(Debug, Clone, Copy, PartialEq, Eq)]
pub enum Error {
    MalformedPublicKey,
    InvalidSignature,
    InvalidSliceLength,
}
impl std::fmt::Display for Error {
    fn fmt(&self, f: &mut std::fmt::Formatter<'_>) -> std::fmt::Result { write!(f, "{:?}", self) }
}
impl std::error::Error for Error {}

#[derive(Debug, Clone, Copy)]
pub struct Signature([u8; 64]);

impl Signature {
    pub fn from_bytes(b: &[u8; 64]) -> Self { Signature(*b) }
}
impl From<[u8; 64]> for Signature {
    fn from(b: [u8; 64]) -> Self { Signature(b) }
}
impl TryFrom<&[u8]> for Signature {
    type Error = Error;

    fn try_from(s: &[u8]) -> Result<Self, Error> {
        <[u8; 64]>::try_from(s).map(Signature).map_err(|_| Error::InvalidSliceLength)
    }
}

#[derive(Debug, Clone, Copy)]
pub struct VerificationKey(ed25519_dalek::VerifyingKey);

impl TryFrom<[u8; 32]> for VerificationKey {
    type Error = Error;

    fn try_from(b: [u8; 32]) -> Result<Self, Error> {
        ed25519_dalek::VerifyingKey::from_bytes(&b)
            .map(VerificationKey)
            .map_err(|_| Error::MalformedPublicKey)
    }
}
impl TryFrom<&[u8]> for VerificationKey {
    type Error = Error;

    fn try_from(s: &[u8]) -> Result<Self, Error> {
        let b = <[u8; 32]>::try_from(s).map_err(|_| Error::InvalidSliceLength)?;
        Self::try_from(b)
    }
}
impl VerificationKey {
    pub fn verify(&self, sig: &Signature, msg: &[u8]) -> Result<(), Error> {
        let s = ed25519_dalek::Signature::from_bytes(&sig.0);
        self.0.verify_strict(msg, &s).map_err(|_| Error::InvalidSignature)
    }
}
