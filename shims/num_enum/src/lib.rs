//! Offline shim for `num_enum`: the engine only *derives* `TryFromPrimitive` on
//! `InternalOpcode` and never calls the generated `try_from` (the interpreter
//! transmutes). The derive therefore expands to nothing.
use proc_macro::TokenStream;

#[proc_macro_derive(TryFromPrimitive, attributes(num_enum))]
pub fn derive_try_from_primitive(_input: TokenStream) -> TokenStream { TokenStream::new() }

#[proc_macro_derive(IntoPrimitive, attributes(num_enum))]
pub fn derive_into_primitive(_input: TokenStream) -> TokenStream { TokenStream::new() }
