//! Offline API stub for `secp256k1`: no pure-Rust implementation is available in
//! the sandbox. All parsers reject, so the engine's secp256k1 host function always
//! reports "invalid signature" after doing its bounds/energy work (see DESIGN §2.3).
#[derive(Debug, Clone, Copy, PartialEq, Eq)]
pub enum Error {
    Unavailable,
}
impl std::fmt::Display for Error {
    fn fmt(&self, f: &mut std::fmt::Formatter<'_>) -> std::fmt::Result { write!(f, "secp256k1 shim") }
}
impl std::error::Error for Error {}

pub struct VerifyOnly;
pub struct Secp256k1<C> {
    _c: std::marker::PhantomData<C>,
}
impl Secp256k1<VerifyOnly> {
    pub fn verification_only() -> Self { Secp256k1 { _c: std::marker::PhantomData } }
}
impl<C> Secp256k1<C> {
    pub fn verify_ecdsa(
        &self,
        _msg: &Message,
        _sig: &ecdsa::Signature,
        _pk: &PublicKey,
    ) -> Result<(), Error> {
        Err(Error::Unavailable)
    }
}
pub struct Message;
impl Message {
    pub fn from_slice(_d: &[u8]) -> Result<Self, Error> { Err(Error::Unavailable) }
}
pub struct PublicKey;
impl PublicKey {
    pub fn from_slice(_d: &[u8]) -> Result<Self, Error> { Err(Error::Unavailable) }
}
pub mod ecdsa {
    pub struct Signature;
    impl Signature {
        pub fn from_compact(_d: &[u8]) -> Result<Self, super::Error> { Err(super::Error::Unavailable) }
    }
}
