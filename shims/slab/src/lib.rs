//! Offline shim for `slab`: safe `Vec<Option<T>>` + free list, API subset used by
//! the engine's `PrefixesMap`.
#[derive(Debug, Clone)]
pub struct Slab<T> {
    entries: Vec<Option<T>>,
    free:    Vec<usize>,
    len:     usize,
}

impl<T> Default for Slab<T> {
    fn default() -> Self { Self::new() }
}

impl<T> Slab<T> {
    pub const fn new() -> Self { Slab { entries: Vec::new(), free: Vec::new(), len: 0 } }

    pub fn with_capacity(n: usize) -> Self {
        Slab { entries: Vec::with_capacity(n), free: Vec::new(), len: 0 }
    }

    pub fn insert(&mut self, value: T) -> usize {
        self.len += 1;
        if let Some(i) = self.free.pop() {
            self.entries[i] = Some(value);
            i
        } else {
            self.entries.push(Some(value));
            self.entries.len() - 1
        }
    }

    pub fn remove(&mut self, key: usize) -> T {
        let v = self.entries.get_mut(key).and_then(Option::take).expect("invalid key");
        self.free.push(key);
        self.len -= 1;
        v
    }

    pub fn try_remove(&mut self, key: usize) -> Option<T> {
        let v = self.entries.get_mut(key).and_then(Option::take)?;
        self.free.push(key);
        self.len -= 1;
        Some(v)
    }

    pub fn get(&self, key: usize) -> Option<&T> { self.entries.get(key).and_then(Option::as_ref) }

    pub fn get_mut(&mut self, key: usize) -> Option<&mut T> {
        self.entries.get_mut(key).and_then(Option::as_mut)
    }

    /// # Safety
    /// Same contract as the real crate; this shim checks anyway.
    pub unsafe fn get_unchecked(&self, key: usize) -> &T { self.get(key).expect("invalid key") }

    /// # Safety
    /// Same contract as the real crate; this shim checks anyway.
    pub unsafe fn get_unchecked_mut(&mut self, key: usize) -> &mut T {
        self.get_mut(key).expect("invalid key")
    }

    pub fn contains(&self, key: usize) -> bool { self.get(key).is_some() }

    pub fn is_empty(&self) -> bool { self.len == 0 }

    pub fn len(&self) -> usize { self.len }

    pub fn clear(&mut self) {
        self.entries.clear();
        self.free.clear();
        self.len = 0;
    }
}

impl<T> std::ops::Index<usize> for Slab<T> {
    type Output = T;

    fn index(&self, key: usize) -> &T { self.get(key).expect("invalid key") }
}

impl<T> std::ops::IndexMut<usize> for Slab<T> {
    fn index_mut(&mut self, key: usize) -> &mut T { self.get_mut(key).expect("invalid key") }
}
