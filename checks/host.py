"""Check of the host-function family: C14.
Specs: spec/host/HostV1.tla (IO, limits, hostile windows, invoke), spec/host/HostV0.tla (legacy state and actions),
spec/trie/InstanceHandles.tla (state entries and iterators, compiled to host calls here).
Scripts of host calls are compiled into Wasm contracts and run by harness/engine host-run."""
import hashlib
import json
import os
import struct
from concurrent.futures import ThreadPoolExecutor

import vlib
from vlib import ToolError, write_ndjson, read_ndjson
from wasmasm import uleb, sleb, vec, name, section

I32, I64 = 0x7F, 0x7E
SIGS_V1 = {
    "invoke": ([I32, I32, I32], I64), "write_output": ([I32, I32, I32], I32), "get_parameter_size": ([I32], I32),
    "get_parameter_section": ([I32, I32, I32, I32], I32), "log_event": ([I32, I32], I32),
    "get_receive_invoker": ([I32], None), "get_receive_self_address": ([I32], None), "get_receive_self_balance": ([], I64),
    "get_receive_sender": ([I32], None), "get_receive_owner": ([I32], None), "get_receive_entrypoint_size": ([], I32),
    "get_receive_entrypoint": ([I32], None), "get_slot_time": ([], I64), "get_init_origin": ([I32], None),
    "state_lookup_entry": ([I32, I32], I64), "state_create_entry": ([I32, I32], I64), "state_delete_entry": ([I32, I32], I32),
    "state_delete_prefix": ([I32, I32], I32), "state_iterate_prefix": ([I32, I32], I64), "state_iterator_next": ([I64], I64),
    "state_iterator_delete": ([I64], I32), "state_iterator_key_size": ([I64], I32), "state_iterator_key_read": ([I64, I32, I32, I32], I32),
    "state_entry_read": ([I64, I32, I32, I32], I32), "state_entry_write": ([I64, I32, I32, I32], I32), "state_entry_size": ([I64], I32),
    "state_entry_resize": ([I64, I32], I32), "hash_sha2_256": ([I32, I32, I32], None), "hash_sha3_256": ([I32, I32, I32], None),
    "hash_keccak_256": ([I32, I32, I32], None), "verify_ed25519_signature": ([I32, I32, I32, I32], I32),
    "verify_ecdsa_secp256k1_signature": ([I32, I32, I32], I32),
}
SIGS_V0 = {
    "accept": ([], I32), "simple_transfer": ([I32, I64], I32), "send": ([I64, I64, I32, I32, I64, I32, I32], I32),
    "combine_and": ([I32, I32], I32), "combine_or": ([I32, I32], I32), "get_parameter_size": ([], I32),
    "get_parameter_section": ([I32, I32, I32], I32), "log_event": ([I32, I32], I32), "load_state": ([I32, I32, I32], I32),
    "write_state": ([I32, I32, I32], I32), "resize_state": ([I32], I32), "state_size": ([], I32), "get_slot_time": ([], I64),
    "get_receive_self_balance": ([], I64), "get_receive_sender": ([I32], None), "get_receive_owner": ([I32], None),
    "get_receive_invoker": ([I32], None), "get_receive_self_address": ([I32], None),
}
RES = 32768         # result slots, 8 bytes each: above every window the scripts write to
SCRATCH = 2048      # destination of reads
DATA = 256          # keys and sources live here
GARBAGE = 0x7FFFFFF0_7FFFFFF0
CALL_AT = 4096      # payload of invoke(call)


def i32c(n):
    return b"\x41" + sleb(n if n < 2 ** 31 else n - 2 ** 32)


def i64c(n):
    return b"\x42" + sleb(n if n < 2 ** 63 else n - 2 ** 64)


def build_contract(calls, sigs, data=b"", final_output=True, v0=False, data_at=None, export="contract.entry"):
    """calls: list of (fname, [arg]) with arg = ("i32", n) | ("i64", n) | ("slot", k) (the i64 result of call k);
    every result is stored (as i64) in slot i; finally the slots are written to the return value (v1) or logged (v0)."""
    used = []
    for f, _ in calls:
        if f not in used and f != "memory.grow":
            used.append(f)
    fin = "write_output" if "write_output" in sigs else "log_event"
    if final_output and fin not in used:
        used.append(fin)
    if v0 and "accept" not in used:
        used.append("accept")
    types = []
    def tidx(ps, r):
        t = b"\x60" + vec([bytes([p]) for p in ps]) + vec([bytes([r])] if r else [])
        if t not in types:
            types.append(t)
        return types.index(t)
    entry_t = tidx([I64], I32)
    imports = []
    for f in used:
        ps, r = sigs[f]
        imports.append(name("concordium") + name(f) + b"\x00" + uleb(tidx(ps, r)))
    body = bytearray()
    for i, (f, args) in enumerate(calls):
        if f == "memory.grow":
            body += i32c(RES + 8 * i) + i32c(args[0][1] & 0xFFFFFFFF) + b"\x40\x00" + b"\xac" + b"\x37\x03\x00"
            continue
        ps, r = sigs[f]
        body += i32c(RES + 8 * i)
        for (k, val), pt in zip(args, ps):
            if k == "slot":
                body += i32c(RES + 8 * val) + b"\x29\x03\x00"          # i64.load align=3
                if pt == I32:
                    body += b"\xa7"
            elif pt == I32:
                body += i32c(val & 0xFFFFFFFF)
            else:
                body += i64c(val & 0xFFFFFFFFFFFFFFFF)
        body += b"\x10" + uleb(used.index(f))
        if r is None:
            body += i64c(0)
        elif r == I32:
            body += b"\xac"                                            # i64.extend_i32_s
        body += b"\x37\x03\x00"                                        # i64.store
    if final_output:
        if fin == "write_output":
            body += i32c(RES) + i32c(8 * len(calls)) + i32c(0) + b"\x10" + uleb(used.index(fin)) + b"\x1a"
        else:
            n = min(8 * len(calls), 512)
            body += i32c(RES) + i32c(n) + b"\x10" + uleb(used.index(fin)) + b"\x1a"
    if v0:
        body += b"\x10" + uleb(used.index("accept")) + b"\x0b"      # the receive function returns the index of a final accept action
    else:
        body += i32c(0) + b"\x0b"
    code = vec([]) + bytes(body)
    out = b"\x00asm\x01\x00\x00\x00"
    out += section(1, vec(types))
    out += section(2, vec(imports))
    out += section(3, vec([uleb(entry_t)]))
    out += section(5, vec([b"\x00" + uleb(1)]))
    out += section(7, vec([name(export) + b"\x00" + uleb(len(used))]))
    out += section(10, vec([uleb(len(code)) + code]))
    if data:
        out += section(11, vec([b"\x00" + i32c(DATA if data_at is None else data_at) + b"\x0b" + uleb(len(data)) + data]))
    return out


def u(n, bits):
    return n & ((1 << bits) - 1)


# ------------------------------------------------------------------------------------------------ HostV1 scripts
PARAM = bytes(range(1, 200)) * 11


def compile_v1_script(s):
    """HostV1.tla behaviour -> (calls, data, expectations per slot)."""
    pl = s["pl"]
    calls, exp = [], []
    data = bytearray(bytes(range(256)) * 4)
    for op in s["ops"]:
        f, args, r = op["f"], op["args"], op["r"]
        if f == "finish":
            continue
        if f == "log_burst":
            for _ in range(args[0]):
                calls.append(("log_event", [("i32", DATA), ("i32", 1)]))
                exp.append({"f": "log_event", "r": ["i", 1], "min_energy": 1500})
            continue
        if f in ("get_slot_time", "get_receive_self_balance", "get_receive_entrypoint_size"):
            calls.append((f, []))
        elif f in ("state_entry_read", "state_entry_write", "state_iterator_key_read"):
            calls.append((f, [("i64", GARBAGE), ("i32", args[1]), ("i32", args[2]), ("i32", args[3])]))
        elif f == "invoke":
            calls.append(("invoke", [("i32", args[0]), ("i32", args[1]), ("i32", args[2])]))
        elif f == "invoke_call":
            plen, trunc = args
            payload = struct.pack("<QQ", 3, 0) + struct.pack("<H", plen) + b"\x07" * plen + struct.pack("<H", 2) + b"ep" + struct.pack("<Q", 5)
            if trunc:
                payload = payload[:-3]
            # the payload is placed high in memory by a data segment of its own (see build below)
            # the payload lives above every window the script may have written to before (and may cover the result slots, which no one reads after an interrupt)
            calls.append(("invoke", [("i32", 1), ("i32", CALL_AT), ("i32", len(payload))]))
            data = bytearray(payload)
        else:
            calls.append((f, [("i32", a) for a in args]))
        exp.append({"f": f, "r": r, "min_energy": op["min_energy"], "args": args})
    return calls, bytes(data), exp


def decode_slots(rv_hex, n):
    b = bytes.fromhex(rv_hex)
    return [struct.unpack_from("<q", b, 8 * i)[0] if 8 * i + 8 <= len(b) else None for i in range(n)]


def check_v1_script(ctx, s, res, exp, calls):
    """Compare one run with the expectations of the specification; returns a description of the first disagreement or None."""
    if res["outcome"] == "panic":
        return "host call script panicked: %s" % res.get("error")
    if res["outcome"] == "invalid_module":
        raise ToolError("generated contract rejected: %s" % res.get("error"))
    last = s["ops"][-1]
    terminal = exp[-1]["r"][0] if exp and exp[-1]["r"][0] in ("trap", "trap_or_ooe", "interrupt") else None
    want = {"trap": ("trap",), "trap_or_ooe": ("trap", "out_of_energy"), "interrupt": ("interrupt",), None: ("success",)}[terminal]
    if res["outcome"] not in want:
        return "outcome %s, expected %s (last call %s%s)" % (res["outcome"], "/".join(want), exp[-1]["f"] if exp else "-", exp[-1].get("args") if exp else "")
    if terminal == "interrupt" and res.get("tag") != exp[-1]["r"][1]:
        return "interrupt kind %s, expected %s" % (res.get("tag"), exp[-1]["r"][1])
    # per-host-call energy: every traced call charged at least its scheduled cost
    trace = res.get("trace") or []
    k = 0
    for e in exp:
        fn = "invoke" if e["f"] == "invoke_call" else e["f"]
        if k < len(trace) and trace[k][0] == fn:
            if e["r"][0] not in ("trap", "trap_or_ooe") and trace[k][1] < e["min_energy"]:
                return "%s%s charged %d, scheduled at least %d" % (fn, e.get("args"), trace[k][1], e["min_energy"])
            k += 1
    grown = sum(100 * (e["args"][0] & 0xFFFFFFFF) for e in exp if e["f"] == "memory.grow")
    if grown and res["outcome"] in ("success", "trap", "interrupt") and res.get("memory_alloc", 0) < grown:
        return "memory.grow requests charged %d, scheduled %d (100 per requested page)" % (res.get("memory_alloc", 0), grown)
    if res["outcome"] != "success":
        return None
    slots = decode_slots(res["rv"], len(exp))
    ctxvals = {"get_slot_time": 1700000000123, "get_receive_self_balance": 4242, "get_receive_entrypoint_size": 5}
    for i, (e, got) in enumerate(zip(exp, slots)):
        r = e["r"]
        if r[0] == "i" and got != r[1]:
            return "call %d %s%s returned %s, expected %s" % (i, e["f"], e.get("args"), got, r[1])
        if r[0] == "ctx" and got != ctxvals[e["f"]]:
            return "call %d %s returned %s, expected %s" % (i, e["f"], got, ctxvals[e["f"]])
        if r[0] == "any01" and got not in (0, 1):
            return "call %d %s%s returned %s, expected 0 or 1" % (i, e["f"], e.get("args"), got)
        if r[0] == "i64none" and got != -1:
            return "call %d %s returned %s, expected none" % (i, e["f"], got)
        if r[0] == "i64some" and (got is None or got in (-1, u(-1, 64) & ~(1 << 62)) or got < 0):
            return "call %d %s returned %s, expected a handle" % (i, e["f"], got)
    if last["f"] != "finish":
        return None
    fin = last["r"]
    # the return value is the slots written at the end on top of what the script wrote itself
    rv_len = len(bytes.fromhex(res["rv"]))
    want_len = max(fin[1], 8 * len(exp)) if not (s["proto"] == 4) else max(fin[1], min(8 * len(exp), 16384))
    if rv_len != want_len:
        return "return value has %d bytes, expected %d" % (rv_len, want_len)
    if len(res["logs"]) != fin[2]:
        return "%d logs, expected %d" % (len(res["logs"]), fin[2])
    if any(len(l) // 2 > 512 for l in res["logs"]):
        return "a log of more than 512 bytes"
    return None


# ------------------------------------------------------------------------------------------------ HostV0 scripts
V0_STATE = bytes((7 * i + 3) % 251 for i in range(16384))


def compile_v0_script(s):
    calls, exp = [], []
    for op in s["ops"]:
        f, args, r = op["f"], op["args"], op["r"]
        if f in ("init", "finish"):
            continue
        if f == "log_burst":
            for _ in range(args[0]):
                calls.append(("log_event", [("i32", DATA), ("i32", 1)]))
                exp.append({"f": "log_event", "r": ["i", 1], "args": [DATA, 1]})
            continue
        if f == "simple_transfer":
            calls.append((f, [("i32", args[0]), ("i64", 5)]))
        else:
            sig = SIGS_V0[f][0]
            calls.append((f, [("i32" if t == I32 else "i64", a) for a, t in zip(args, sig)]))
        exp.append({"f": f, "r": r, "args": args})
    return calls, bytes(range(256)) * 4, exp


def check_v0_script(s, res, exp):
    if res["outcome"] == "panic":
        return "v0 host call script panicked: %s" % res.get("error")
    if res["outcome"] == "invalid_module":
        raise ToolError("generated v0 contract rejected: %s" % res.get("error"))
    terminal = exp[-1]["r"][0] if exp and exp[-1]["r"][0] in ("trap", "trap_or_ooe") else None
    # v0 reports traps as rejections with a reserved reason
    want = {"trap": ("reject",), "trap_or_ooe": ("reject", "out_of_energy"), None: ("success",)}[terminal]
    if res["outcome"] not in want:
        return "outcome %s, expected %s (last call %s%s)" % (res["outcome"], "/".join(want), exp[-1]["f"] if exp else "-", exp[-1].get("args") if exp else "")
    if res["outcome"] != "success":
        return None
    if res["state_len"] > 16384:
        return "legacy state of %d bytes" % res["state_len"]
    # the last log holds the result slots (at most 512 bytes of them)
    logs = res["logs"]
    n = min(len(exp), 64)
    last = s["ops"][-1]
    own_logs = last["r"][2] if last["f"] == "finish" else None
    slots_log = None
    if logs and (own_logs is None or len(logs) == own_logs + 1):
        slots_log = bytes.fromhex(logs[-1])
    if slots_log is not None and len(slots_log) == min(8 * len(exp), 512):
        for i in range(n):
            got = struct.unpack_from("<q", slots_log, 8 * i)[0]
            r = exp[i]["r"]
            if r[0] == "i" and got != r[1]:
                return "call %d %s%s returned %s, expected %s" % (i, exp[i]["f"], exp[i].get("args"), got, r[1])
    elif not (own_logs is not None and s["limited"] and own_logs >= 64):
        return "the log with the results is missing (%d logs)" % len(logs)
    if last["f"] != "finish":
        return None
    fin = last["r"]
    if res["state_len"] != fin[1]:
        return "state has %d bytes, expected %d" % (res["state_len"], fin[1])
    if res["n_actions"] != fin[3] + 1:
        return "%d actions, expected %d" % (res["n_actions"], fin[3] + 1)
    # contents: replay the writes and resizes on the initial state
    st = bytearray(V0_STATE[:s["ops"][0]["args"][0]])
    mem = bytearray(65536)
    mem[DATA:DATA + 1024] = bytes(range(256)) * 4
    for e in exp:
        if e["f"] == "write_state" and e["r"][0] == "i":
            p, l, o = e["args"]
            w = e["r"][1]
            if len(st) < o + w:
                st.extend(b"\x00" * (o + w - len(st)))
            st[o:o + w] = mem[p:p + w]
        elif e["f"] == "resize_state" and e["r"] == ["i", 1]:
            nsz = e["args"][0]
            st = st[:nsz] + bytearray(max(0, nsz - len(st)))
        elif e["f"] in ("load_state", "get_parameter_section") and e["r"][0] == "i":
            p, l, o = e["args"]
            src = st if e["f"] == "load_state" else PARAM[:s["pl"]]
            mem[p:p + e["r"][1]] = src[o:o + e["r"][1]]
    if res["state_v0"] != bytes(st).hex():
        return "state contents differ from the writes and resizes replayed on the initial state"
    return None


# ------------------------------------------------------------------------------------------------ state scripts
def compile_state_script(steps):
    """InstanceHandles.tla behaviour (without interrupts) -> host calls.  Keys and sources are placed in the data segment."""
    data = bytearray()
    def place(bs):
        off = DATA + len(data)
        data.extend(bytes(bs))
        return off
    calls, exp = [], []
    responses = []
    eslot, islot = {}, {}      # spec handle (gen, idx) -> slot that holds the real handle
    def handle(h, table):
        key = (h[0], h[1])
        if key in table:
            return ("slot", table[key])
        return ("i64", ((h[0] << 32) | h[1]) if h[0] < 2 ** 31 else GARBAGE)
    for st in steps:
        a = st["a"]
        i = len(calls)
        r = st["r"]
        if a in ("lookup", "create", "delete", "delprefix", "iterator"):
            f = {"lookup": "state_lookup_entry", "create": "state_create_entry", "delete": "state_delete_entry", "delprefix": "state_delete_prefix",
                 "iterator": "state_iterate_prefix"}[a]
            k = st["k"]
            calls.append((f, [("i32", place(k)), ("i32", len(k))]))
            exp.append({"a": a, "r": r})
            if r[0] == "some":
                (islot if a == "iterator" else eslot)[(r[1], r[2])] = i
        elif a == "iternext":
            calls.append(("state_iterator_next", [handle(st["h"], islot)]))
            exp.append({"a": a, "r": r})
            if r[0] == "some":
                eslot[(r[1], r[2])] = i
        elif a == "iterdelete":
            calls.append(("state_iterator_delete", [handle(st["h"], islot)]))
            exp.append({"a": a, "r": r})
        elif a == "iterkey":
            calls.append(("state_iterator_key_size", [handle(st["h"], islot)]))
            exp.append({"a": "iterkeysize", "r": r})
            calls.append(("state_iterator_key_read", [handle(st["h"], islot), ("i32", SCRATCH), ("i32", st["len"]), ("i32", st["off"])]))
            exp.append({"a": "iterkeyread", "r": r})
        elif a == "read":
            calls.append(("state_entry_size", [handle(st["h"], eslot)]))
            exp.append({"a": "size", "r": r})
            calls.append(("state_entry_read", [handle(st["h"], eslot), ("i32", SCRATCH), ("i32", st["len"]), ("i32", st["off"])]))
            exp.append({"a": "readn", "r": r})
        elif a == "write":
            src = st["src"]
            calls.append(("state_entry_write", [handle(st["h"], eslot), ("i32", place(src)), ("i32", len(src)), ("i32", st["off"])]))
            exp.append({"a": a, "r": r})
        elif a == "resize":
            calls.append(("state_entry_resize", [handle(st["h"], eslot), ("i32", st["n"])]))
            exp.append({"a": a, "r": r})
        elif a in ("resume_same", "resume_updated"):
            # the contract makes a transfer; the chain answers (after a re-entrant call that did or did not change this instance's state) and resumes it
            calls.append(("invoke", [("i32", 0), ("i32", place(bytes([5] * 32) + struct.pack("<Q", 1))), ("i32", 40)]))
            upd = a == "resume_updated"
            exp.append({"a": a, "r": ["i", -(1 << 63) if upd else 0]})
            responses.append({"kind": "success", "state_updated": upd, "ops": st["ops"] if upd else st["scratch"], "new_balance": 4241})
        else:
            return None
    return calls, bytes(data), exp, responses


ERR = u(-1, 64) & ~(1 << 62)


def check_state_script(steps, res, exp):
    if res["outcome"] == "panic":
        return "state script panicked: %s" % res.get("error")
    if res["outcome"] == "invalid_module":
        raise ToolError("generated contract rejected: %s" % res.get("error"))
    if res["outcome"] != "success":
        return "outcome %s on a script of well-formed state calls (%s)" % (res["outcome"], res.get("error"))
    slots = decode_slots(res["rv"], len(exp))
    seen = {}
    for i, (e, got) in enumerate(zip(exp, slots)):
        r, a = e["r"], e["a"]
        gu = u(got, 64)
        if a in ("lookup", "create", "iterator", "iternext"):
            kind = "none" if gu == u(-1, 64) else "err" if gu == ERR else "some"
            if kind != r[0]:
                return "call %d (%s) returned %s, expected %s" % (i, a, kind, r[0])
            if kind == "some":
                # entry handles and iterator handles are separate name spaces
                key = (a == "iterator", r[1], r[2])
                if (a == "iterator", gu) in seen and seen[(a == "iterator", gu)] != key:
                    return "call %d (%s): handle value %#x was already issued for another handle" % (i, a, gu)
                seen[(a == "iterator", gu)] = key
        elif a in ("delete", "delprefix", "iterdelete", "write", "resize", "resume_same", "resume_updated"):
            want = -1 if r[0] == "max" else r[1] if r[0] == "i" else r[0]
            if got != want:
                return "call %d (%s) returned %s, expected %s" % (i, a, got, want)
        elif a in ("size", "iterkeysize"):
            if r[0] == "any":
                continue
            want = -1 if r[0] == "max" else r[0]
            if got != want:
                return "call %d (%s) returned %s, expected %s" % (i, a, got, want)
        elif a in ("readn", "iterkeyread"):
            if r[0] == "any":
                continue
            want = -1 if r[0] == "max" else r[1]
            if got != want:
                return "call %d (%s) returned %s, expected %s" % (i, a, got, want)
    final = steps[-1]["m"]
    got_state = [[list(k), list(v)] for k, v in res["state"]]
    want_state = [[list(k), list(v)] for k, v in final]
    if got_state != want_state:
        return "resulting state %s, expected %s" % (json.dumps(got_state)[:200], json.dumps(want_state)[:200])
    return None


# ------------------------------------------------------------------------------------------------ driver
def run_scripts(ctx, recs, name):
    """recs: list of harness inputs; runs them in parallel chunks, returns results in order."""
    n = max(1, min(12, len(recs) // 200 or 1))
    chunks = [recs[i::n] for i in range(n)]
    def one(iv):
        i, part = iv
        inp = os.path.join(ctx.work, "%s_%d.ndjson" % (name, i))
        outp = os.path.join(ctx.work, "%s_%d.res" % (name, i))
        write_ndjson(inp, part)
        ctx.harness("engine", ["host-run", inp, outp], timeout=3000)
        return read_ndjson(outp)
    with ThreadPoolExecutor(max_workers=n) as ex:
        outs = list(ex.map(one, enumerate(chunks)))
    res = [None] * len(recs)
    for i, part in enumerate(outs):
        for j, r in enumerate(part):
            res[i + j * n] = r
    return res


def v1_record(s, calls, data, energy=1 << 50):
    init = s.get("entry") == "init"
    wasm = build_contract(calls, SIGS_V1, data=data, data_at=CALL_AT if any(o["f"] == "invoke_call" for o in s["ops"]) else None,
                          export="init_contract" if init else "contract.entry")
    return {"version": 1, "wasm": wasm.hex(), "param": PARAM[:s["pl"]].hex(), "energy": energy, "proto": s["proto"], "entry": "init" if init else "receive"}


def run_c14(ctx):
    quick = ctx.tier == "quick"
    SPEC = "host"
    ctx.tlc(SPEC, "HostV1.tla", "HostV1_exh.cfg", workers=8, timeout=3000)
    ed = ctx.tlc(SPEC, "HostV1.tla", "HostV1_edges.cfg", workers=8, timeout=3000)
    scripts = [json.loads(x) for x in ed.replays]
    sims = ctx.tlc_parallel_sim(SPEC, "HostV1.tla", "HostV1_sim.cfg", "hostv1_sim", 6000 if quick else 60000, 9, procs=6)
    for r in sims:
        scripts += [json.loads(x) for x in r.replays]
    if quick:
        scripts = [s for i, s in enumerate(scripts) if len(s["ops"]) > 2 or i % 3 == 0]
    compiled = []
    recs = []
    for s in scripts:
        calls, data, exp = compile_v1_script(s)
        compiled.append((s, calls, exp))
        recs.append(v1_record(s, calls, data))
    results = run_scripts(ctx, recs, "v1")
    hist = {}
    for (s, calls, exp), res in zip(compiled, results):
        ctx.note_case(s)
        ctx.traces += 1
        for e in exp:
            key = "%s:%s" % (e["f"], e["r"][0])
            hist[key] = hist.get(key, 0) + 1
        hist["outcome:" + res["outcome"]] = hist.get("outcome:" + res["outcome"], 0) + 1
        hist["entry:" + s.get("entry", "receive")] = hist.get("entry:" + s.get("entry", "receive"), 0) + 1
        bad = check_v1_script(ctx, s, res, exp, calls)
        if bad:
            ctx.violation("v1 host script (P%d, parameter %d bytes): %s" % (s["proto"], s["pl"], bad), {"kind": "v1_script", "script": s, "result": res})
    # reduced budgets: the outcome is out-of-energy or the same as with ample energy, never a panic
    ladder = []
    for (s, calls, exp), res in list(zip(compiled, results))[:: (7 if quick else 2)]:
        if res["outcome"] in ("success", "trap", "interrupt") and "remaining" in res:
            used = (1 << 50) - res["remaining"]
            for b in sorted({0, used // 2, max(0, used - 1), used}):
                rec = v1_record(s, calls, compile_v1_script(s)[1], energy=b)
                ladder.append((s, b, used, res["outcome"], rec))
    lres = run_scripts(ctx, [x[4] for x in ladder], "v1_budget")
    for (s, b, used, full, _), r in zip(ladder, lres):
        ctx.evaluations += 1
        ok = r["outcome"] == "out_of_energy" if b < used else r["outcome"] == full
        if r["outcome"] == "panic" or not ok:
            ctx.violation("v1 host script with budget %d (uses %d with ample energy): outcome %s, ample-energy outcome %s" % (b, used, r["outcome"], full),
                          {"kind": "v1_script_budget", "script": s, "budget": b, "result": r})
    hist["budget_runs"] = len(ladder)
    # legacy contracts
    ctx.tlc(SPEC, "HostV0.tla", "HostV0_exh.cfg", workers=8, timeout=3000)
    e0 = ctx.tlc(SPEC, "HostV0.tla", "HostV0_edges.cfg", workers=8, timeout=3000)
    s0 = [json.loads(x) for x in e0.replays]
    for r in ctx.tlc_parallel_sim(SPEC, "HostV0.tla", "HostV0_sim.cfg", "hostv0_sim", 4000 if quick else 40000, 10, procs=4):
        s0 += [json.loads(x) for x in r.replays]
    comp0, recs0 = [], []
    for sc in s0:
        calls, data, exp = compile_v0_script(sc)
        comp0.append((sc, exp))
        recs0.append({"version": 0, "wasm": build_contract(calls, SIGS_V0, data=data, v0=True).hex(), "param": PARAM[:sc["pl"]].hex(), "energy": 1 << 50,
                      "proto": 4 if sc["limited"] else 7, "init_state_v0": V0_STATE[:sc["ops"][0]["args"][0]].hex()})
    res0 = run_scripts(ctx, recs0, "v0")
    for (sc, exp), res in zip(comp0, res0):
        ctx.note_case(sc)
        ctx.traces += 1
        for e in exp:
            key = "v0:%s:%s" % (e["f"], e["r"][0])
            hist[key] = hist.get(key, 0) + 1
        hist["v0_outcome:" + res["outcome"]] = hist.get("v0_outcome:" + res["outcome"], 0) + 1
        bad = check_v0_script(sc, res, exp)
        if bad:
            ctx.violation("v0 host script (%s, parameter %d bytes): %s" % ("limited" if sc["limited"] else "unlimited", sc["pl"], bad), {"kind": "v0_script", "script": sc, "result": res})
    # state scripts from InstanceHandles.tla compiled to host calls
    st = ctx.tlc("trie", "MC_InstanceHandles.tla", "InstanceHandles_edges.cfg", workers=8, timeout=3000)
    behs = [json.loads(x) for x in st.replays]
    if not quick:
        for r in ctx.tlc_parallel_sim("trie", "MC_InstanceHandles.tla", "InstanceHandles_sim.cfg", "ih_sim", 6000, 30, procs=6):
            behs += [json.loads(x) for x in r.replays]
    comp2, recs2 = [], []
    for steps in behs:
        c = compile_state_script(steps)
        if c is None or not c[0]:
            continue
        calls, data, exp, responses = c
        comp2.append((steps, exp))
        recs2.append({"version": 1, "wasm": build_contract(calls, SIGS_V1, data=data).hex(), "param": "", "energy": 1 << 50, "proto": 7, "responses": responses})
    res2 = run_scripts(ctx, recs2, "state")
    for (steps, exp), res in zip(comp2, res2):
        ctx.note_case(steps)
        ctx.traces += 1
        for e in exp:
            hist["state:" + e["a"]] = hist.get("state:" + e["a"], 0) + 1
        bad = check_state_script(steps, res, exp)
        if bad:
            ctx.violation("state host-call script: %s" % bad, {"kind": "state_script", "steps": steps, "result": res})
    hist["state_scripts"] = len(comp2)
    ctx.extra["histogram"] = hist
    ctx.exhaustive = True
    return scripts, compiled, hist


def run(ctx):
    ctx.build("engine")
    if ctx.prop != "C14":
        raise ToolError("no check for %s" % ctx.prop)
    scripts, compiled, hist = run_c14(ctx)
    need = {"outcome:success": 500, "outcome:trap": 500, "outcome:interrupt": 50, "write_output:i": 100, "log_event:i": 200, "get_parameter_section:i": 200,
            "invoke:trap": 50, "entry:init": 500, "entry:receive": 500, "get_init_origin:void": 5, "state:resume_same": 50, "state:resume_updated": 50, "v0_outcome:success": 500, "v0_outcome:reject": 500, "v0:write_state:i": 200, "v0:resize_state:i": 100, "v0:combine_and:i": 5, "state_scripts": 300, "state:write": 50, "state:iternext": 50, "budget_runs": 300}
    for k, v in need.items():
        if hist.get(k, 0) < v:
            raise ToolError("vacuous C14 run: %s = %s (< %s)" % (k, hist.get(k, 0), v))
    # canary: an altered expectation must be flagged
    s, calls, exp = next(c for c in compiled if c[2] and c[2][0]["r"][0] == "i" and c[0]["ops"][-1]["f"] == "finish")
    exp2 = json.loads(json.dumps(exp))
    exp2[0]["r"][1] += 1
    res = run_scripts(ctx, [v1_record(s, calls, compile_v1_script(s)[1])], "canary")[0]
    if check_v1_script(ctx, s, res, exp2, calls) is None or check_v1_script(ctx, s, res, exp, calls) is not None:
        raise ToolError("canary: altered expected return code not flagged")
    ctx.extra["canary"] = "altered expected return code flagged"
    ctx.rule = ("HostV1.tla: every host call of the alphabet with every boundary class of pointer / length / offset / tag in every protocol parameter set and parameter size (one script per "
                "transition of the one-call graph), random scripts of up to 7 calls with windows in memory, each also run under reduced energy budgets; InstanceHandles.tla behaviours "
                "(entries, iterators, locks) compiled to host calls; every script is a Wasm contract run through v1::invoke_receive with metering; distinct = distinct scripts")
    ctx.assumptions += ["signature verification host functions, upgrade, policies and init-only functions are not in the alphabet; v0 contracts are covered by HostV0.tla when present",
                        "out-of-window calls whose charge depends on the claimed length may end in out-of-energy instead of a trap (both are allowed outcomes)"]


def replay(prop, path, seed):
    with open(path) as f:
        rp = json.load(f)["replay"]
    ctx = vlib.Ctx(prop + "_replay", "quick", seed)
    ctx.prop = prop
    ctx.build("engine")
    if rp["kind"] in ("v1_script", "v1_script_budget"):
        s = rp["script"]
        calls, data, exp = compile_v1_script(s)
        res = run_scripts(ctx, [v1_record(s, calls, data, energy=rp.get("budget", 1 << 50))], "replay")[0]
        bad = check_v1_script(ctx, s, res, exp, calls) if rp["kind"] == "v1_script" else (None if res["outcome"] in ("out_of_energy", rp["result"].get("outcome")) and res["outcome"] != "panic" else "outcome %s" % res["outcome"])
    elif rp["kind"] == "v0_script":
        sc = rp["script"]
        calls, data, exp = compile_v0_script(sc)
        res = run_scripts(ctx, [{"version": 0, "wasm": build_contract(calls, SIGS_V0, data=data, v0=True).hex(), "param": PARAM[:sc["pl"]].hex(), "energy": 1 << 50,
                                 "proto": 4 if sc["limited"] else 7, "init_state_v0": V0_STATE[:sc["ops"][0]["args"][0]].hex()}], "replay")[0]
        bad = check_v0_script(sc, res, exp)
    else:
        calls, data, exp, responses = compile_state_script(rp["steps"])
        res = run_scripts(ctx, [{"version": 1, "wasm": build_contract(calls, SIGS_V1, data=data).hex(), "param": "", "energy": 1 << 50, "proto": 7, "responses": responses}], "replay")[0]
        bad = check_state_script(rp["steps"], res, exp)
    print("replayed 1 script: %s" % ("VIOLATION reproduced: %s" % bad if bad else "no disagreement"))
    return 1 if bad else 0
