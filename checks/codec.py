"""Checks of the codec family: C05 (on-chain wire formats), later C16, C17, C10.
Specs: spec/codec/*.tla; harness: harness/base."""
import json
import os
import resource
import subprocess

import vlib
from vlib import ToolError, replay_behaviours, write_ndjson, read_ndjson

SPEC = "codec"
ALLOC_CONST = 1 << 20     # protocol-bounded allocations (largest: a Wasm module of 512 KiB) fit below this
ALLOC_PER_BYTE = 64


def term_bytes(term):
    out = b""
    for p in term:
        k = p[0]
        if k == "b":
            out += bytes(p[1])
        elif k == "r":
            out += bytes([p[1]]) * p[2]
        elif k == "u64":
            out += ((p[1] << 32) | p[2]).to_bytes(8, "big")
        elif k == "u32":
            out += p[1].to_bytes(4, "big")
        elif k == "u16":
            out += p[1].to_bytes(2, "big")
        else:
            raise ToolError("bad term part %r" % (p,))
    return out


def alloc_probe(ctx, ty, data, limit_gb=4):
    """Decode one input in a process of its own under an address-space limit; returns (status, info)."""
    exe = os.path.join(vlib.VERIF, "harness", "base", "target", "release", "vh-base")
    def lim():
        resource.setrlimit(resource.RLIMIT_AS, (limit_gb << 30, limit_gb << 30))
    try:
        p = subprocess.run([exe, "wire-replay", "--alloc", ty, data.hex()], capture_output=True, text=True, timeout=120, preexec_fn=lim)
    except subprocess.TimeoutExpired:
        return "timeout", {}
    if p.returncode != 0:
        return "died", {"returncode": p.returncode, "stderr": p.stderr.strip().splitlines()[:2]}
    try:
        return "ok", json.loads(p.stdout.strip().splitlines()[-1])
    except Exception:
        return "died", {"returncode": p.returncode, "stdout": p.stdout[:200]}


def run_c05(ctx):
    quick = ctx.tier == "quick"
    r = ctx.tlc(SPEC, "Wire.tla", "Wire.cfg", workers=4, timeout=900)
    ctx.exhaustive = True
    vecs = [json.loads(s) for s in r.replays]
    if len(vecs) < 100:
        raise ToolError("too few wire vectors")
    spec_vecs = []
    hostile = []
    derived = []
    for v in vecs:
        if v["class"] == "hostile length":
            hostile.append(v)
            continue
        spec_vecs.append(v)
        if v["expect"] == "accept":
            data = term_bytes(v["bytes"])
            n = len(data)
            # every proper prefix of a canonical encoding is rejected (prefix-freeness) ...
            cuts = sorted(set(list(range(0, min(n, 24))) + list(range(max(0, n - 8), n)) + [n // 2, n // 3]))
            for c in cuts:
                if c < n:
                    derived.append({"ty": v["ty"], "bytes": [["b", list(data[:c])]], "expect": "reject", "class": "proper prefix (%d of %d bytes)" % (c, n), "fields": {}})
            # ... trailing bytes are left unconsumed ...
            derived.append({"ty": v["ty"], "bytes": [["b", list(data + b"\xab\xcd\xef")]], "expect": "accept", "class": "trailing bytes", "fields": v["fields"], "consumed": n})
            # ... and whatever a bit flip turns it into is either rejected or the only encoding of what it decodes to
            step = max(1, (8 * n) // (64 if quick else 512))
            for bit in range(0, 8 * n, step):
                m = bytearray(data)
                m[bit // 8] ^= 1 << (bit % 8)
                derived.append({"ty": v["ty"], "bytes": [["b", list(m)]], "expect": "any", "class": "bit flip", "fields": {}})
    summary = {"by_action": {}}
    by_ty = {}
    for v in spec_vecs + derived:
        by_ty.setdefault(v["ty"], []).append(v)
    for ty, vs in sorted(by_ty.items()):
        try:
            sm, bad = replay_behaviours(ctx, "base", "wire-replay", [json.dumps(v) for v in vs], "wire_" + ty)
            for k, n in sm["by_action"].items():
                summary["by_action"][k] = summary["by_action"].get(k, 0) + n
        except ToolError as e:
            # the decoder killed the batch process (allocation failure aborts): find the inputs one by one
            ctx.extra.setdefault("batches_killed", []).append(ty)
            killers = 0
            for v in vs:
                data = term_bytes(v["bytes"])
                st, info = alloc_probe(ctx, ty, data)
                ctx.note_case(v)
                if st != "ok":
                    killers += 1
                    ctx.violation("%s: decoding %d bytes (class %s) killed the process (%s %s)" % (ty, len(data), v["class"], st, json.dumps(info)[:160]),
                                  {"kind": "alloc", "ty": ty, "hex": data.hex(), "outcome": st, "info": info}, signature="alloc:%s" % ty)
                elif info["peak"] > ALLOC_CONST + ALLOC_PER_BYTE * len(data):
                    ctx.violation("%s: decoding %d bytes allocated %d bytes" % (ty, len(data), info["peak"]),
                                  {"kind": "alloc", "ty": ty, "hex": data.hex(), "info": info}, signature="alloc:%s" % ty)
            if killers == 0:
                raise
    ctx.extra["vector_histogram"] = summary["by_action"]
    ctx.extra["spec_vectors"] = len(spec_vecs)
    ctx.extra["derived_vectors"] = len(derived)
    # hostile lengths: one process each, under an address-space limit
    nh = 0
    for v in hostile:
        data = term_bytes(v["bytes"])
        st, info = alloc_probe(ctx, v["ty"], data)
        nh += 1
        ctx.note_case({"hostile": v["ty"], "hex": data.hex()})
        bound = ALLOC_CONST + ALLOC_PER_BYTE * len(data)
        if st != "ok":
            ctx.violation("%s: decoding %d bytes with a hostile length field killed the process (%s %s)" % (v["ty"], len(data), st, json.dumps(info)[:200]),
                          {"kind": "alloc", "ty": v["ty"], "hex": data.hex(), "outcome": st, "info": info}, signature="alloc:%s" % v["ty"])
        elif info["accepted"]:
            ctx.violation("%s: input with a length field larger than the content was accepted" % v["ty"], {"kind": "alloc", "ty": v["ty"], "hex": data.hex()})
        elif info["peak"] > bound:
            ctx.violation("%s: decoding %d bytes allocated %d bytes (bound %d): the declared length is trusted" % (v["ty"], len(data), info["peak"], bound),
                          {"kind": "alloc", "ty": v["ty"], "hex": data.hex(), "info": info}, signature="alloc:%s" % v["ty"])
    ctx.traces += nh
    ctx.evaluations += nh
    ctx.extra["hostile_length_vectors"] = nh
    need = [k for k in ("Payload:reject", "Payload:accept", "TransactionSignature:reject", "TransactionHeaderV1:reject", "CredentialPublicKeys:reject") if summary["by_action"].get(k, 0) == 0]
    if need or nh < 5:
        raise ToolError("vacuous run: %s" % need)
    # canary: a canonical vector with one byte of the expected field changed must be flagged
    v = next(x for x in spec_vecs if x["ty"] == "TransactionHeader" and x["expect"] == "accept" and x["fields"])
    v = json.loads(json.dumps(v))
    v["fields"]["nonce"] = v["fields"]["nonce"] + 1
    inp = os.path.join(ctx.work, "canary.ndjson")
    outp = os.path.join(ctx.work, "canary.res")
    write_ndjson(inp, [v])
    ctx.harness("base", ["wire-replay", inp, outp])
    if not [x for x in read_ndjson(outp) if not x.get("summary")]:
        raise ToolError("canary: altered field expectation not flagged")
    ctx.extra["canary"] = "altered decoded-field expectation flagged"
    ctx.samples = [{"kind": "wire vector", "vector": spec_vecs[0]}, {"kind": "near miss", "vector": next(x for x in spec_vecs if x["expect"] == "reject")}]
    ctx.assumptions += [
        "only the composites specified in Wire.tla have an independent byte-exact grammar (header v0/v1, signatures, six payload kinds, credential keys, update access structure, exchange rate, amount fraction, protocol update, Wasm module framing, account transaction / block item framing)",
        "allocation bound: peak heap during one decode <= 1 MiB + 64 x input length (1 MiB covers protocol-bounded allocations such as a 512 KiB module)",
        "'all byte strings' is sampled by the mutation closure of the grammar (prefixes, trailing bytes, bit flips, hostile lengths), not enumerated",
    ]
    ctx.rule = ("vectors of Wire.tla (canonical encodings with decoded-field expectations; near misses: unordered/duplicate map keys, undefined bitmap bits and tags, counts and "
                "lengths larger than the content) plus, derived from every canonical vector, all short proper prefixes (reject), trailing bytes (accept, same consumption), bit flips "
                "(accept => re-encodes to the consumed bytes); hostile-length vectors are decoded one per process under an address-space limit. distinct = distinct (type, bytes)")


def run(ctx):
    ctx.build("base")
    if ctx.prop == "C05":
        return run_c05(ctx)
    raise ToolError("no check for %s" % ctx.prop)


def replay(prop, path, seed):
    with open(path) as f:
        rp = json.load(f)["replay"]
    ctx = vlib.Ctx(prop + "_replay", "quick", seed)
    ctx.prop = prop
    ctx.build("base")
    if rp["kind"] == "behaviour":
        summary, bad = replay_behaviours(ctx, "base", rp["subcmd"], [json.dumps(rp["behaviour"])], "replay")
        print("replayed 1 vector: %s" % ("VIOLATION reproduced" if bad else "no disagreement"))
        return 1 if bad else 0
    if rp["kind"] == "alloc":
        st, info = alloc_probe(ctx, rp["ty"], bytes.fromhex(rp["hex"]))
        print("alloc probe: %s %s" % (st, info))
        return 0 if (st == "ok" and not info.get("accepted") and info.get("peak", 0) <= ALLOC_CONST + ALLOC_PER_BYTE * len(rp["hex"]) // 2) else 1
    return 2
