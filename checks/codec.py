"""Checks of the codec family: C05 (on-chain wire formats), later C16, C17, C10.
Specs: spec/codec/*.tla; harness: harness/base."""
import json
import os
import resource
import subprocess

import vlib
from vlib import ToolError, replay_behaviours, write_ndjson, read_ndjson

SPEC = "codec"
ALLOC_CONST = 1 << 20     # protocol-bounded allocations (largest: a Wasm module of 512 KiB) fit below this
ALLOC_PER_BYTE = 64


def term_bytes(term):
    out = b""
    for p in term:
        k = p[0]
        if k == "b":
            out += bytes(p[1])
        elif k == "r":
            out += bytes([p[1]]) * p[2]
        elif k == "u64":
            out += ((p[1] << 32) | p[2]).to_bytes(8, "big")
        elif k == "u32":
            out += p[1].to_bytes(4, "big")
        elif k == "u16":
            out += p[1].to_bytes(2, "big")
        else:
            raise ToolError("bad term part %r" % (p,))
    return out


def alloc_probe(ctx, ty, data, limit_gb=4):
    """Decode one input in a process of its own under an address-space limit; returns (status, info)."""
    exe = os.path.join(vlib.VERIF, "harness", "base", "target", "release", "vh-base")
    def lim():
        resource.setrlimit(resource.RLIMIT_AS, (limit_gb << 30, limit_gb << 30))
    try:
        p = subprocess.run([exe, "wire-replay", "--alloc", ty, data.hex()], capture_output=True, text=True, timeout=120, preexec_fn=lim)
    except subprocess.TimeoutExpired:
        return "timeout", {}
    if p.returncode != 0:
        return "died", {"returncode": p.returncode, "stderr": p.stderr.strip().splitlines()[:2]}
    try:
        return "ok", json.loads(p.stdout.strip().splitlines()[-1])
    except Exception:
        return "died", {"returncode": p.returncode, "stdout": p.stdout[:200]}


def run_c05(ctx):
    quick = ctx.tier == "quick"
    r = ctx.tlc(SPEC, "Wire.tla", "Wire.cfg", workers=4, timeout=900)
    ctx.exhaustive = True
    vecs = [json.loads(s) for s in r.replays]
    if len(vecs) < 100:
        raise ToolError("too few wire vectors")
    spec_vecs = []
    hostile = []
    derived = []
    for v in vecs:
        if v["class"] == "hostile length":
            hostile.append(v)
            continue
        spec_vecs.append(v)
        if v["expect"] == "accept":
            data = term_bytes(v["bytes"])
            n = len(data)
            # every proper prefix of a canonical encoding is rejected (prefix-freeness) ...
            cuts = sorted(set(list(range(0, min(n, 24))) + list(range(max(0, n - 8), n)) + [n // 2, n // 3]))
            for c in cuts:
                if c < n:
                    derived.append({"ty": v["ty"], "bytes": [["b", list(data[:c])]], "expect": "reject", "class": "proper prefix (%d of %d bytes)" % (c, n), "fields": {}})
            # ... trailing bytes are left unconsumed ...
            derived.append({"ty": v["ty"], "bytes": [["b", list(data + b"\xab\xcd\xef")]], "expect": "accept", "class": "trailing bytes", "fields": v["fields"], "consumed": n})
            # ... and whatever a bit flip turns it into is either rejected or the only encoding of what it decodes to
            step = max(1, (8 * n) // (64 if quick else 512))
            for bit in range(0, 8 * n, step):
                m = bytearray(data)
                m[bit // 8] ^= 1 << (bit % 8)
                derived.append({"ty": v["ty"], "bytes": [["b", list(m)]], "expect": "any", "class": "bit flip", "fields": {}})
    summary = {"by_action": {}}
    by_ty = {}
    for v in spec_vecs + derived:
        by_ty.setdefault(v["ty"], []).append(v)
    for ty, vs in sorted(by_ty.items()):
        try:
            sm, bad = replay_behaviours(ctx, "base", "wire-replay", [json.dumps(v) for v in vs], "wire_" + ty)
            for k, n in sm["by_action"].items():
                summary["by_action"][k] = summary["by_action"].get(k, 0) + n
        except ToolError as e:
            # the decoder killed the batch process (allocation failure aborts): find the inputs one by one
            ctx.extra.setdefault("batches_killed", []).append(ty)
            killers = 0
            for v in vs:
                data = term_bytes(v["bytes"])
                st, info = alloc_probe(ctx, ty, data)
                ctx.note_case(v)
                if st != "ok":
                    killers += 1
                    ctx.violation("%s: decoding %d bytes (class %s) killed the process (%s %s)" % (ty, len(data), v["class"], st, json.dumps(info)[:160]),
                                  {"kind": "alloc", "ty": ty, "hex": data.hex(), "outcome": st, "info": info}, signature="alloc:%s" % ty)
                elif info["peak"] > ALLOC_CONST + ALLOC_PER_BYTE * len(data):
                    ctx.violation("%s: decoding %d bytes allocated %d bytes" % (ty, len(data), info["peak"]),
                                  {"kind": "alloc", "ty": ty, "hex": data.hex(), "info": info}, signature="alloc:%s" % ty)
            if killers == 0:
                raise
    ctx.extra["vector_histogram"] = summary["by_action"]
    ctx.extra["spec_vectors"] = len(spec_vecs)
    ctx.extra["derived_vectors"] = len(derived)
    # hostile lengths: one process each, under an address-space limit
    nh = 0
    for v in hostile:
        data = term_bytes(v["bytes"])
        st, info = alloc_probe(ctx, v["ty"], data)
        nh += 1
        ctx.note_case({"hostile": v["ty"], "hex": data.hex()})
        bound = ALLOC_CONST + ALLOC_PER_BYTE * len(data)
        if st != "ok":
            ctx.violation("%s: decoding %d bytes with a hostile length field killed the process (%s %s)" % (v["ty"], len(data), st, json.dumps(info)[:200]),
                          {"kind": "alloc", "ty": v["ty"], "hex": data.hex(), "outcome": st, "info": info}, signature="alloc:%s" % v["ty"])
        elif info["accepted"]:
            ctx.violation("%s: input with a length field larger than the content was accepted" % v["ty"], {"kind": "alloc", "ty": v["ty"], "hex": data.hex()})
        elif info["peak"] > bound:
            ctx.violation("%s: decoding %d bytes allocated %d bytes (bound %d): the declared length is trusted" % (v["ty"], len(data), info["peak"], bound),
                          {"kind": "alloc", "ty": v["ty"], "hex": data.hex(), "info": info}, signature="alloc:%s" % v["ty"])
    ctx.traces += nh
    ctx.evaluations += nh
    ctx.extra["hostile_length_vectors"] = nh
    need = [k for k in ("Payload:reject", "Payload:accept", "TransactionSignature:reject", "TransactionHeaderV1:reject", "CredentialPublicKeys:reject") if summary["by_action"].get(k, 0) == 0]
    if need or nh < 5:
        raise ToolError("vacuous run: %s" % need)
    # canary: a canonical vector with one byte of the expected field changed must be flagged
    v = next(x for x in spec_vecs if x["ty"] == "TransactionHeader" and x["expect"] == "accept" and x["fields"])
    v = json.loads(json.dumps(v))
    v["fields"]["nonce"] = v["fields"]["nonce"] + 1
    inp = os.path.join(ctx.work, "canary.ndjson")
    outp = os.path.join(ctx.work, "canary.res")
    write_ndjson(inp, [v])
    ctx.harness("base", ["wire-replay", inp, outp])
    if not [x for x in read_ndjson(outp) if not x.get("summary")]:
        raise ToolError("canary: altered field expectation not flagged")
    ctx.extra["canary"] = "altered decoded-field expectation flagged"
    ctx.samples = [{"kind": "wire vector", "vector": spec_vecs[0]}, {"kind": "near miss", "vector": next(x for x in spec_vecs if x["expect"] == "reject")}]
    ctx.assumptions += [
        "only the composites specified in Wire.tla have an independent byte-exact grammar (header v0/v1, signatures, six payload kinds, credential keys, update access structure, exchange rate, amount fraction, protocol update, Wasm module framing, account transaction / block item framing)",
        "allocation bound: peak heap during one decode <= 1 MiB + 64 x input length (1 MiB covers protocol-bounded allocations such as a 512 KiB module)",
        "'all byte strings' is sampled by the mutation closure of the grammar (prefixes, trailing bytes, bit flips, hostile lengths), not enumerated",
    ]
    ctx.rule = ("vectors of Wire.tla (canonical encodings with decoded-field expectations; near misses: unordered/duplicate map keys, undefined bitmap bits and tags, counts and "
                "lengths larger than the content) plus, derived from every canonical vector, all short proper prefixes (reject), trailing bytes (accept, same consumption), bit flips "
                "(accept => re-encodes to the consumed bytes); hostile-length vectors are decoded one per process under an address-space limit. distinct = distinct (type, bytes)")


def le_term_bytes(term):
    out = b""
    for p in term:
        k = p[0]
        if k == "b":
            out += bytes(p[1])
        elif k == "r":
            out += bytes([p[1]]) * p[2]
        elif k == "le64":
            out += ((p[1] << 32) | p[2]).to_bytes(8, "little")
        elif k == "le32":
            out += p[1].to_bytes(4, "little")
        elif k == "le16":
            out += p[1].to_bytes(2, "little")
        else:
            raise ToolError("bad term part %r" % (p,))
    return out


def run_c16(ctx):
    quick = ctx.tier == "quick"
    # binary forms
    r = ctx.tlc(SPEC, "ContractsCommon.tla", "ContractsCommon.cfg", workers=4, timeout=900)
    vecs = [json.loads(s) for s in r.replays]
    derived = []
    for v in vecs:
        if v["expect"] == "accept":
            data = le_term_bytes(v["bytes"])
            n = len(data)
            for c in sorted(set(list(range(0, min(n, 16))) + list(range(max(0, n - 4), n)))):
                if c < n:
                    derived.append({"ty": v["ty"], "bytes": [["b", list(data[:c])]], "expect": "reject", "class": "proper prefix (%d of %d bytes)" % (c, n), "json": 0})
            derived.append({"ty": v["ty"], "bytes": [["b", list(data + b"\xab\xcd")]], "expect": "accept", "class": "trailing bytes", "json": v["json"], "consumed": n})
            step = max(1, (8 * n) // (48 if quick else 512))
            for bit in range(0, 8 * n, step):
                m = bytearray(data)
                m[bit // 8] ^= 1 << (bit % 8)
                derived.append({"ty": v["ty"], "bytes": [["b", list(m)]], "expect": "any", "class": "bit flip", "json": 0})
    s1, _ = replay_behaviours(ctx, "base", "cc-replay", [json.dumps(v) for v in vecs + derived], "cc")
    # text forms, validators, checked arithmetic
    r = ctx.tlc(SPEC, "TextForms.tla", "TextForms.cfg", workers=4, timeout=900)
    ctx.exhaustive = True
    s2, _ = replay_behaviours(ctx, "base", "text-replay", r.replays, "text")
    ctx.extra["binary_vector_histogram"] = s1["by_action"]
    ctx.extra["text_vector_histogram"] = s2["by_action"]
    h = s2["by_action"]
    if h.get("amount", 0) < 1000 or h.get("contract_name:true", 0) < 5 or h.get("receive_name:false", 0) < 50 or h.get("timestamp", 0) < 50 or h.get("checked_add", 0) < 30:
        raise ToolError("vacuous text run: %s" % h)
    if s1["by_action"].get("SetU8Ordered:reject", 0) < 2 or s1["by_action"].get("bool:reject", 0) < 1:
        raise ToolError("vacuous binary run")
    # canary
    t = json.loads(next(x for x in r.replays if '"amount"' in x and '"ok":true' in x))
    t["micro"] = (t["micro"] + 1) % 1000000
    inp = os.path.join(ctx.work, "canary.ndjson")
    outp = os.path.join(ctx.work, "canary.res")
    write_ndjson(inp, [t])
    ctx.harness("base", ["text-replay", inp, outp])
    if not [x for x in read_ndjson(outp) if not x.get("summary")]:
        raise ToolError("canary: altered amount value not flagged")
    ctx.extra["canary"] = "altered expected amount value flagged"
    ctx.samples = [{"kind": "binary vector", "vector": vecs[0]}, {"kind": "text vector", "vector": json.loads(r.replays[len(r.replays) // 2])}]
    ctx.assumptions += [
        "duration strings whose components overflow u64 are outside the claim (DESIGN O4); account addresses (base58) are opaque",
        "the default BTreeSet/BTreeMap readers are documented to reject duplicates only; order is required only from the order-checking readers (deserial_set_no_length / deserial_map_no_length)",
        "allocation bound for the contract-side decoders: 64 KiB + 64 x input length",
    ]
    ctx.rule = ("binary: ContractsCommon.tla vectors (canonical encodings with decoded values; undefined tags, duplicates, unordered input, invalid UTF-8, invalid names, zero rates, hostile lengths) "
                "plus prefixes, trailing bytes and bit flips derived from every canonical vector; text: every string over {0,1,9,.,a} up to length 5 classified by the Amount grammar with its value, "
                "name validators on 16 bodies x 13 paddings around the 100-byte limit, timestamps at calendar boundaries (RFC 3339 <-> ms, offsets, year 9999/10000, 2^63, u64::MAX), "
                "durations, contract addresses, checked add/sub/duration_since on symbolic u64 values. distinct = distinct vectors")


def cbor_term_bytes(term):
    out = b""
    for p in term:
        k = p[0]
        if k == "b":
            out += bytes(p[1])
        elif k == "r":
            out += bytes([p[1]]) * p[2]
        elif k == "be":
            lo = p[3] if p[3] >= 0 else (1 << 32) + p[3]
            out += ((p[2] << 32) | lo).to_bytes(8, "big")[8 - p[1]:]
        else:
            raise ToolError("bad term part %r" % (p,))
    return out


def run_c17(ctx):
    quick = ctx.tier == "quick"
    r = ctx.tlc(SPEC, "Cbor.tla", "Cbor.cfg", workers=4, timeout=900)
    ctx.exhaustive = True
    vecs = [json.loads(s) for s in r.replays]
    derived = []
    for v in vecs:
        if v["expect"] == "accept" and v["ty"] != "TokenAmountText":
            data = cbor_term_bytes(v["bytes"])
            n = len(data)
            for c in sorted(set(list(range(0, min(n, 20))) + list(range(max(0, n - 4), n)) + [n // 2])):
                if c < n:
                    derived.append({"ty": v["ty"], "bytes": [["b", list(data[:c])]], "expect": "reject", "class": "proper prefix (%d of %d bytes)" % (c, n), "fields": {}, "opts": v["opts"]})
            derived.append({"ty": v["ty"], "bytes": [["b", list(data + b"\x00")]], "expect": "reject", "class": "trailing data", "fields": {}, "opts": v["opts"]})
            step = max(1, (8 * n) // (64 if quick else 1024))
            for bit in range(0, 8 * n, step):
                m = bytearray(data)
                m[bit // 8] ^= 1 << (bit % 8)
                derived.append({"ty": v["ty"], "bytes": [["b", list(m)]], "expect": "any", "class": "bit flip", "fields": {}, "opts": v["opts"]})
    s1, _ = replay_behaviours(ctx, "base", "cbor-replay", [json.dumps(v) for v in vecs + derived], "cbor")
    h = s1["by_action"]
    ctx.extra["vector_histogram"] = h
    ctx.extra["spec_vectors"] = len(vecs)
    ctx.extra["derived_vectors"] = len(derived)
    need = [k for k in ("Value:accept", "Value:reject", "TokenOperations:accept", "TokenOperations:reject", "TokenAmount:reject", "TokenAmountText:accept", "TokenOperationsUpward:accept", "CborHolderAccount:reject") if h.get(k, 0) == 0]
    if need:
        raise ToolError("vacuous run: %s" % need)
    v = json.loads(json.dumps(next(x for x in vecs if x["ty"] == "TokenAmount" and x["fields"])))
    v["fields"]["decimals"] = v["fields"]["decimals"] + 1
    inp = os.path.join(ctx.work, "canary.ndjson")
    outp = os.path.join(ctx.work, "canary.res")
    write_ndjson(inp, [v])
    ctx.harness("base", ["cbor-replay", inp, outp])
    if not [x for x in read_ndjson(outp) if not x.get("summary")]:
        raise ToolError("canary: altered field expectation not flagged")
    ctx.extra["canary"] = "altered decoded decimals flagged"
    ctx.samples = [{"kind": "CBOR vector", "vector": next(x for x in vecs if x["ty"] == "TokenOperations" and x["expect"] == "accept" and len(x["bytes"]) > 6)},
                   {"kind": "near miss", "vector": next(x for x in vecs if x["expect"] == "reject" and x["ty"] == "TokenOperations")}]
    ctx.assumptions += [
        "value::Value maps are compared modulo entry order (the encoder sorts keys); the decoder is deliberately permissive about non-shortest heads, indefinite lengths and duplicate keys: for those only totality and stability of decode . encode . decode are required (DESIGN O9)",
        "token types are transcribed from cddl/cis-7.cddl; TokenAmount string forms for decimals <= 28 (rust_decimal scale, DESIGN O8)",
        "nesting deeper than 64 is outside the claim",
    ]
    ctx.rule = ("Cbor.tla vectors: integers at every head-width boundary, byte/text strings, arrays, maps, tags, nesting to depth 64, decoder-rule near misses (trailing data, truncated items, invalid UTF-8, "
                "hostile lengths, reserved heads), token amounts / operations / holder accounts from the CDDL with missing mandatory fields, undeclared fields under both decoding options, ill-typed items, "
                "unknown variants preserved; token amounts across CBOR, decimal string and JSON; plus prefixes, trailing data and bit flips of every canonical vector. distinct = distinct vectors")


def run_c10(ctx):
    quick = ctx.tier == "quick"
    r = ctx.tlc(SPEC, "Schema.tla", "Schema.cfg", workers=8, timeout=1800)
    ctx.exhaustive = True
    vecs = [json.loads(s) for s in r.replays]
    batch = [v for v in vecs if v["kind"] != "bad_bytes"]
    hostile = [v for v in vecs if v["kind"] == "bad_bytes"]
    s1, _ = replay_behaviours(ctx, "base", "schema-replay", [json.dumps(v) for v in batch], "schema")
    hist = {}
    for k, n in s1["by_action"].items():
        hist[k.split(":")[0]] = hist.get(k.split(":")[0], 0) + n
    ctx.extra["vector_histogram"] = hist
    ctx.extra["type_constructors_covered"] = sorted(set(k.split(":")[1] for k in s1["by_action"]))
    if hist.get("roundtrip", 0) < 3000 or hist.get("bad_json", 0) < 15 or hist.get("module", 0) < 40 or len(ctx.extra["type_constructors_covered"]) < 30:
        raise ToolError("vacuous run: %s" % hist)
    # bytes that encode no value (incl. hostile lengths): one process each under an address-space limit
    exe = os.path.join(vlib.VERIF, "harness", "base", "target", "release", "vh-base")
    def lim():
        resource.setrlimit(resource.RLIMIT_AS, (3 << 30, 3 << 30))
    for i, v in enumerate(hostile):
        f = os.path.join(ctx.work, "one_%d.json" % i)
        with open(f, "w") as fh:
            fh.write(json.dumps(v))
        ctx.note_case(v)
        ctx.traces += 1
        ctx.evaluations += 1
        try:
            p = subprocess.run([exe, "schema-replay", "--one", f], capture_output=True, text=True, timeout=30, preexec_fn=lim)
        except subprocess.TimeoutExpired:
            ctx.violation("bytes -> JSON under schema %s did not terminate" % json.dumps(v["t"])[:100], {"kind": "schema_one", "vector": v})
            continue
        out = p.stdout.strip().splitlines()
        if p.returncode != 0 or not out:
            ctx.violation("bytes -> JSON under schema %s on %d input bytes killed the process (%s)" % (json.dumps(v["t"])[:100], len(json.dumps(v["b"])), (p.stderr.strip().splitlines() or ["?"])[0][:120]),
                          {"kind": "schema_one", "vector": v}, signature="schema-alloc")
            continue
        res = json.loads(out[-1])
        if not res.get("ok"):
            ctx.violation("schema %s: %s" % (json.dumps(v["t"])[:100], res.get("what")), {"kind": "schema_one", "vector": v, "detail": res})
    ctx.extra["bad_bytes_vectors"] = len(hostile)
    v = json.loads(json.dumps(next(x for x in batch if x["kind"] == "roundtrip" and x["t"][0] == "Pair")))
    v["b"] = v["b"] + [["b", [1]]]
    inp = os.path.join(ctx.work, "canary.ndjson")
    outp = os.path.join(ctx.work, "canary.res")
    write_ndjson(inp, [v])
    ctx.harness("base", ["schema-replay", inp, outp])
    if not [x for x in read_ndjson(outp) if not x.get("summary")]:
        raise ToolError("canary: altered expected bytes not flagged")
    ctx.extra["canary"] = "altered expected encoding flagged"
    ctx.samples = [{"kind": "schema triple (type, JSON, bytes)", "vector": next(x for x in batch if x["t"][0] == "Enum")},
                   {"kind": "schema triple", "vector": next(x for x in batch if x["t"][0] == "Map")}]
    ctx.assumptions += [
        "leaf types with text forms (timestamps, durations, amounts) are taken from a fixed table of (JSON, bytes) pairs; their text forms are C16's concern; account addresses (base58) are not covered",
        "nesting deeper than 32 and more than 2^16 zero-width elements are outside the property",
        "module schemas: one contract with up to two receive functions per module, every function shape of V0-V3; enums with exactly 65536 variants are not enumerated",
    ]
    ctx.rule = ("the closure of 40 leaf triples (type, JSON, bytes) under the constructors pair, list (4 size lengths), set, map, array, struct (named/unnamed/none), enum, tagged enum to nesting depth 3 "
                "(about 10^4 triples): JSON -> bytes and bytes -> JSON must both hold byte-exactly, and the binary form of every schema type must equal EncType and read back; JSON values a type does not "
                "accept must be refused; bytes that encode no value (undefined tags, invalid UTF-8 and names, over-long LEB128, lengths far beyond the content) must be refused without exhausting memory "
                "(one process each). Enums with 255/256/257 variants (tag width), strings of 4096..5000 bytes inside every constructor, and module schemas V0-V3 (every function shape; prefixed with every version hint, unprefixed with the matching hint, base64, truncations) are vectors as well. distinct = distinct triples")


def run(ctx):
    ctx.build("base")
    if ctx.prop == "C10":
        return run_c10(ctx)
    if ctx.prop == "C17":
        return run_c17(ctx)
    if ctx.prop == "C05":
        return run_c05(ctx)
    if ctx.prop == "C16":
        return run_c16(ctx)
    raise ToolError("no check for %s" % ctx.prop)


def replay(prop, path, seed):
    with open(path) as f:
        rp = json.load(f)["replay"]
    ctx = vlib.Ctx(prop + "_replay", "quick", seed)
    ctx.prop = prop
    ctx.build("base")
    if rp["kind"] == "behaviour":
        summary, bad = replay_behaviours(ctx, "base", rp["subcmd"], [json.dumps(rp["behaviour"])], "replay")
        print("replayed 1 vector: %s" % ("VIOLATION reproduced" if bad else "no disagreement"))
        return 1 if bad else 0
    if rp["kind"] == "alloc":
        st, info = alloc_probe(ctx, rp["ty"], bytes.fromhex(rp["hex"]))
        print("alloc probe: %s %s" % (st, info))
        return 0 if (st == "ok" and not info.get("accepted") and info.get("peak", 0) <= ALLOC_CONST + ALLOC_PER_BYTE * len(rp["hex"]) // 2) else 1
    return 2
