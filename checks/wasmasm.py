"""Tiny WebAssembly binary assembler: turns the structured modules of the TLA+ specs (WasmSem's module
records, exported as JSON) into .wasm bytes.  Part of the trusted base of the Wasm checks; it is
cross-checked by the engine's own parser/validator accepting exactly what the spec says is valid."""

VT = {2: 0x7F, 4: 0x7E}


def uleb(n):
    out = bytearray()
    while True:
        b = n & 0x7F
        n >>= 7
        if n:
            out.append(b | 0x80)
        else:
            out.append(b)
            return bytes(out)


def sleb(n):
    out = bytearray()
    while True:
        b = n & 0x7F
        n >>= 7
        if (n == 0 and not (b & 0x40)) or (n == -1 and (b & 0x40)):
            out.append(b)
            return bytes(out)
        out.append(b | 0x80)


def limbs_unsigned(v):
    x = 0
    for i, l in enumerate(v):
        x |= l << (16 * i)
    return x


def limbs_signed(v):
    x = limbs_unsigned(v)
    bits = 16 * len(v)
    return x - (1 << bits) if x >> (bits - 1) else x


def to_limbs(x, n):
    x &= (1 << (16 * n)) - 1
    return [(x >> (16 * i)) & 0xFFFF for i in range(n)]


def vec(items):
    return uleb(len(items)) + b"".join(items)


def name(s):
    b = s.encode()
    return uleb(len(b)) + b


BINOPS = ["add", "sub", "mul", "div_s", "div_u", "rem_s", "rem_u", "and", "or", "xor", "shl", "shr_s", "shr_u", "rotl", "rotr"]
RELOPS = ["eq", "ne", "lt_s", "lt_u", "gt_s", "gt_u", "le_s", "le_u", "ge_s", "ge_u"]
UNOPS = ["clz", "ctz", "popcnt"]
CVT = {"wrap": 0xA7, "extend_s": 0xAC, "extend_u": 0xAD, "i32.extend8_s": 0xC0, "i32.extend16_s": 0xC1,
       "i64.extend8_s": 0xC2, "i64.extend16_s": 0xC3, "i64.extend32_s": 0xC4}
LOADS = {(2, 4, False): 0x28, (2, 4, True): 0x28, (4, 8, False): 0x29, (4, 8, True): 0x29,
         (2, 1, True): 0x2C, (2, 1, False): 0x2D, (2, 2, True): 0x2E, (2, 2, False): 0x2F,
         (4, 1, True): 0x30, (4, 1, False): 0x31, (4, 2, True): 0x32, (4, 2, False): 0x33,
         (4, 4, True): 0x34, (4, 4, False): 0x35}
STORES = {(2, 4): 0x36, (4, 8): 0x37, (2, 1): 0x3A, (2, 2): 0x3B, (4, 1): 0x3C, (4, 2): 0x3D, (4, 4): 0x3E}


def blocktype(bt):
    return bytes([0x40]) if bt == 0 else bytes([VT[bt]])


def instr(i):
    op = i["op"]
    if op == "nop":
        return b"\x01"
    if op == "unreachable":
        return b"\x00"
    if op == "const":
        return bytes([0x41 if i["t"] == 2 else 0x42]) + sleb(limbs_signed(i["v"]))
    if op == "local.get":
        return b"\x20" + uleb(i["i"])
    if op == "local.set":
        return b"\x21" + uleb(i["i"])
    if op == "local.tee":
        return b"\x22" + uleb(i["i"])
    if op == "global.get":
        return b"\x23" + uleb(i["i"])
    if op == "global.set":
        return b"\x24" + uleb(i["i"])
    if op == "binop":
        return bytes([(0x6A if i["t"] == 2 else 0x7C) + BINOPS.index(i["name"])])
    if op == "relop":
        return bytes([(0x46 if i["t"] == 2 else 0x51) + RELOPS.index(i["name"])])
    if op == "unop":
        return bytes([(0x67 if i["t"] == 2 else 0x79) + UNOPS.index(i["name"])])
    if op == "eqz":
        return bytes([0x45 if i["t"] == 2 else 0x50])
    if op == "cvt":
        return bytes([CVT[i["name"]]])
    if op == "drop":
        return b"\x1a"
    if op == "select":
        return b"\x1b"
    if op == "block":
        return b"\x02" + blocktype(i["bt"])
    if op == "loop":
        return b"\x03" + blocktype(i["bt"])
    if op == "if":
        return b"\x04" + blocktype(i["bt"])
    if op == "else":
        return b"\x05"
    if op == "end":
        return b"\x0b"
    if op == "br":
        return b"\x0c" + uleb(i["l"])
    if op == "br_if":
        return b"\x0d" + uleb(i["l"])
    if op == "br_table":
        return b"\x0e" + vec([uleb(l) for l in i["ls"]]) + uleb(i["d"])
    if op == "return":
        return b"\x0f"
    if op == "call":
        return b"\x10" + uleb(i["f"])
    if op == "call_indirect":
        return b"\x11" + uleb(i["ty"]) + b"\x00"
    if op == "load":
        n = i["n"]
        align = {1: 0, 2: 1, 4: 2, 8: 3}[n]
        return bytes([LOADS[(i["t"], n, bool(i["sx"]))]]) + uleb(align) + uleb(limbs_unsigned(i["off"]))
    if op == "store":
        n = i["n"]
        align = {1: 0, 2: 1, 4: 2, 8: 3}[n]
        return bytes([STORES[(i["t"], n)]]) + uleb(align) + uleb(limbs_unsigned(i["off"]))
    if op == "memory.size":
        return b"\x3f\x00"
    if op == "memory.grow":
        return b"\x40\x00"
    if op == "raw":   # escape hatch for ill-formed input in validation tests
        return bytes(i["bytes"])
    raise ValueError("unknown instruction %r" % (i,))


def section(sid, payload):
    return bytes([sid]) + uleb(len(payload)) + payload


def const_expr(t, limbs):
    return bytes([0x41 if t == 2 else 0x42]) + sleb(limbs_signed(limbs)) + b"\x0b"


def uses_signext(m):
    for f in m["funcs"]:
        for i in f.get("body", []):
            if i["op"] == "cvt" and i["name"].startswith("i"):
                return True
    return False


def assemble(m, entry=0, export_name="main", extra_exports=None, start=None, raw_sections=None):
    """m: module record (types, funcs [imports first], globals, pages, maxPages, table, data)."""
    out = bytearray(b"\x00asm\x01\x00\x00\x00")
    types = [b"\x60" + vec([bytes([VT[p]]) for p in t["params"]]) + vec([bytes([VT[r]]) for r in t["results"]])
             for t in m["types"]]
    out += section(1, vec(types))
    imports = [f for f in m["funcs"] if f.get("host")]
    defined = [f for f in m["funcs"] if not f.get("host")]
    if imports:
        out += section(2, vec([name(f.get("module", "env")) + name(f["name"]) + b"\x00" + uleb(f["ty"]) for f in imports]))
    out += section(3, vec([uleb(f["ty"]) for f in defined]))
    table = m.get("table") or []
    if table:
        out += section(4, vec([b"\x70\x00" + uleb(len(table))]))
    if m.get("pages", -1) >= 0:
        if m.get("maxPages") is None:
            out += section(5, vec([b"\x00" + uleb(m["pages"])]))
        else:
            out += section(5, vec([b"\x01" + uleb(m["pages"]) + uleb(m["maxPages"])]))
    if m.get("globals"):
        out += section(6, vec([bytes([VT[g["t"]], 1 if g["mut"] else 0]) + const_expr(g["t"], g["init"]) for g in m["globals"]]))
    exports = [name(export_name) + b"\x00" + uleb(entry)]
    for (n, idx) in (extra_exports or []):
        exports.append(name(n) + b"\x00" + uleb(idx))
    out += section(7, vec(exports))
    if start is not None:
        out += section(8, uleb(start))
    if table:
        segs = []
        i = 0
        while i < len(table):
            if table[i] < 0:
                i += 1
                continue
            j = i
            while j < len(table) and table[j] >= 0:
                j += 1
            segs.append(b"\x00" + const_expr(2, to_limbs(i, 2)) + vec([uleb(x) for x in table[i:j]]))
            i = j
        out += section(9, vec(segs))
    codes = []
    for f in defined:
        groups = []
        for t in f["locals"]:
            if groups and groups[-1][1] == t:
                groups[-1][0] += 1
            else:
                groups.append([1, t])
        body = vec([uleb(c) + bytes([VT[t]]) for c, t in groups]) + b"".join(instr(i) for i in f["body"])
        codes.append(uleb(len(body)) + body)
    out += section(10, vec(codes))
    if m.get("data"):
        out += section(11, vec([b"\x00" + const_expr(2, to_limbs(d["off"], 2)) + uleb(len(d["bytes"])) + bytes(d["bytes"]) for d in m["data"]]))
    for s in (raw_sections or []):
        out += s
    return bytes(out)
