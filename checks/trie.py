"""Checks of the contract-state trie family: C03 (ordered map / generations), C04 (canonical hash,
persistence), C15 (iterator locks, handles).  Specs: spec/trie/*.tla; harness: harness/engine."""
import hashlib
import json
import os

import vlib
from vlib import ToolError, replay_behaviours, validate_trace, write_ndjson, read_ndjson

SPEC = "trie"


def term_bytes(term):
    out = b""
    for p in term:
        if p[0] == "b":
            out += bytes(p[1])
        elif p[0] == "r":
            out += bytes([p[1]]) * p[2]
        elif p[0] == "h":
            out += hashlib.sha256(term_bytes(p[1])).digest()
        else:
            raise ToolError("bad term part %r" % (p,))
    return out


def export_behaviours(ctx, quick):
    """TLC: design invariants + behaviours for replay (edge-covering and random long ones)."""
    w = 8 if quick else 16
    # 1. exhaustive design check (VIEW hides the history)
    ctx.tlc(SPEC, "MC_StateTrie.tla", "StateTrie_exh.cfg" if quick else "StateTrie_exh_big.cfg",
            workers=w, timeout=3000)
    ctx.exhaustive = True
    # 2. one behaviour per transition of the reduced state graph
    r_edges = ctx.tlc(SPEC, "MC_StateTrie.tla", "StateTrie_edges.cfg" if quick else "StateTrie_edges_big.cfg",
                      workers=w, timeout=3000)
    # 3. random long behaviours over the full constants
    r_sim = ctx.tlc(SPEC, "MC_StateTrie.tla", "StateTrie_sim.cfg", name="sim", workers=w,
                    simulate=(600 if quick else 20000), depth=45, timeout=3000)
    beh = r_edges.replays + r_sim.replays
    if len(r_edges.replays) < 1000 or len(r_sim.replays) < 100:
        raise ToolError("TLC exported too few behaviours (%d edge, %d simulated)" % (len(r_edges.replays), len(r_sim.replays)))
    return beh


REQUIRED_ACTIONS_C03 = ["insert:ok", "get:some", "get:none", "read:some", "read:none", "set:ok", "getmut:ok",
                        "delete:ok", "delprefix:ok", "iter:some", "next:some", "next:none", "newgen:ok",
                        "normalize:ok", "freeze:ok"]
REQUIRED_ACTIONS_C15 = ["insert:locked", "delete:locked", "delprefix:locked", "iter:some", "iter:none",
                        "next:some", "next:none", "deliter:ok", "read:none", "set:none", "getmut:none"]


def check_vacuity(summary, required):
    missing = [a for a in required if summary["by_action"].get(a, 0) == 0]
    if missing:
        raise ToolError("vacuous run: actions never exercised in replay: %s" % missing)


def canary_replay(ctx, beh):
    """Binding canary: an exported behaviour with one expected observation altered must be flagged."""
    for b in beh:
        steps = json.loads(b)
        for i, st in enumerate(steps):
            if st["a"] == "insert" and st["r"][0] == "ok" and st["m"]:
                st["m"][0][1] = (st["m"][0][1] + 1) % 4
                inp = os.path.join(ctx.work, "canary_replay.ndjson")
                outp = os.path.join(ctx.work, "canary_replay.res")
                write_ndjson(inp, [json.dumps(steps)])
                ctx.harness("engine", ["trie-replay", inp, outp, "--nohash"])
                bad = [r for r in read_ndjson(outp) if not r.get("summary")]
                if not bad:
                    raise ToolError("canary: altered expectation was not flagged by the replayer")
                ctx.extra["canary_replay"] = "altered expected contents at step %d flagged: %s" % (i, bad[0]["what"])
                return
    raise ToolError("canary: no suitable behaviour")


def record_and_validate(ctx, quick, tag):
    """impl -> spec: random workloads on the real trie, validated by TLC against StateTrieTrace."""
    nfiles = 4 if quick else 60
    execs, ops = (12, 400) if quick else (25, 800)
    accepted = 0
    events = 0
    for i in range(nfiles):
        seed = ctx.seed * 7919 + i
        path = os.path.join(ctx.work, "trace_%s_%d.ndjson" % (tag, i))
        ctx.harness("engine", ["trie-record", path, str(seed), str(execs), str(ops)])
        n = sum(1 for _ in open(path))
        ok, rej, res = validate_trace(ctx, SPEC, "StateTrieTrace.tla", "StateTrieTrace.cfg", path, "trace_%s_%d" % (tag, i))
        events += n
        ctx.traces += execs
        ctx.evaluations += n
        if ok:
            accepted += 1
            if i == 0:
                with open(path) as f:
                    lines = [json.loads(next(f)) for _ in range(4)]
                ctx.sample({"kind": "recorded trace validated by TLC (first events)", "events": lines}, limit=6)
        else:
            line = rej.get("line") or 0
            with open(path) as f:
                prefix = [json.loads(l) for l in list(f)[:line]]
            ctx.violation("trace recorded from the real trie rejected by StateTrie at event %s: %s" % (
                line, json.dumps(rej)[:300]),
                {"kind": "trace", "record_args": [str(seed), str(execs), str(ops)], "reject": rej,
                 "trace_prefix_tail": prefix[-15:]})
    ctx.extra["trace_files"] = nfiles
    ctx.extra["trace_events"] = events
    ctx.extra["trace_files_accepted"] = accepted
    return path


def canary_trace(ctx, path):
    """Binding canary: a recorded trace with one corrupted field must be rejected by TLC."""
    lines = [json.loads(l) for l in open(path)]
    for i, ev in enumerate(lines):
        if ev["a"] == "delete" and ev["r"] == ["ok", 1] and i > 20:
            ev["r"] = ["ok", 0]
            break
    else:
        raise ToolError("canary: no delete event to corrupt")
    cpath = os.path.join(ctx.work, "canary_trace.ndjson")
    write_ndjson(cpath, lines[: i + 5])
    st, tr = ctx.states, ctx.transitions
    ok, rej, _ = validate_trace(ctx, SPEC, "StateTrieTrace.tla", "StateTrieTrace.cfg", cpath, "canary_trace")
    ctx.states, ctx.transitions = st, tr
    ctx.tlc_runs.pop()
    if ok or rej.get("line") != i + 1:
        raise ToolError("canary: corrupted trace was not rejected at the corrupted event (%s)" % rej)
    ctx.extra["canary_trace"] = "corrupted delete result at event %d rejected by TLC" % (i + 1)


def canon_against_spec(ctx, rows_real, name):
    """Compare (contents, hash, serialisation) rows observed on the real code with the Merkle and
    layout terms TLC computes from TrieCanon.tla for the same contents."""
    maps_path = os.path.join(ctx.work, name + "_maps.ndjson")
    write_ndjson(maps_path, [{"m": r["m"]} for r in rows_real])
    res = ctx.tlc(SPEC, "TrieCanonEval.tla", "TrieCanonEval.cfg", name=name + "_eval", workers=1, timeout=3000,
                  env={"MAPS": maps_path, "JAVA_TOOL_OPTIONS": "-Xss1g"})
    terms = [json.loads(s) for s in res.tagged.get("CANON", [])]
    if len(terms) != len(rows_real):
        raise ToolError("TrieCanonEval produced %d terms for %d maps" % (len(terms), len(rows_real)))
    bad = 0
    for t in terms:
        r = rows_real[t["i"] - 1]
        eh = hashlib.sha256(term_bytes(t["hash"])).hexdigest()
        ctx.note_case({"canon": r["m"]}, nontrivial=len(r["m"]) > 0)
        if r["hash"] != eh:
            bad += 1
            ctx.violation("state hash differs from the Merkle construction of the spec for contents %s: real %s, spec %s" % (
                json.dumps(r["m"]), r["hash"], eh), {"kind": "canon", "m": r["m"], "real": r["hash"], "spec": eh})
        if r.get("ser") is not None:
            es = term_bytes(t["ser"]).hex()
            if r["ser"] != es:
                bad += 1
                ctx.violation("serialisation differs from the layout of the spec for contents %s" % json.dumps(r["m"]),
                              {"kind": "canon_ser", "m": r["m"], "real": r["ser"], "spec": es})
    return len(terms), bad


def run(ctx):
    quick = ctx.tier == "quick"
    ctx.build("engine")
    prop = ctx.prop
    ctx.assumptions += [
        "TLC 1.8 and the CommunityModules are trusted; the harness (harness/engine, ~1k lines) and the shims of DESIGN 2.3 are trusted",
        "value contents are drawn from five classes (0, 1, 64, 65, 300 bytes); keys up to 6 bytes in recorded traces, up to 2 bytes in enumerated behaviours",
        "handles and iterators are only used within the generation that issued them (caller obligation, DESIGN O6/O7)",
    ]
    beh = export_behaviours(ctx, quick)
    table = os.path.join(ctx.work, "canon_table.ndjson")
    summary, bad = replay_behaviours(ctx, "engine", "trie-replay", beh, "behaviours", extra_args=["--table", table])
    ctx.extra["replay_steps"] = summary["steps"]
    ctx.extra["replay_action_histogram"] = summary["by_action"]
    ctx.extra["distinct_contents_seen"] = summary["distinct_contents"]
    check_vacuity(summary, REQUIRED_ACTIONS_C03 + REQUIRED_ACTIONS_C15)
    canary_replay(ctx, beh)
    last = record_and_validate(ctx, quick, "rnd")
    canary_trace(ctx, last)
    if prop == "C04":
        # exhaustive: every map over the key universe, built through many histories
        r = ctx.tlc(SPEC, "MC_TrieCanon.tla", "TrieCanon_export.cfg" if quick else "TrieCanon_export_big.cfg",
                    workers=8, timeout=3000)
        rows = [json.loads(s) for s in r.tagged.get("CANON", [])]
        maps = os.path.join(ctx.work, "sweep_maps.ndjson")
        out = os.path.join(ctx.work, "sweep.res")
        write_ndjson(maps, [{"m": x["m"]} for x in rows])
        ctx.harness("engine", ["trie-canon", maps, out, str(ctx.seed)])
        nvar = 0
        for rec in read_ndjson(out):
            spec = rows[rec["idx"]]
            if "error" in rec:
                ctx.violation("building contents %s through different histories failed: %s" % (json.dumps(spec["m"]), rec["error"]),
                              {"kind": "canon_sweep", "m": spec["m"], "error": rec["error"]})
                continue
            eh = hashlib.sha256(term_bytes(spec["hash"])).hexdigest()
            es = term_bytes(spec["ser"]).hex()
            for v in rec["variants"]:
                nvar += 1
                if v["hash"] != eh or v["ser"] != es:
                    ctx.violation("history '%s' ending in contents %s gives hash/serialisation different from the spec's canonical construction" % (
                        v["how"], json.dumps(spec["m"])), {"kind": "canon_sweep", "m": spec["m"], "how": v["how"], "real_hash": v["hash"], "spec_hash": eh})
            ctx.note_case({"sweep": spec["m"]}, nontrivial=len(spec["m"]) > 0)
        ctx.traces += nvar
        ctx.extra["canon_sweep_maps"] = len(rows)
        ctx.extra["canon_sweep_histories"] = nvar
        ctx.sample({"kind": "canonical-hash vector", "m": rows[len(rows) // 2]["m"],
                    "hash": hashlib.sha256(term_bytes(rows[len(rows) // 2]["hash"])).hexdigest()}, limit=8)
        # contents reached by the replayed behaviours / recorded traces, checked against the terms
        real_rows = read_ndjson(table)
        n, _ = canon_against_spec(ctx, real_rows, "replayed")
        ctx.extra["canon_rows_from_behaviours"] = n
        # freeze events of the recorded traces
        frz = {}
        for fn in sorted(os.listdir(ctx.work)):
            if fn.startswith("trace_rnd_") and fn.endswith(".ndjson"):
                for l in open(os.path.join(ctx.work, fn)):
                    ev = json.loads(l)
                    if ev["a"] == "freeze" and ev["r"] == ["ok"] and all(isinstance(x[1], int) and x[1] >= 0 for x in ev["m"]):
                        key = json.dumps(ev["m"])
                        if key in frz and frz[key]["hash"] != ev["hash"]:
                            ctx.violation("same contents, different hash in recorded traces: %s" % key, {"kind": "canon_trace", "m": ev["m"]})
                        frz[key] = {"m": ev["m"], "hash": ev["hash"], "ser": None}
                        if ev["hash"] != ev["hash_frozen"]:
                            ctx.violation("persistence mode %s changed the hash" % ev["mode"], {"kind": "canon_trace", "event": ev})
        n2, _ = canon_against_spec(ctx, list(frz.values()), "recorded")
        ctx.extra["canon_rows_from_traces"] = n2
    if prop == "C15":
        w = 8 if quick else 16
        ctx.tlc(SPEC, "MC_InstanceHandles.tla", "InstanceHandles_exh.cfg" if quick else "InstanceHandles_exh_big.cfg", workers=w, timeout=3000)
        r1 = ctx.tlc(SPEC, "MC_InstanceHandles.tla", "InstanceHandles_edges.cfg", workers=w, timeout=3000)
        r2 = ctx.tlc(SPEC, "MC_InstanceHandles.tla", "InstanceHandles_sim.cfg", name="ih_sim", workers=w,
                     simulate=(400 if quick else 20000), depth=35, timeout=3000)
        r3 = ctx.tlc(SPEC, "MC_InstanceHandles.tla", "InstanceHandles_sim2.cfg", name="ih_sim2", workers=w,
                     simulate=(400 if quick else 20000), depth=35, timeout=3000)
        ibeh = r1.replays + r2.replays + r3.replays
        if len(r1.replays) < 1000 or len(r2.replays) < 100:
            raise ToolError("TLC exported too few InstanceHandles behaviours")
        isum, _ = replay_behaviours(ctx, "engine", "inst-replay", ibeh, "inst_behaviours")
        ctx.extra["inst_replay_steps"] = isum["steps"]
        ctx.extra["inst_action_histogram"] = isum["by_action"]
        need = ['create:"none"', 'delete:0', 'delprefix:0', 'iternext:"err"', 'iternext:"some"', 'iternext:"none"', 'iterdelete:1', 'iterdelete:0',
                'iterdelete:"max"', 'read:"max"', 'write:"max"', 'resize:"max"', 'resume_same:ok', 'resume_updated:ok']
        missing = [a for a in need if isum["by_action"].get(a, 0) == 0]
        if missing:
            raise ToolError("vacuous run: InstanceHandles outcomes never exercised: %s" % missing)
        # canary: alter one expected result code
        for b in ibeh:
            steps = json.loads(b)
            if steps[-1]["a"] == "delete" and steps[-1]["r"] == [0]:
                steps[-1]["r"] = [2]
                inp = os.path.join(ctx.work, "canary_inst.ndjson")
                outp = os.path.join(ctx.work, "canary_inst.res")
                write_ndjson(inp, [json.dumps(steps)])
                ctx.harness("engine", ["inst-replay", inp, outp])
                if not [r for r in read_ndjson(outp) if not r.get("summary")]:
                    raise ToolError("canary: altered InstanceHandles expectation not flagged")
                ctx.extra["canary_inst"] = "altered refusal code flagged"
                break
        else:
            raise ToolError("canary: no locked delete in the exported behaviours")
        ctx.assumptions.append("on resume the scheduler passes the original state handle with state_updated=false (rolled-back inner call) or the newer generation with state_updated=true; these are the two documented protocols (DESIGN O6)")
    ctx.rule = ("behaviours: one per transition of the TLC state graph of StateTrie (small constants) plus random "
                "simulated behaviours (full constants), each replayed in two driving modes with the full projection "
                "compared after every step; traces: seeded random workloads on the real trie validated by TLC. "
                "distinct = distinct behaviour/contents by content hash; a behaviour is non-trivial if it has at least one step "
                "(every exported behaviour contains a state-changing or observing call)")


def replay(prop, path, seed):
    with open(path) as f:
        rp = json.load(f)["replay"]
    ctx = vlib.Ctx(prop + "_replay", "quick", seed)
    ctx.prop = prop
    ctx.build("engine")
    if rp["kind"] == "behaviour":
        summary, bad = replay_behaviours(ctx, "engine", rp["subcmd"], [json.dumps(rp["behaviour"])], "replay", extra_args=rp.get("args"))
        print("replayed 1 behaviour: %s" % ("VIOLATION reproduced" if bad else "no disagreement"))
        return 1 if bad else 0
    if rp["kind"] == "trace":
        p = os.path.join(ctx.work, "trace.ndjson")
        ctx.harness("engine", ["trie-record", p] + rp["record_args"])
        ok, rej, _ = validate_trace(ctx, SPEC, "StateTrieTrace.tla", "StateTrieTrace.cfg", p, "replay_trace")
        print("re-recorded trace: %s" % ("accepted" if ok else "REJECTED %s" % json.dumps(rej)[:300]))
        return 0 if ok else 1
    print("replay kind %s: re-run the check" % rp["kind"])
    return 2
