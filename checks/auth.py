"""C06: transaction / update authorisation is exactly the threshold policy.
Specs: spec/auth/AccessStructure.tla (+UpdateKeys, TxEnvelope); harness: harness/base (auth-replay)."""
import json
import os

import vlib
from vlib import ToolError, replay_behaviours, write_ndjson, read_ndjson

SPEC = "auth"

CFG = """SPECIFICATION ASpec
CONSTANTS
  CredIdx = %(cred)s
  KeyIdx = %(key)s
  SigCredIdx = %(scred)s
  SigKeyIdx = %(skey)s
  Thresholds = %(thr)s
  MaxSigs = %(maxsigs)d
  MaxFaulty = %(maxfaulty)d
INVARIANTS SelfSignedVerifies UnknownRejects FaultyRejects AExport
CHECK_DEADLOCK FALSE
"""


def vectors(ctx, name, **kw):
    p = os.path.join(ctx.work, name + ".cfg")
    with open(p, "w") as f:
        f.write(CFG % kw)
    r = ctx.tlc(SPEC, "AccessStructure.tla", p, name=name, workers=8, timeout=3000)
    return r.replays


def run(ctx):
    quick = ctx.tier == "quick"
    ctx.build("base")
    ctx.assumptions += [
        "ed25519-dalek is trusted for the validity of individual signatures; 'bad' = one flipped bit, 'other' = valid signature over a different digest",
        "chain-side verification of update instructions lives in the Haskell node; only the Rust construction side is bound",
    ]
    from concurrent.futures import ThreadPoolExecutor
    jobs = [
        dict(name="faulty", cred="{0, 1}", key="{0, 1}", scred="{0, 1, 2}", skey="{0, 1, 2}", thr="{1, 2, 3}", maxsigs=2 if quick else 4, maxfaulty=1),
        dict(name="good", cred="{0, 1, 5}", key="{0, 3}", scred="{0, 1, 5}", skey="{0, 3}", thr="{1, 2}", maxsigs=6, maxfaulty=0),
        dict(name="wide", cred="{0, 255}", key="{0, 254, 255}", scred="{0, 255}", skey="{0, 254, 255}", thr="{1, 2, 3, 255}", maxsigs=6, maxfaulty=0 if quick else 1),
    ]
    with ThreadPoolExecutor(max_workers=3) as ex:
        res = list(ex.map(lambda kw: vectors(ctx, **kw), jobs))
    vecs = [v for r in res for v in r]
    ctx.exhaustive = True
    if len(vecs) < 20000:
        raise ToolError("too few authorisation vectors: %d" % len(vecs))
    # replay in parallel chunks
    chunk = max(1, len(vecs) // 8 + 1)
    parts = [vecs[i:i + chunk] for i in range(0, len(vecs), chunk)]
    totals = {}
    def one(iv):
        i, part = iv
        return replay_behaviours(ctx, "base", "auth-replay", part, "auth_%d" % i)
    with ThreadPoolExecutor(max_workers=8) as ex:
        outs = list(ex.map(one, enumerate(parts)))
    for summary, bad in outs:
        for k, v in summary["by_action"].items():
            totals[k] = totals.get(k, 0) + v
    ctx.extra["vector_histogram"] = totals
    if totals.get("expect:true", 0) < 500 or totals.get("expect:false", 0) < 5000 or totals.get("perturbed", 0) < 500:
        raise ToolError("vacuous run: %s" % totals)
    # envelope of constructed transactions and update signers
    r = ctx.tlc(SPEC, "TxEnvelope.tla", "TxEnvelope.cfg", workers=4, timeout=900)
    s1, _ = replay_behaviours(ctx, "base", "envelope-replay", r.replays, "envelope")
    r = ctx.tlc(SPEC, "UpdateKeys.tla", "UpdateKeys.cfg", workers=4, timeout=900)
    s2, _ = replay_behaviours(ctx, "base", "updkeys-replay", r.replays, "updkeys")
    r = ctx.tlc(SPEC, "TxBuilder.tla", "TxBuilder.cfg", workers=1, timeout=900)
    blines = [x for x in r.replays if '"ops"' in x]   # the instantiated TxEnvelope!EExport prints one constant record: not a behaviour
    s3, _ = replay_behaviours(ctx, "base", "builder-replay", blines, "builder")
    ctx.extra["builder_behaviours"] = s3["by_action"]
    if s3["by_action"].get("finalize verifies:true", 0) < 5 or s3["by_action"].get("finalize verifies:false", 0) < 5 or s3["by_action"].get("add_sponsor:ok", 0) < 50:
        raise ToolError("vacuous builder run: %s" % s3["by_action"])
    ctx.extra["envelope_vectors"] = s1["by_action"]
    ctx.extra["update_signer_vectors"] = s2["by_action"]
    if sum(s1["by_action"].values()) < 50 or s2["by_action"].get("expect:true", 0) < 50 or s2["by_action"].get("expect:false", 0) < 50:
        raise ToolError("vacuous envelope/update run")
    # canary: flip the predicted verdict of one vector
    v = json.loads(vecs[0])
    v["ok"] = not v["ok"]
    inp = os.path.join(ctx.work, "canary.ndjson")
    outp = os.path.join(ctx.work, "canary.res")
    write_ndjson(inp, [v])
    ctx.harness("base", ["auth-replay", inp, outp])
    if not [x for x in read_ndjson(outp) if not x.get("summary")]:
        raise ToolError("canary: flipped verdict not flagged")
    ctx.extra["canary"] = "flipped authorisation verdict flagged"
    ctx.samples = [{"kind": "authorisation vector", "vector": json.loads(vecs[len(vecs) // 3])}, {"kind": "authorisation vector", "vector": json.loads(vecs[-1])}]
    ctx.rule = ("every (access structure, signature map) over small index sets within the stated bounds (credential/key indices incl. 255, thresholds incl. ones above the number "
                "of keys, unknown credential and key indices, at most one corrupted or wrong-digest signature) is a vector; each is replayed with real ed25519 keys on "
                "verify_data_signature, AccountTransaction / AccountTransactionV1 (sponsored) verification, signing with AccountKeys, and - for authorised vectors - single-field "
                "perturbations of header, payload and key set. distinct = distinct vectors")


def replay(prop, path, seed):
    with open(path) as f:
        rp = json.load(f)["replay"]
    ctx = vlib.Ctx(prop + "_replay", "quick", seed)
    ctx.prop = prop
    ctx.build("base")
    summary, bad = replay_behaviours(ctx, "base", rp["subcmd"], [json.dumps(rp["behaviour"])], "replay")
    print("replayed 1 vector: %s" % ("VIOLATION reproduced" if bad else "no disagreement"))
    return 1 if bad else 0
