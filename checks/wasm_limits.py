"""Builders for the module-level part of C09: module binaries from ModuleLimits.tla skeletons and byte-level
mutation scripts from WasmMutate.tla."""
from wasmasm import uleb, sleb, vec, name, section

I32 = 0x7F
F32 = 0x7D


def limits(mn, mx):
    return (b"\x00" + uleb(mn)) if mx < 0 else (b"\x01" + uleb(mn) + uleb(mx))


def build_skeleton(sk):
    out = bytearray(b"\x00asm\x01\x00\x00\x00")
    if sk["badMagic"]:
        out[1] = ord("b")
    float_use = sk["floatUse"]
    nparams, nres = sk["nParams"], sk["nResults"]
    types = [b"\x60" + vec([bytes([I32])] * nparams) + vec([bytes([I32])] * nres)]
    if float_use == "type":
        types.append(b"\x60" + vec([bytes([F32])]) + vec([]))
    secs = {}
    secs[1] = section(1, vec(types))
    imp = sk["importKind"]
    nimp_funcs = 0
    if imp == "func":
        secs[2] = section(2, vec([name("env") + name("imp") + b"\x00" + uleb(0)]))
        nimp_funcs = 1
    elif imp == "global":
        secs[2] = section(2, vec([name("env") + name("g") + b"\x03" + bytes([I32, 0])]))
    elif imp == "memory":
        secs[2] = section(2, vec([name("env") + name("m") + b"\x02" + limits(1, -1)]))
    elif imp == "table":
        secs[2] = section(2, vec([name("env") + name("t") + b"\x01\x70" + limits(1, -1)]))
    secs[3] = section(3, vec([uleb(0)]))
    if sk["nTabs"] > 0:
        secs[4] = section(4, vec([b"\x70" + limits(sk["tabMin"], sk["tabMax"])] * sk["nTabs"]))
    if sk["nMems"] > 0:
        secs[5] = section(5, vec([limits(sk["memMin"], sk["memMax"])] * sk["nMems"]))
    globs = []
    for i in range(sk["nGlobals"]):
        if float_use == "global" and i == 0:
            globs.append(bytes([F32, 0]) + b"\x43\x00\x00\x00\x00\x0b")
        else:
            globs.append(bytes([I32, 0]) + b"\x41\x00\x0b")
    if float_use == "global" and sk["nGlobals"] == 0:
        globs.append(bytes([F32, 0]) + b"\x43\x00\x00\x00\x00\x0b")
    if globs:
        secs[6] = section(6, vec(globs))
    fidx = nimp_funcs  # index of the defined function
    exports = []
    for i in range(sk["nExports"]):
        if i == 0:
            nm = ("e" + "a" * max(0, sk["nameLen"] - 1))[: sk["nameLen"]]
            nb = nm.encode()
            if sk["nonAsciiName"]:
                nb = nb[:-2] + "é".encode() if len(nb) >= 2 else "é".encode()
            exports.append(uleb(len(nb)) + nb + b"\x00" + uleb(99 if sk["exportMissing"] else fidx))
        else:
            nm = "x%d" % (1 if (sk["dupExport"] and i <= 2) else i)
            exports.append(name(nm) + b"\x00" + uleb(fidx))
    if sk["dupExport"] and sk["nExports"] < 3:
        exports.append(name("dup") + b"\x00" + uleb(fidx))
        exports.append(name("dup") + b"\x00" + uleb(fidx))
    secs[7] = section(7, vec(exports))
    if sk["hasStart"]:
        secs[8] = section(8, uleb(fidx))
    if sk["elemLen"] > 0:
        secs[9] = section(9, vec([b"\x00\x41" + sleb(sk["elemOff"]) + b"\x0b" + vec([uleb(fidx)] * sk["elemLen"])]))
    # code
    locals_decl = []
    nloc = sk["nLocals"]
    if float_use == "local":
        locals_decl.append(uleb(1) + bytes([F32]))
    if nloc > 0:
        locals_decl.append(uleb(nloc) + bytes([I32]))
    body = bytearray()
    body += b"\x02\x40" + b"\x41\x00" + b"\x0e" + vec([uleb(0)] * sk["brLabels"]) + uleb(0) + b"\x0b"
    if sk["nMems"] == 1:
        # grow within and far beyond any declared maximum: the engine's memory buffer holds at most 512 pages
        body += b"\x41\x01\x40\x00\x1a" + b"\x41\xd8\x04\x40\x00\x1a" + b"\x3f\x00\x1a"
    if float_use == "instr":
        body += b"\x43\x00\x00\x00\x00\x1a"
    if float_use == "blocktype":
        body += b"\x02\x7d\x00\x0b\x1a"
    body += b"\x41\x00" * sk["pushes"]
    body += b"\x1a" * max(0, sk["pushes"] - nres)
    body += b"\x0b"
    code = vec(locals_decl) + bytes(body)
    secs[10] = section(10, vec([uleb(len(code)) + code]))
    if sk["dataLen"] > 0:
        secs[11] = section(11, vec([b"\x00\x41" + sleb(sk["dataOff"]) + b"\x0b" + uleb(sk["dataLen"]) + b"\xaa" * sk["dataLen"]]))
    order = sorted(secs)
    so = sk["sectionOrder"]
    if so == "swapped":
        i = order.index(7)
        order[i], order[i - 1] = order[i - 1], order[i]
    for sid in order:
        out += secs[sid]
        if so == "duplicate" and sid == 1:
            out += secs[sid]
    if so == "unknown_id":
        out += section(13, b"\x00")
    if so == "trailing":
        out += b"\x0b"
    return bytes(out), "e" + "a" * max(0, sk["nameLen"] - 1), nparams


def parse_sections(b):
    """Best-effort split of a valid module into (id, start, end) triples."""
    pos = 8
    secs = []
    while pos < len(b):
        sid = b[pos]
        p = pos + 1
        n = 0
        shift = 0
        while True:
            x = b[p]
            p += 1
            n |= (x & 0x7F) << shift
            shift += 7
            if not (x & 0x80):
                break
        secs.append((sid, pos, p + n))
        pos = p + n
    return secs


def apply_script(wasm, script):
    b = bytearray(wasm)
    for st in script:
        if not b:
            break
        k, pos, val = st["k"], st["pos"], st["val"]
        i = min(len(b) - 1, pos * len(b) // 1000)
        if k == "flip":
            b[i] ^= (1 << (val % 8))
        elif k == "set_byte":
            b[i] = val
        elif k == "truncate":
            b = b[: max(1, i)]
        elif k == "insert":
            b[i:i] = bytes([val])
        elif k == "inflate_leb":
            # make the byte at i a continuation byte followed by a padding group (non-minimal / longer LEB)
            b[i] |= 0x80
            b[i + 1:i + 1] = bytes([val & 0x7F])
        elif k == "grow_count":
            b[i] = min(255, b[i] + 1 + val % 3)
        elif k in ("drop_section", "dup_section", "swap_sections"):
            try:
                secs = parse_sections(bytes(b))
            except Exception:
                continue
            if not secs:
                continue
            j = (pos * len(secs)) // 1000
            sid, s, e = secs[j]
            if k == "drop_section":
                del b[s:e]
            elif k == "dup_section":
                b[e:e] = b[s:e]
            elif j + 1 < len(secs):
                _, s2, e2 = secs[j + 1]
                b[s:e2] = b[s2:e2] + b[s:e]
    return bytes(b)
