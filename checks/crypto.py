"""Checks of the cryptography family (C20, C19, C07, C12, C11, C08, C18).
Specs: spec/crypto/*.tla; harness: harness/base (subcommands c20-replay, ...)."""
import json
import os
from concurrent.futures import ThreadPoolExecutor

import vlib
from vlib import ToolError, replay_behaviours, write_ndjson, read_ndjson

SPEC = "crypto"


def parallel_replay(ctx, subcmd, rows, name, parts=8, extra_args=None, classify=None):
    """Split the rows over several harness processes; merges the action histograms."""
    rows = list(rows)
    n = max(1, min(parts, len(rows) // (4 if subcmd in ("c12-replay", "c11-replay", "c08-replay", "c18-replay", "c18v1-replay") else 50) or 1))
    chunks = [rows[i::n] for i in range(n)]
    def one(iv):
        i, part = iv
        return replay_behaviours(ctx, "base", subcmd, part, "%s_%d" % (name, i), extra_args=extra_args, classify=classify)
    with ThreadPoolExecutor(max_workers=n) as ex:
        outs = list(ex.map(one, enumerate(chunks)))
    hist = {}
    bad = []
    for summary, b in outs:
        for k, v in summary["by_action"].items():
            hist[k] = hist.get(k, 0) + v
        bad += b
    return hist, bad


def embed_limb(model_limb, limb_bits, fill):
    """A model limb of limb_bits bits -> a 64-bit limb: the low 2 bits stay at the bottom, the remaining high bits
    go to the top, the middle is filled with zeros, ones or an alternating pattern."""
    low = model_limb & 3
    high = model_limb >> 2
    hb = limb_bits - 2
    mid_bits = 64 - 2 - hb
    mid = {0: 0, 1: (1 << mid_bits) - 1, 2: int("01" * 32, 2) & ((1 << mid_bits) - 1)}[fill]
    return (high << (64 - hb)) | (mid << 2) | low


def run_c20(ctx):
    quick = ctx.tier == "quick"
    rows = []
    # 1. the recoding algorithm, exhaustively at reduced limb widths
    wn = ctx.tlc(SPEC, "Wnaf.tla", "Wnaf_export.cfg", workers=4, timeout=900)
    for cfgname in (["Wnaf_b.cfg"] if quick else ["Wnaf_b.cfg", "Wnaf_c.cfg", "Wnaf_d.cfg"]):
        ctx.tlc(SPEC, "Wnaf.tla", cfgname, workers=4, timeout=1800)
    model_scalars = [json.loads(s) for s in wn.replays]
    if len(model_scalars) < 500:
        raise ToolError("Wnaf export too small")
    n = 0
    for m in model_scalars:
        for fill in (0, 1, 2):
            for off in (0, 1, 2):
                if quick and (m["scalar"] + fill + off) % 3 != 0:
                    continue
                limbs = [0, 0, 0, 0]
                for i, l in enumerate(m["limbs"]):
                    limbs[off + i] = embed_limb(l, m["limb_bits"], fill)
                rows.append({"kind": "wnaf", "limbs": ["%x" % x for x in limbs], "model": m["scalar"], "fill": fill, "off": off, "idx": n})
                n += 1
    # 2. meaning of multi-exponentiation
    me = ctx.tlc(SPEC, "MultiExp.tla", "MultiExp.cfg", workers=4, timeout=900)
    for i, s in enumerate(me.replays):
        d = json.loads(s)
        d["idx"] = i
        if quick and len(d["vec"]) == 2 and i % 2 == 1:
            continue
        rows.append(d)
    import re
    for line in open(os.path.join(ctx.work, "tlc_MultiExp.out")):
        m = re.match(r'^<<"ROWS", (".*")>>', line.strip())
        if m:
            rows += json.loads(json.loads(m.group(1)))
    # 3. secret sharing
    ctx.tlc(SPEC, "Shamir.tla", "Shamir.cfg" if quick else "Shamir_big.cfg", workers=8, timeout=3000)
    sh = ctx.tlc(SPEC, "Shamir.tla", "Shamir_export.cfg", workers=4, timeout=900)
    rows += [json.loads(s) for s in sh.replays]
    for line in open(os.path.join(ctx.work, "tlc_Shamir_export.out")):
        m = re.match(r'^<<"ROWS", (".*")>>', line.strip())
        if m:
            rows += json.loads(json.loads(m.group(1)))
            break
    # 4. encodings, 5. key derivation
    pe = ctx.tlc(SPEC, "PointEnc.tla", "PointEnc.cfg", workers=4, timeout=900)
    for s in pe.replays:
        d = json.loads(s)
        d["kind"] = d["row"]["kind"]
        rows.append(d)
    hd = ctx.tlc(SPEC, "HdPath.tla", "HdPath.cfg", workers=8, timeout=1800)
    rows += [json.loads(s) for s in hd.replays]
    ctx.exhaustive = True
    hist, bad = parallel_replay(ctx, "c20-replay", [json.dumps(r) for r in rows], "c20", parts=12)
    ctx.extra["row_histogram"] = hist
    need = {"wnaf": 400, "multiexp": 1000, "vec_commit": 100, "threshold": 10, "shamir:secret": 300, "shamir:unrelated": 300, "bls:accept": 10, "bls:reject": 100,
            "ristretto:reject": 10, "scalar:reject": 8, "hash": 50, "hdpath:ok": 1000, "hdpath:err": 300}
    for k, v in need.items():
        if hist.get(k, 0) < v:
            raise ToolError("vacuous C20 run: %s = %s (< %s)" % (k, hist.get(k, 0), v))
    if hist.get("wnaf:not a scalar (skipped)", 0) > hist["wnaf"] // 3:
        raise ToolError("too many embedded scalars fall outside the field")
    # canaries: a flipped verdict and a wrong path must be flagged
    c1 = next(r for r in rows if r.get("kind") == "bls" and r["accept"])
    c1 = dict(c1, accept=False)
    c2 = next(r for r in rows if r.get("kind") == "hdpath" and r["ok"])
    c2 = dict(c2, path=c2["path"][:-1] + [c2["path"][-1] + 1])
    c3 = next(r for r in rows if r.get("kind") == "multiexp" and len(r["sum"]) == 2)
    c3 = dict(c3, sum=c3["sum"][:1])
    inp = os.path.join(ctx.work, "canary.ndjson")
    outp = os.path.join(ctx.work, "canary.res")
    write_ndjson(inp, [c1, c2, c3])
    ctx.harness("base", ["c20-replay", inp, outp])
    flagged = {x["idx"] for x in read_ndjson(outp) if not x.get("summary")}
    if flagged != {0, 1, 2}:
        raise ToolError("canary: altered expectations not all flagged (%s)" % sorted(flagged))
    ctx.extra["canary"] = "flipped decoder verdict, wrong derivation path and truncated formal sum all flagged"
    ctx.rule = ("rows exported by TLC from Wnaf (every scalar of the scaled model embedded into 256-bit scalars with 3 fill patterns and 3 limb offsets, "
                "window sizes 1..7), MultiExp (all vectors up to length 2 over 5 point classes x 14 scalar classes plus long vectors), Shamir (every points set, "
                "threshold and revealed subset for Q=7, n<=4, under 3 point embeddings), PointEnc (full decision table) and HdPath (every getter call of the "
                "argument grid on both networks); distinct = distinct rows")
    ctx.assumptions += ["single scalar multiplication, point addition and field arithmetic of arkworks / curve25519-dalek are the trusted base",
                        "Wnaf recoding is model-checked exhaustively at limb widths 4-6 bits (2-3 limbs), not at 64 bits; the 64-bit code is compared with the naive sum on the embedded patterns"]


def run_c19(ctx):
    quick = ctx.tier == "quick"
    rows = []
    sa = ctx.tlc(SPEC, "SigAgg.tla", "SigAgg.cfg" if quick else "SigAgg_big.cfg", workers=4, timeout=1800)
    rows += [json.loads(s) for s in sa.replays]
    vr = ctx.tlc(SPEC, "Vrf.tla", "Vrf.cfg", workers=4, timeout=900)
    rows += [json.loads(s) for s in vr.replays]
    ps = ctx.tlc(SPEC, "PsSig.tla", "PsSig.cfg", workers=4, timeout=900)
    rows += [json.loads(s) for s in ps.replays]
    ctx.exhaustive = True
    hist, bad = parallel_replay(ctx, "c19-replay", [json.dumps(r) for r in rows], "c19", parts=14)
    ctx.extra["row_histogram"] = hist
    need = {"bls_agg": 200, "verify_aggregate_sig:true": 50, "verify_aggregate_sig:false": 1000, "verify_aggregate_sig_hybrid:true": 100,
            "verify_aggregate_sig_trusted_keys:true": 30, "verify:true": 5, "bls_pop:true": 4, "bls_pop:false": 50, "dlog_ed25519:true": 4,
            "vrf:true": 4, "vrf:false": 100, "vrf_flip": 20, "vrf_key:false": 8, "vrf_key:true": 1, "dlog_ed25519_enc:false": 3, "dlog_ed25519_enc:true": 1, "ps_sig:true": 100, "ps_sig:false": 1000}
    for k, v in need.items():
        if hist.get(k, 0) < v:
            raise ToolError("vacuous C19 run: %s = %s (< %s)" % (k, hist.get(k, 0), v))
    # canaries
    c1 = next(r for r in rows if r.get("kind") == "vrf" and r["accept"])
    c1 = dict(c1, accept=False)
    c2 = next(r for r in rows if r.get("kind") == "ps_sig" and r["verifies"])
    c2 = dict(c2, verifies=False)
    c3 = json.loads(json.dumps(next(r for r in rows if r.get("kind") == "bls_agg" and len(r["rows"]) > 5)))
    k0 = sorted(c3["rows"])[0]
    c3["rows"][k0]["hybrid"] = not c3["rows"][k0]["hybrid"]
    inp = os.path.join(ctx.work, "canary.ndjson")
    outp = os.path.join(ctx.work, "canary.res")
    write_ndjson(inp, [c1, c2, c3])
    ctx.harness("base", ["c19-replay", inp, outp])
    flagged = {x["idx"] for x in read_ndjson(outp) if not x.get("summary")}
    if flagged != {0, 1, 2}:
        raise ToolError("canary: altered expectations not all flagged (%s)" % sorted(flagged))
    ctx.extra["canary"] = "flipped VRF verdict, PS verdict and hybrid-aggregate verdict all flagged"
    ctx.rule = ("SigAgg: every aggregate of up to 3 signatures over 3 keys x 3 messages (multiplicities included), each checked against every claim in its neighbourhood "
                "(honest, reordered, one pair dropped / added, one key or message replaced) with all four verifiers; Vrf: full table (prover key, message) x (verifier key, message) x tampering, "
                "bit flips of the encoded proof, proofs of possession and ed25519 dlog proofs (key, context) x (key, context) x tampering; PsSig: every message vector of length 0..4 over "
                "{0, a, b} for a key of length 3, known and blind issuance (right / wrong unblinding randomness), verified against every neighbouring vector; distinct = distinct rows")
    ctx.assumptions += ["unforgeability is not decided: 'under no other key or message' is checked for the enumerated mismatches and perturbations",
                        "keys are fixed pseudo-random keys (seeded); messages are three byte strings (empty, short, 300 bytes)"]


def run_c12(ctx):
    quick = ctx.tier == "quick"
    ctx.tlc(SPEC, "EncAmount.tla", "EncAmount.cfg", workers=8, timeout=3000)
    ctx.tlc(SPEC, "EncAmount.tla", "EncAmount_big.cfg", workers=8, timeout=3000)
    ctx.exhaustive = True
    rows = []
    for r in ctx.tlc_parallel_sim(SPEC, "EncAmount.tla", "EncAmount_sim.cfg", "encamount_sim", 1200 if quick else 12000, 6, procs=4):
        rows += [json.loads(x) for x in r.replays]
    # scenarios with at least one transfer that goes through; the chunk boundaries come from the embedding of model amounts
    good = [r for r in rows if any(o["op"] != "deposit" and o["ok"] for o in r["ops"])]
    seen = set()
    uniq = []
    for r in good:
        k = json.dumps(r["ops"], sort_keys=True)
        if k not in seen:
            seen.add(k)
            uniq.append(r)
    uniq = uniq[: (36 if quick else 600)]
    # deposits only (fast): aggregation and decryption over all model amounts
    dep = [r for r in rows if all(o["op"] == "deposit" or not o["ok"] for o in r["ops"])][: (60 if quick else 600)]
    allrows = []
    for i, r in enumerate(uniq + dep):
        r = dict(r, idx=i)
        allrows.append(json.dumps(r))
    hist, bad = parallel_replay(ctx, "c12-replay", allrows, "c12", parts=14)
    # parallel_replay only splits lists of >= 50 rows per part; rows are few but slow, so split finer
    ctx.extra["row_histogram"] = hist
    need = {"deposit": 60, "transfer:true": 8, "transfer:false": 5, "sec_to_pub:true": 8, "transfer_tamper": 60, "sec_to_pub_tamper": 40}
    for k, v in need.items():
        if hist.get(k, 0) < v:
            raise ToolError("vacuous C12 run: %s = %s (< %s)" % (k, hist.get(k, 0), v))
    # canary: a scenario whose specification verdict is flipped must be flagged
    c = {"kind": "enc_amount", "w": 2, "idx": 0, "fields": ["none"], "s2p_fields": ["none"],
         "ops": [{"op": "deposit", "a": 3, "lo": 3, "hi": 0, "decryptable": True, "plain": 3}, {"op": "sec_to_pub", "a": 9, "ok": True, "remaining": 0, "transferred": 0, "before": 3}]}
    inp = os.path.join(ctx.work, "canary.ndjson")
    outp = os.path.join(ctx.work, "canary.res")
    write_ndjson(inp, [c])
    ctx.harness("base", ["c12-replay", inp, outp])
    if not [x for x in read_ndjson(outp) if not x.get("summary")]:
        raise ToolError("canary: flipped overdraft verdict not flagged")
    ctx.extra["canary"] = "flipped overdraft verdict flagged"
    ctx.rule = ("EncAmount.tla model-checked for all amounts at chunk width 2 (exhaustive over 3 operations) and 3 (state graph): chunk sums denote the balance, decryption inverts encryption, "
                "conservation, no overdraft. Random behaviours of 4 operations (deposits aggregated, encrypted transfers, transfers to public) are replayed with amounts embedded chunk-wise "
                "into u64 (0, 1, 2^32-2, 2^32-1 per chunk): decrypt(encrypt) and decrypt(aggregate), existence of a transfer iff amount <= balance, verification, conservation via decryption, "
                "and rejection under each of the tamper fields of the specification; distinct = distinct scenarios")
    ctx.assumptions += ["expected values are computed by the harness from the rules that TLC checks on the scaled model (the chunk-wise embedding is not additive)",
                        "the index is not part of the proof: tampering with it is modelled as the verifier aggregating one more incoming amount into the balance (documented design of the code)",
                        "chunk sums beyond 2^33 are outside the property (decryption by table lookup)"]


SIGMA_PROTOCOLS = ["dlog", "aggregate_dlog", "dlog_eq", "com_eq", "com_eq_different_groups", "com_enc_eq", "vcom_eq", "com_lin", "com_mult", "and_dlog_com_eq", "replicate_dlog", "enc_trans", "com_eq_sig"]
SIGMA_BOUND = {"dlog", "aggregate_dlog", "com_eq", "com_eq_different_groups", "com_enc_eq", "vcom_eq", "com_mult", "and_dlog_com_eq", "replicate_dlog", "enc_trans", "com_eq_sig"}


def run_c07(ctx):
    import re
    quick = ctx.tier == "quick"
    rows = []
    # (a) framing
    ctx.tlc(SPEC, "Transcript.tla", "Transcript.cfg", workers=8, timeout=3000)
    te = ctx.tlc(SPEC, "Transcript.tla", "Transcript_export.cfg", workers=4, timeout=3000)
    rows += [json.loads(x) for x in te.replays]
    # (b) the protocols as linear maps over a small field
    def one(p):
        cfg = "Sigma_%s.cfg" % p if quick or p not in ("com_lin", "com_mult", "enc_trans", "com_eq_sig") else "Sigma_%s_full.cfg" % p
        return p, ctx.tlc(SPEC, "Sigma.tla", cfg, name="Sigma_" + p, workers=2, timeout=6000)
    with ThreadPoolExecutor(max_workers=6) as ex:
        runs = list(ex.map(one, SIGMA_PROTOCOLS))
    for p, r in runs:
        out = os.path.join(ctx.work, "tlc_Sigma_%s.out" % p)
        found = False
        for line in open(out):
            m = re.match(r'^<<"ROWS", (".*")>>', line.strip())
            if m:
                found = True
                if p in SIGMA_BOUND:
                    rows += json.loads(json.loads(m.group(1)))
        if not found:
            raise ToolError("no rows exported for protocol %s" % p)
    ctx.exhaustive = True
    for i, r in enumerate(rows):
        r["idx"] = i
    hist, bad = parallel_replay(ctx, "c07-replay", [json.dumps(r) for r in rows], "c07", parts=14)
    ctx.extra["row_histogram"] = hist
    if hist.get("transcript", 0) < 1000:
        raise ToolError("vacuous C07 run: transcript rows %s" % hist.get("transcript", 0))
    for p in SIGMA_BOUND:
        if hist.get(p + ":accept", 0) < 3 or hist.get(p + ":reject", 0) < 15:
            raise ToolError("vacuous C07 run for %s: %s / %s" % (p, hist.get(p + ":accept", 0), hist.get(p + ":reject", 0)))
    # canary: altered byte stream of a transcript row must be flagged
    c = json.loads(json.dumps(next(r for r in rows if r.get("kind") == "transcript" and r["v1"])))
    c["v1"] = c["v1"] + [0]
    c["legacy"] = c["legacy"] + [0]
    inp = os.path.join(ctx.work, "canary.ndjson")
    outp = os.path.join(ctx.work, "canary.res")
    write_ndjson(inp, [c])
    ctx.harness("base", ["c07-replay", inp, outp])
    if not [x for x in read_ndjson(outp) if not x.get("summary")]:
        raise ToolError("canary: altered transcript bytes not flagged")
    ctx.extra["canary"] = "altered transcript byte stream flagged"
    ctx.extra["protocols_model_checked"] = SIGMA_PROTOCOLS
    ctx.extra["protocols_bound_to_code"] = sorted(SIGMA_BOUND)
    ctx.rule = ("Transcript.tla: all pairs of operation sequences of the same shape up to 2 operations over 6 labels / 7 items (V1 framing injective), every single sequence replayed on "
                "TranscriptProtocolV1 and RandomOracle against SHA3-256 of the specified bytes. Sigma.tla: each protocol as a matrix of group elements over Z_5 / Z_3, all witnesses, "
                "randomness vectors and challenges (completeness, response and statement binding, special soundness); rows = (protocol, one witness component at 0 / 1 / r-1 or all random or all zero, "
                "perturbation target in {none, context, challenge, each public input, each response component}) replayed on BLS12-381 with the legacy and the V1 transcript; distinct = distinct rows")
    ctx.assumptions += ["dlog_eq (private type) and com_lin (secret not constructible from outside the crate) are model-checked but not replayed; ps_sig_known and com_ineq are exercised through C08 / C12 / C18; the blinding randomness of com_eq_sig is drawn by the library (no public constructor), so the boundary class of its first witness component is not controlled",
                        "soundness and zero-knowledge are cryptographic statements outside TLC: the model shows the equations over small fields, the replay shows the code accepts / rejects on the enumerated classes"]


def _row_check(ctx, subcmd, rows, name, need, parts=14, classify=None):
    for i, r in enumerate(rows):
        r["idx"] = i
    hist, bad = parallel_replay(ctx, subcmd, [json.dumps(r) for r in rows], name, parts=parts, classify=classify)
    ctx.extra["row_histogram"] = hist
    for k, v in need.items():
        got = sum(n for kk, n in hist.items() if kk == k or kk.startswith(k))
        if got < v:
            raise ToolError("vacuous %s run: %s = %s (< %s)" % (ctx.prop, k, got, v))
    return hist


def _canary(ctx, subcmd, row):
    inp = os.path.join(ctx.work, "canary.ndjson")
    outp = os.path.join(ctx.work, "canary.res")
    write_ndjson(inp, [row])
    ctx.harness("base", [subcmd, inp, outp])
    if not [x for x in read_ndjson(outp) if not x.get("summary")]:
        raise ToolError("canary: altered expectation not flagged")


def run_c11(ctx):
    quick = ctx.tier == "quick"
    r = ctx.tlc(SPEC, "RangeStmt.tla", "RangeStmt.cfg", workers=4, timeout=900)
    rows = [json.loads(x) for x in r.replays]
    ctx.exhaustive = True
    if quick:
        rows = [x for i, x in enumerate(rows) if x["row"]["perturb"] != "none" or x["accept"] or i % 2 == 0]
    _row_check(ctx, "c11-replay", rows, "c11", {"range:accept": 20, "range:false": 20, "range:perturbed": 8, "leq:accept": 10, "leq:false": 10, "interval:accept": 5, "interval:false": 10,
                                                  "in_set:accept": 5, "in_set:false": 5, "not_in_set:accept": 5, "not_in_set:false": 5}, parts=14)
    c = json.loads(json.dumps(next(x for x in rows if x["row"]["kind"] == "leq" and x["accept"])))
    c["accept"] = False
    _canary(ctx, "c11-replay", c)
    ctx.extra["canary"] = "flipped verdict of a true less-or-equal statement flagged"
    ctx.rule = ("RangeStmt.tla: range statements for n in {1,2,8,16,32,64} over 11 boundary values (0 .. 2^64-1), batches of 1 / 2 / 4 values, sizes the inner-product argument does not support "
                "(n*m not a power of two), less-or-equal for n in {8, 64}, intervals [a, b), set membership and non-membership for sets of 1..8 elements, each with the perturbations "
                "{commitment, n, transcript, generators, key, proof bytes, swapped commitments, bounds, set}; both proof versions; distinct = distinct rows")
    ctx.assumptions += ["no claim about adversarial provers beyond calling the real prover with false statements (whatever it outputs must not verify)"]


def run_c08(ctx):
    quick = ctx.tier == "quick"
    r = ctx.tlc(SPEC, "IdIssuance.tla", "IdIssuance.cfg" if quick else "IdIssuance_big.cfg", workers=8, timeout=3000)
    rows = [json.loads(x) for x in r.replays]
    ctx.exhaustive = True
    rows = [x for x in rows if len(x["ops"]) >= 2]
    # decrypting a PRF key share is eight 32-bit discrete logarithms: behaviours containing a revoke_prf step are sampled separately
    heavy = lambda x: any(o["op"] == "revoke_prf" for o in x["ops"])
    prf = sorted((x for x in rows if heavy(x)), key=lambda x: (sum(1 for o in x["ops"] if o["op"] == "revoke_prf"), json.dumps(x, sort_keys=True)))
    prf = [x for x in prf if sum(1 for o in x["ops"] if o["op"] == "revoke_prf") == 1]
    rows = [x for x in rows if not heavy(x)]
    rows.sort(key=lambda x: json.dumps(x, sort_keys=True))
    if quick:
        rows = [x for i, x in enumerate(rows) if (len(x["ops"]) == 2 and i % 2 == 0) or i % 7 == 0 or x["ops"][-1].get("perturb") == "extra_sharing_coeff" and i % 2 == 0]
    else:
        rows = [x for i, x in enumerate(rows) if i % 18 == 0]
    want = 28 if quick else 160
    rows += prf[:: max(1, len(prf) // want)][:want + 8]
    # revocation by many shares: five revokers under identities near 2^32, thresholds 4 and 5
    rv = ctx.tlc(SPEC, "IdIssuance.tla", "IdIssuance_rev.cfg", workers=8, timeout=3000)
    big = [json.loads(x) for x in rv.replays]
    big = sorted((x for x in big if len(x["ops"]) == 3 and x["ops"][-1]["op"] == "revoke"), key=lambda x: json.dumps(x, sort_keys=True))
    rows += big[:: (6 if quick else 1)]
    _row_check(ctx, "c08-replay", rows, "c08", {"request:v0": 50, "request:v1": 50, "create:true": 100, "create:false": 20, "verify:none": 20, "verify:bitflips": 20, "bitflip": 200,
                                                 "verify:other_ip": 10, "verify:other_ar_key": 10, "verify:swap_ar_data": 4, "verify:extra_sharing_coeff": 10, "revoke:true": 20, "revoke:false": 5, "request:v0:4of5": 2, "request:v1:5of5": 2,
                                                 "revoke_prf:true": 8, "revoke_prf:false": 1, "recover:none": 5, "recover:timestamp": 3, "recover:other_ip_identity": 3, "recover:other_ip_key": 3,
                                                 "recover:other_global": 3, "recover:id_cred_pub": 3, "recover:proof": 3}, parts=14)
    c = json.loads(json.dumps(next(x for x in rows if x["ops"][-1]["op"] == "revoke" and x["ops"][-1]["ok"] and x["ops"][1]["ok"])))
    c["ops"][-1]["ok"] = False
    _canary(ctx, "c08-replay", c)
    ctx.extra["canary"] = "flipped revocation verdict flagged"
    ctx.rule = ("IdIssuance.tla: every transition of the graph request(version, chosen revokers, threshold) -> create(counter in {0, 1, max, max+1}, revealed subset, new / existing account) -> "
                "verify(perturbation) | revoke(subset) | revoke_prf(subset) | recover(perturbation) for N revokers (2 quick, 3 thorough; sampled); each behaviour replayed end to end with fresh holder secrets: identity request accepted by the "
                "provider (v0 incl. the initial account credential on chain), credential creation iff counter <= max_accounts, chain verification iff unperturbed (ten single-bit flips of the "
                "encoding per behaviour at varying positions, other provider / revoker key / global context / address / expiry, swapped revoker data, one more sharing-coefficient commitment than the threshold re-signed by the holder), reconstruction of the public identity credential "
                "iff at least threshold revokers decrypt; reconstruction of the PRF key from the shares encrypted in the identity request (eight 32-bit chunks per revoker, sampled behaviours) "
                "iff at least threshold revokers decrypt; identity recovery requests validate iff provider identity and key, chain parameters, time, public identity credential and proof are untouched; "
                "distinct = distinct behaviours")
    ctx.assumptions += ["attribute lists have three attributes; identity provider and revoker keys are fixed seeded keys"]


def run_c18(ctx):
    quick = ctx.tier == "quick"
    r = ctx.tlc(SPEC, "Statements.tla", "Statements.cfg", workers=4, timeout=900)
    rows = [json.loads(x) for x in r.replays]
    ctx.exhaustive = True
    if quick:
        rows = [x for i, x in enumerate(rows) if x["perturb"] != "none" and i % 3 == 0 or x["perturb"] == "none" and i % 5 == 0
                or (x["perturb"] in ("challenge", "credential") and x["stmt"] and x["stmt"][0]["k"] == "in_range" and i % 2 == 0)
                or x["via"] == "mixed_presentation" or not x["stmt"] or x["perturb"] == "proof_truncated" and i % 2 == 0]
    def classify(rec, beh):
        # R1: Version1 (even row index) range-only statements are not bound to challenge / credential
        b = json.loads(beh) if isinstance(beh, str) else beh
        if (b["idx"] % 2 == 0 and b["perturb"] in ("challenge", "credential") and b["stmt"] and b["via"] == "commitments" and all(a["k"] == "in_range" for a in b["stmt"])
                and rec.get("exp") is False and rec.get("got") is True):
            return "v1-range-proof-unbound"
        return None
    _row_check(ctx, "c18-replay", rows, "c18", classify=classify, need={"reveal:accept": 2, "in_range:accept": 5, "in_range:false": 10, "in_set:accept": 4, "in_set:false": 10, "not_in_set:accept": 10,
                                                 "not_in_set:false": 4, "in_range:perturbed": 10, "in_set:perturbed": 5, "account_presentation:accept": 5, "account_presentation:perturbed": 20,
                                                 "web3_presentation:accept": 5, "web3_presentation:perturbed": 20, "web3_presentation:false": 20, "mixed_presentation:accept": 2, "mixed_presentation:perturbed": 5}, parts=14)
    c = json.loads(json.dumps(next(x for x in rows if x["accept"] and x["stmt"] and x["stmt"][0]["k"] == "in_range")))
    c["accept"] = False
    c["truth"] = False
    _canary(ctx, "c18-replay", c)
    ctx.extra["canary"] = "flipped verdict of a true range statement flagged"
    # ---- V1 presentations against an anchored request (PresentationV1.tla)
    first_hist = ctx.extra.get("row_histogram")
    r1 = ctx.tlc(SPEC, "PresentationV1.tla", "PresentationV1_pairs.cfg", name="PresentationV1", workers=4, timeout=900)
    v1rows = sorted((json.loads(x) for x in r1.replays), key=lambda x: json.dumps(x, sort_keys=True))
    if len(v1rows) < 3000:
        raise ToolError("PresentationV1 export too small: %d" % len(v1rows))
    def ndev(x):
        return sum(1 for k, v in x["sc"].items() if v != V1_DEFAULT[k])
    if quick:
        v1rows = [x for i, x in enumerate(v1rows) if ndev(x) <= 1 or i % 3 == 0 or x["sc"]["issuers"] != "exact" or x["sc"]["sources"] != "both"]
    v1hist = _row_check(ctx, "c18v1-replay", v1rows, "c18v1", need={"account:verified": 20, "identity:verified": 20, "account:false": 50, "identity:false": 50, "account:PresentationUnverifiable": 10,
                        "identity:PresentationUnverifiable": 10, "account:CredentialIssuer": 10, "identity:CredentialIssuer": 10, "account:CredentialType": 5, "identity:CredentialType": 5,
                        "account:SubjectClaims": 10, "identity:SubjectClaims": 10, "account:RequestAnchor": 10, "account:ContextInformation": 10, "account:Network": 5, "account:CredentialExpired": 5,
                        "account:CredentialNotValidYet": 2, "account:NoVraBlockHash": 2, "account:VraBlockHash": 2, "account:InvalidContextPropertyValue": 2, "account:UnknownContextProperty": 2,
                        "roundtrip": 10, "audit": 10, "timevals": 10}, parts=14)
    ctx.extra["row_histogram"] = first_hist
    ctx.extra["v1_row_histogram"] = v1hist
    ctx.extra["v1_rows"] = len(v1rows)
    c = json.loads(json.dumps(next(x for x in v1rows if x["expected"] == "Verified" and x["kind"] == "identity")))
    c["expected"] = "CredentialIssuer"
    c["failing"] = ["CredentialIssuer"]
    _canary(ctx, "c18v1-replay", c)
    ctx.rule = ("Statements.tla: attribute lists over 12 ordered values (length-then-lexicographic order of the field encoding), statements of one atom (reveal, range with every lower / upper "
                "combination around the value, membership and non-membership in sets of 1..5 values) and of two atoms about different attributes, perturbations {challenge, credential, commitments, "
                "statement, proof bytes, proof version}; both proof versions; the same statements inside web3id presentations about an account credential and about a web3 credential with "
                "perturbations {context, public data (commitments / issuer key), credential id / holder, statement, proof borrowed from another presentation, linking proof borrowed}; "
                "PresentationV1.tla: the V1 format - the verification pipeline of verify_presentation_with_request_anchor as one action per check (network, validity period, anchor hash, anchor block "
                "hash, proofs, context, claims per position: credential kind, issuer, statements) with the invariants 'verified iff no check fails', 'the named failure is a failing check', "
                "'verified implies every requested statement true, allowed kind and issuer, valid, made for this request'; every scenario with at most two deviations from the honest one over 12 "
                "fields (about 60 alternative values: networks, five times around the validity period, five anchored-data differences, seven given-context and seven requested-context variants, "
                "twelve alterations of the presentation or verification material after proving, claim counts 0..2, allowed kinds, seven issuer lists, four request/statement mismatches) for account "
                "based and identity based credentials (identity objects issued with real keys), plus 150 statements (equals / range / set atoms over string, numeric and date-time attributes at the boundaries; date-times from the earliest to the latest representable instant, their "
                "conversion to attribute values must be invertible and order preserving) with three attribute lists; each row proved with RequestV1::prove_with_rng and verified; the verdict kind is compared when exactly one check fails; JSON and binary round trip of "
                "every third presentation; audit record of every fourth verified exchange (anchor differs when id, request or presentation differ; CBOR / JSON / binary round trips of anchors, record and request); distinct = distinct rows")
    ctx.assumptions += ["presentations are bound for account and web3 credentials of web3id (Request::prove_with_rng / Presentation::verify incl. issuer-signed commitments and linking signatures); V1 presentations (web3id::v1) for account based and identity based credentials incl. the anchored-request verification",
                        "an account credential's id is not part of the proof (the verifier looks the commitments up by it): 'another credential id' is replayed as verification against that credential's commitments",
                        "commitments are built from the attribute values directly (the commitments of a deployed credential are the same Pedersen commitments)"]


V1_DEFAULT = {"cred_net": "T", "ctx_net": "T", "time": "inside", "anchor": "ok", "pres_given": "same", "req_requested": "bh", "pres_requested": "filled", "crypto": "none",
              "claims": "one", "sources": "both", "issuers": "exact", "req_stmt": "same"}


RUNNERS = {"C20": run_c20, "C19": run_c19, "C12": run_c12, "C07": run_c07, "C11": run_c11, "C08": run_c08, "C18": run_c18}


def run(ctx):
    ctx.build("base")
    if ctx.prop not in RUNNERS:
        raise ToolError("no check for %s" % ctx.prop)
    return RUNNERS[ctx.prop](ctx)


SUBCMD = {"C20": "c20-replay", "C19": "c19-replay"}


def replay(prop, path, seed):
    with open(path) as f:
        rp = json.load(f)["replay"]
    ctx = vlib.Ctx(prop + "_replay", "quick", seed)
    ctx.prop = prop
    ctx.build("base")
    summary, bad = replay_behaviours(ctx, "base", rp["subcmd"], [json.dumps(rp["behaviour"])], "replay", extra_args=rp.get("args") or None)
    print("replayed 1 row: %s" % ("VIOLATION reproduced" if bad else "no disagreement"))
    return 1 if bad else 0
