"""Checks of the Wasm family: C01 (conformance to the Wasm semantics), C02 (metering), C09 (validation),
C13 (artifacts / interrupts).  Specs: spec/wasm/*.tla + spec/lib/ALU.tla; harness: harness/engine."""
import json
import os

import vlib
import wasmasm
from vlib import ToolError, replay_behaviours, write_ndjson, read_ndjson

SPEC = "wasm"


def programs_from_tlc(res):
    """TLC output of a WasmGen run -> list of program records for `wasm-run`."""
    tpl = res.tagged.get("TEMPLATE")
    if not tpl:
        raise ToolError("no TEMPLATE line in TLC output %s" % res.out_path)
    t = json.loads(tpl[0])
    progs = []
    for s in res.replays:
        r = json.loads(s)
        m = json.loads(json.dumps(t["m"]))
        m["funcs"][t["gen"]]["body"] = r["body"]
        wasm = wasmasm.assemble(m, entry=t["entry"])
        progs.append({"wasm": wasm.hex(), "entry": "main", "signext": wasmasm.uses_signext(m), "runs": r["runs"],
                      "hostq": t.get("hostq", []), "body": r["body"]})
    return progs


GEN_CFG = """SPECIFICATION %(spec)s
CONSTANTS
  Template <- TemplateT
  GenIdx = 2
  EntryIdx = 1
  Alphabet <- AlphabetOf
  MaxLen = %(maxlen)d
  ArgSets <- ArgsT
  HostQ <- NoHostQ
  Fuel = %(fuel)d
  SignExt = TRUE
  Cfg = "%(cfg)s"
INVARIANT Export
CHECK_DEADLOCK FALSE
"""


def gen_programs(ctx, cfg, maxlen, name=None, spec="GSpec", simulate=None, depth=None, workers=8, fuel=400, timeout=3000):
    name = name or "gen_%s_%d" % (cfg, maxlen)
    cfg_path = os.path.join(ctx.work, name + ".cfg")
    with open(cfg_path, "w") as f:
        f.write(GEN_CFG % {"spec": spec, "maxlen": maxlen, "cfg": cfg, "fuel": fuel})
    if simulate:
        results = ctx.tlc_parallel_sim(SPEC, "MC_WasmGen.tla", cfg_path, name, simulate, depth, procs=6, timeout=timeout)
    else:
        results = [ctx.tlc(SPEC, "MC_WasmGen.tla", cfg_path, name=name, workers=workers, timeout=timeout)]
    progs = []
    for res in results:
        progs += programs_from_tlc(res)
    for p in progs:
        p["family"] = name
    return progs


def show_body(body):
    out = []
    for i in body:
        op = i["op"]
        if op == "const":
            out.append("%s.const %d" % ("i32" if i["t"] == 2 else "i64", wasmasm.limbs_signed(i["v"])))
        elif op in ("local.get", "local.set", "local.tee", "global.get", "global.set"):
            out.append("%s %d" % (op, i["i"]))
        elif op in ("br", "br_if"):
            out.append("%s %d" % (op, i["l"]))
        elif op in ("block", "loop", "if"):
            out.append(op + ("" if i["bt"] == 0 else " (result %s)" % ("i32" if i["bt"] == 2 else "i64")))
        elif op in ("binop", "relop", "unop"):
            out.append("%s.%s" % ("i32" if i["t"] == 2 else "i64", i["name"]))
        elif op == "eqz":
            out.append("%s.eqz" % ("i32" if i["t"] == 2 else "i64"))
        elif op == "cvt":
            out.append(i["name"])
        elif op in ("load", "store"):
            out.append("%s.%s%d%s off=%d" % ("i32" if i["t"] == 2 else "i64", op, 8 * i["n"], ("_s" if i.get("sx") else "") if op == "load" else "", wasmasm.limbs_unsigned(i["off"])))
        elif op == "call":
            out.append("call %d" % i["f"])
        elif op == "call_indirect":
            out.append("call_indirect (type %d)" % i["ty"])
        elif op == "br_table":
            out.append("br_table %s %d" % (i["ls"], i["d"]))
        else:
            out.append(op)
    return "; ".join(out)


def run_programs(ctx, progs, name, extra_args=None, chunk=2500, procs=8):
    """Run programs on the real engine (6 configurations) in parallel harness processes; classify disagreements."""
    from concurrent.futures import ThreadPoolExecutor
    total = {"behaviours": 0, "runs": 0, "bad": 0, "by_action": {}, "metered_runs": 0, "budget_runs": 0, "max_ratio": 0.0}
    nknown = 0
    jobs = []
    for c in range(0, len(progs), chunk):
        part = progs[c:c + chunk]
        inp = os.path.join(ctx.work, "%s_%d.ndjson" % (name, c))
        outp = os.path.join(ctx.work, "%s_%d.res" % (name, c))
        write_ndjson(inp, [{k: v for k, v in p.items() if k not in ("body", "family")} | {"code_len": p.get("code_len", 64)} for p in part])
        jobs.append((part, inp, outp))

    def one(job):
        part, inp, outp = job
        try:
            ctx.harness("engine", ["wasm-run", inp, outp] + (extra_args or []), timeout=1800)
            return None
        except Exception as e:
            return e

    with ThreadPoolExecutor(max_workers=procs) as ex:
        errors = list(ex.map(one, jobs))
    for (part, inp, outp), err in zip(jobs, errors):
        if err is not None:
            # a hang of the engine is a finding about the engine, not a tool error
            if "TimeoutExpired" in repr(err) or "timed out" in str(err):
                ctx.violation("the engine did not terminate on a chunk of %d generated programs (%s)" % (len(part), name),
                              {"kind": "wasm_chunk", "file": inp})
                continue
            raise err
        for rec in read_ndjson(outp):
            if rec.get("summary"):
                for k in ("behaviours", "runs", "bad", "metered_runs", "budget_runs"):
                    total[k] += rec.get(k, 0)
                total["max_ratio"] = max(total["max_ratio"], rec.get("max_steps_per_energy_and_instruction", 0.0))
                for k, v in rec["by_action"].items():
                    total["by_action"][k] = total["by_action"].get(k, 0) + v
                continue
            p = part[rec["idx"]]
            known = rec.get("known") or []
            what = "%s: config %s run %s args %s: %s (expected %s, got %s) | %s" % (
                p.get("family", name), rec.get("config"), rec.get("run"), json.dumps(rec.get("args")), rec.get("what"),
                json.dumps(rec.get("exp"))[:120], json.dumps(rec.get("got"))[:160], show_body(p.get("body", []))[:300])
            is_v = ctx.violation(what, {"kind": "wasm_program", "program": p, "detail": rec}, signature=(known[0] if known else None))
            if not is_v:
                nknown += 1
    ctx.traces += len(progs)
    for p in progs:
        ctx.note_case(p["wasm"])
    total["known_finding_hits"] = nknown
    return total


def merge_totals(a, b):
    for k in ("behaviours", "runs", "bad", "metered_runs", "budget_runs", "known_finding_hits"):
        a[k] = a.get(k, 0) + b.get(k, 0)
    a["max_ratio"] = max(a.get("max_ratio", 0.0), b.get("max_ratio", 0.0))
    for k, v in b["by_action"].items():
        a.setdefault("by_action", {})[k] = a.get("by_action", {}).get(k, 0) + v
    return a


def add_code_len(progs):
    for p in progs:
        p["code_len"] = 40 + len(p.get("body", []))
    return progs


def run(ctx):
    quick = ctx.tier == "quick"
    ctx.build("engine")
    prop = ctx.prop
    w = 8 if quick else 16
    ctx.assumptions += [
        "TLC 1.8 and the CommunityModules are trusted; the Wasm assembler checks/wasmasm.py (~230 lines) and the harness are trusted",
        "programs are instances of one module template (wrapper f, generated g, helpers h and k, 2 globals, 1-2 memory pages, 4-entry table) with generated bodies over focused alphabets",
        "i64 arithmetic is exact in the reference (limb arithmetic), but only boundary operands are enumerated",
    ]
    lens = {"ctl": 6, "ctl2": 5, "loop": 5, "mem": 4, "call": 4, "i64": 4} if quick else {"ctl": 7, "ctl2": 6, "loop": 6, "mem": 5, "call": 5, "i64": 5}
    from concurrent.futures import ThreadPoolExecutor
    jobs = [dict(cfg=cfg, maxlen=ml, workers=4) for cfg, ml in lens.items()]
    jobs.append(dict(cfg="alu", maxlen=0, name="alu_vectors", spec="FSpec", workers=6))
    jobs.append(dict(cfg="witness", maxlen=0, name="witnesses", spec="FSpec", workers=1))
    with ThreadPoolExecutor(max_workers=4) as ex:
        results = list(ex.map(lambda kw: gen_programs(ctx, **kw), jobs))
    witnesses = results.pop()
    progs = [p for r in results for p in r]
    ctx.exhaustive = True
    sim = gen_programs(ctx, "all", 14 if quick else 24, name="sim_all", simulate=(3000 if quick else 200000), depth=30, workers=w, fuel=600)
    progs += sim
    add_code_len(progs)
    add_code_len(witnesses)
    if len(progs) < 5000:
        raise ToolError("too few programs generated: %d" % len(progs))
    tot = run_programs(ctx, progs, "programs", extra_args=(["--nobudget"] if prop == "C01" else (["--budget-every", "5"] if quick else None)))
    # pinned witnesses of the recorded findings: printing KNOWN-FINDING while they reproduce, and a note when they stop
    wt = run_programs(ctx, witnesses, "witnesses", extra_args=["--nobudget"])
    ctx.extra["witnesses_run"] = len(witnesses)
    ctx.extra["witnesses_disagreeing"] = wt["bad"]
    recorded = [k["id"] for k in ctx.known if k.get("status") == "recorded"]
    gone = [k for k in recorded if k not in ctx.known_hits]
    if gone:
        print("NOTE: recorded finding(s) %s did not reproduce on this tree (entry should become 'fixed')" % gone)
        ctx.extra["recorded_findings_not_reproduced"] = gone
    merge_totals(tot, wt)
    ctx.extra["engine_runs"] = tot["runs"]
    ctx.extra["outcome_histogram"] = tot["by_action"]
    ctx.extra["known_finding_hits"] = tot["known_finding_hits"]
    ctx.extra["metered_runs"] = tot["metered_runs"]
    ctx.extra["budget_runs"] = tot["budget_runs"]
    ctx.extra["max_steps_per_energy_and_instruction"] = tot["max_ratio"]
    ctx.evaluations += tot["runs"]
    h = tot["by_action"]
    need = ["done:done", "trap:trap"] + (["fuel:out-of-energy"] if prop == "C02" else [])
    missing = [k for k in need if h.get(k, 0) == 0]
    if missing:
        raise ToolError("vacuous run: outcome classes never exercised: %s" % missing)
    if prop == "C02" and (tot["metered_runs"] < 1000 or tot["budget_runs"] < 1000):
        raise ToolError("vacuous run: too few metered/budget runs")
    # canary: a program whose expected result is altered must be flagged
    for p in progs:
        r0 = p["runs"][0]["out"]
        if r0["status"] == "done" and not r0.get("hz"):
            q = json.loads(json.dumps(p))
            q["runs"][0]["out"]["res"] = [[(r0["res"][0][0] + 1) % 65536] + r0["res"][0][1:]]
            if prop == "C02":
                q = json.loads(json.dumps(p))
                q["runs"][0]["out"]["w0"] += 1
            inp = os.path.join(ctx.work, "canary.ndjson")
            outp = os.path.join(ctx.work, "canary.res")
            write_ndjson(inp, [{k: v for k, v in q.items() if k not in ("body", "family")}])
            ctx.harness("engine", ["wasm-run", inp, outp, "--nobudget"])
            if not [r for r in read_ndjson(outp) if not r.get("summary")]:
                raise ToolError("canary: altered expectation not flagged by wasm-run")
            ctx.extra["canary"] = "altered expected %s flagged" % ("energy" if prop == "C02" else "result")
            break
    for p in progs[:1] + sim[:1]:
        ctx.sample({"kind": "generated program run on the engine under 6 configurations", "family": p.get("family"),
                    "body": show_body(p["body"]), "runs": [{"args": r["args"], "expected": {k: r["out"].get(k) for k in ("status", "res", "w0", "w1", "trapk")}} for r in p["runs"][:2]]})
    ctx.rule = ("all well-typed function bodies over six focused instruction alphabets up to a length bound (TLC enumerates them with the Wasm validation "
                "algorithm as the generation guard), ALU vectors over boundary operands, and random longer bodies over the union alphabet; each body is placed in "
                "the module template, executed by the reference semantics WasmSem in TLC on 4 argument vectors, and run on the real engine under "
                "ValidationConfig V0/V1 x {no metering, cost V0, cost V1}. distinct = distinct module binaries; every program contains at least one "
                "instruction besides the final end")


def replay(prop, path, seed):
    with open(path) as f:
        rp = json.load(f)["replay"]
    ctx = vlib.Ctx(prop + "_replay", "quick", seed)
    ctx.prop = prop
    ctx.build("engine")
    if rp["kind"] == "wasm_program":
        tot = run_programs(ctx, [rp["program"]], "replay")
        print("replayed 1 program: %s" % ("disagreement reproduced" if tot["bad"] else "no disagreement"))
        return 1 if ctx.violations else 0
    print("replay kind %s: re-run the check" % rp["kind"])
    return 2
