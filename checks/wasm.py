"""Checks of the Wasm family: C01 (conformance to the Wasm semantics), C02 (metering), C09 (validation),
C13 (artifacts / interrupts).  Specs: spec/wasm/*.tla + spec/lib/ALU.tla; harness: harness/engine."""
import json
import os

import vlib
import wasmasm
from vlib import ToolError, replay_behaviours, write_ndjson, read_ndjson

SPEC = "wasm"


def programs_from_tlc(res):
    """TLC output of a WasmGen run -> list of program records for `wasm-run`."""
    tpl = res.tagged.get("TEMPLATE")
    if not tpl:
        raise ToolError("no TEMPLATE line in TLC output %s" % res.out_path)
    t = json.loads(tpl[0])
    progs = []
    for s in res.replays:
        r = json.loads(s)
        m = json.loads(json.dumps(t["m"]))
        m["funcs"][t["gen"]]["body"] = r["body"]
        wasm = wasmasm.assemble(m, entry=t["entry"])
        progs.append({"wasm": wasm.hex(), "entry": "main", "signext": wasmasm.uses_signext(m), "runs": r["runs"],
                      "hostq": t.get("hostq", []), "body": r["body"], "valid": r.get("valid", True), "why": r.get("why", "")})
    return progs


GEN_CFG = """SPECIFICATION %(spec)s
CONSTANTS
  Template <- %(template)s
  GenIdx = %(genidx)d
  EntryIdx = %(entryidx)d
  Alphabet <- AlphabetOf
  MaxLen = %(maxlen)d
  ArgSets <- ArgsT
  HostQ <- %(hostq)s
  Fuel = %(fuel)d
  SignExt = TRUE
  WithBad = %(bad)s
  Cfg = "%(cfg)s"
INVARIANT Export
CHECK_DEADLOCK FALSE
"""


def gen_programs(ctx, cfg, maxlen, name=None, spec="GSpec", simulate=None, depth=None, workers=8, fuel=600, timeout=3000, bad=False, host=False, invariants=()):
    name = name or "gen_%s_%d" % (cfg, maxlen)
    cfg_path = os.path.join(ctx.work, name + ".cfg")
    with open(cfg_path, "w") as f:
        f.write(GEN_CFG % {"spec": spec, "maxlen": maxlen, "cfg": cfg, "fuel": fuel, "bad": "TRUE" if bad else "FALSE",
                           "template": "TemplateH" if host else "TemplateT", "genidx": 3 if host else 2, "entryidx": 2 if host else 1,
                           "hostq": "HostQT" if host else "NoHostQ"})
        for inv in invariants:
            f.write("INVARIANT %s\n" % inv)
        if bad:
            f.write("INVARIANT GenAgreesWithValidator\n")
    if simulate:
        results = ctx.tlc_parallel_sim(SPEC, "MC_WasmGen.tla", cfg_path, name, simulate, depth, procs=6, timeout=timeout)
    else:
        results = [ctx.tlc(SPEC, "MC_WasmGen.tla", cfg_path, name=name, workers=workers, timeout=timeout)]
    progs = []
    for res in results:
        progs += programs_from_tlc(res)
    for p in progs:
        p["family"] = name
        p["ref_fuel"] = fuel
    return progs


def show_body(body):
    out = []
    for i in body:
        op = i["op"]
        if op == "const":
            out.append("%s.const %d" % ("i32" if i["t"] == 2 else "i64", wasmasm.limbs_signed(i["v"])))
        elif op in ("local.get", "local.set", "local.tee", "global.get", "global.set"):
            out.append("%s %d" % (op, i["i"]))
        elif op in ("br", "br_if"):
            out.append("%s %d" % (op, i["l"]))
        elif op in ("block", "loop", "if"):
            out.append(op + ("" if i["bt"] == 0 else " (result %s)" % ("i32" if i["bt"] == 2 else "i64")))
        elif op in ("binop", "relop", "unop"):
            out.append("%s.%s" % ("i32" if i["t"] == 2 else "i64", i["name"]))
        elif op == "eqz":
            out.append("%s.eqz" % ("i32" if i["t"] == 2 else "i64"))
        elif op == "cvt":
            out.append(i["name"])
        elif op in ("load", "store"):
            out.append("%s.%s%d%s off=%d" % ("i32" if i["t"] == 2 else "i64", op, 8 * i["n"], ("_s" if i.get("sx") else "") if op == "load" else "", wasmasm.limbs_unsigned(i["off"])))
        elif op == "call":
            out.append("call %d" % i["f"])
        elif op == "call_indirect":
            out.append("call_indirect (type %d)" % i["ty"])
        elif op == "br_table":
            out.append("br_table %s %d" % (i["ls"], i["d"]))
        else:
            out.append(op)
    return "; ".join(out)


def run_programs(ctx, progs, name, extra_args=None, chunk=2500, procs=8):
    """Run programs on the real engine (6 configurations) in parallel harness processes; classify disagreements."""
    from concurrent.futures import ThreadPoolExecutor
    total = {"behaviours": 0, "runs": 0, "bad": 0, "by_action": {}, "metered_runs": 0, "budget_runs": 0, "max_ratio": 0.0}
    nknown = 0
    jobs = []
    for c in range(0, len(progs), chunk):
        part = progs[c:c + chunk]
        inp = os.path.join(ctx.work, "%s_%d.ndjson" % (name, c))
        outp = os.path.join(ctx.work, "%s_%d.res" % (name, c))
        write_ndjson(inp, [{k: v for k, v in p.items() if k not in ("body", "family", "sk", "script")} | {"code_len": p.get("code_len", 64)} for p in part])
        jobs.append((part, inp, outp))

    def one(job):
        part, inp, outp = job
        try:
            ctx.harness("engine", ["wasm-run", inp, outp] + (extra_args or []), timeout=1800)
            return None
        except Exception as e:
            return e

    with ThreadPoolExecutor(max_workers=procs) as ex:
        errors = list(ex.map(one, jobs))
    for (part, inp, outp), err in zip(jobs, errors):
        if err is not None:
            # a hang of the engine is a finding about the engine, not a tool error
            if "TimeoutExpired" in repr(err) or "timed out" in str(err):
                ctx.violation("the engine did not terminate on a chunk of %d generated programs (%s)" % (len(part), name),
                              {"kind": "wasm_chunk", "file": inp})
                continue
            raise err
        for rec in read_ndjson(outp):
            if rec.get("summary"):
                for k in ("behaviours", "runs", "bad", "metered_runs", "budget_runs", "artifact_runs", "interrupt_runs"):
                    total[k] = total.get(k, 0) + rec.get(k, 0)
                total["max_ratio"] = max(total["max_ratio"], rec.get("max_steps_per_energy_and_instruction", 0.0))
                for k, v in rec["by_action"].items():
                    total["by_action"][k] = total["by_action"].get(k, 0) + v
                continue
            p = part[rec["idx"]]
            known = rec.get("known") or []
            what = "%s: config %s run %s args %s: %s (expected %s, got %s) | %s" % (
                p.get("family", name), rec.get("config"), rec.get("run"), json.dumps(rec.get("args")), rec.get("what"),
                json.dumps(rec.get("exp"))[:120], json.dumps(rec.get("got"))[:160], show_body(p.get("body", []))[:300])
            is_v = ctx.violation(what, {"kind": "wasm_program", "program": p, "detail": rec}, signature=(known[0] if known else None))
            if not is_v:
                nknown += 1
                # the other recorded hazards that held on this run count as seen too (attribution goes to the first)
                for extra in known[1:]:
                    for k in ctx.known:
                        if k.get("status") == "recorded" and k.get("signature") == extra:
                            ctx.known_hits.setdefault(k["id"], {"finding": k, "count": 0, "example": what})["count"] += 1
    ctx.traces += len(progs)
    for p in progs:
        ctx.note_case(p["wasm"])
    total["known_finding_hits"] = nknown
    return total


def merge_totals(a, b):
    for k in ("behaviours", "runs", "bad", "metered_runs", "budget_runs", "known_finding_hits"):
        a[k] = a.get(k, 0) + b.get(k, 0)
    a["max_ratio"] = max(a.get("max_ratio", 0.0), b.get("max_ratio", 0.0))
    for k, v in b["by_action"].items():
        a.setdefault("by_action", {})[k] = a.get("by_action", {}).get(k, 0) + v
    return a


def add_code_len(progs):
    # fixed energy cost of the template around the generated body = the cheapest complete run of the batch
    done = [r["out"] for p in progs for r in p.get("runs", []) if r["out"].get("status") == "done"]
    base0 = min([o["w0"] for o in done], default=0)
    base1 = min([o["w1"] for o in done], default=0)
    for p in progs:
        p["base_w0"], p["base_w1"] = base0, base1
    for p in progs:
        p["code_len"] = 40 + len(p.get("body", []))
        p["body_len"] = len(p.get("body", []))
    return progs


def run(ctx):
    quick = ctx.tier == "quick"
    ctx.build("engine")
    prop = ctx.prop
    if prop == "C09":
        return run_c09(ctx)
    if prop == "C13":
        return run_c13(ctx)
    w = 8 if quick else 16
    ctx.assumptions += [
        "TLC 1.8 and the CommunityModules are trusted; the Wasm assembler checks/wasmasm.py (~230 lines) and the harness are trusted",
        "programs are instances of one module template (wrapper f, generated g, helpers h and k, 2 globals, 1-2 memory pages, 4-entry table) with generated bodies over focused alphabets",
        "i64 arithmetic is exact in the reference (limb arithmetic), but only boundary operands are enumerated",
    ]
    lens = {"ctl": 6, "ctl2": 5, "loop": 5, "brif": 7, "brif2": 8, "mem": 4, "call": 4, "i64": 4} if quick else {"ctl": 7, "ctl2": 6, "loop": 6, "brif": 8, "brif2": 9, "mem": 5, "call": 5, "i64": 5}
    from concurrent.futures import ThreadPoolExecutor
    jobs = [dict(cfg=cfg, maxlen=ml, workers=4) for cfg, ml in lens.items()]
    jobs.append(dict(cfg="alu", maxlen=0, name="alu_vectors", spec="FSpec", workers=6))
    jobs.append(dict(cfg="struct", maxlen=0, name="structured", spec="FSpec", workers=6))
    jobs.append(dict(cfg="stress", maxlen=0, name="stress", spec="FSpec", workers=2))
    jobs.append(dict(cfg="valstress", maxlen=0, name="valstress", spec="FSpec", workers=2))
    jobs.append(dict(cfg="valstress2", maxlen=0, name="valstress2", spec="FSpec", workers=2))
    jobs.append(dict(cfg="witness", maxlen=0, name="witnesses", spec="FSpec", workers=1))
    with ThreadPoolExecutor(max_workers=4) as ex:
        results = list(ex.map(lambda kw: gen_programs(ctx, **kw), jobs))
    witnesses = results.pop()
    progs = [p for r in results for p in r]
    ctx.exhaustive = True
    sim = gen_programs(ctx, "all", 14 if quick else 24, name="sim_all", simulate=(3000 if quick else 200000), depth=30, workers=w, fuel=600)
    progs += sim
    add_code_len(progs)
    add_code_len(witnesses)
    if len(progs) < 5000:
        raise ToolError("too few programs generated: %d" % len(progs))
    tot = run_programs(ctx, progs, "programs", extra_args=(["--nobudget"] if prop == "C01" else (["--budget-every", "5"] if quick else None)))
    # pinned witnesses of the recorded findings: printing KNOWN-FINDING while they reproduce, and a note when they stop
    wt = run_programs(ctx, witnesses, "witnesses", extra_args=["--nobudget"])
    ctx.extra["witnesses_run"] = len(witnesses)
    ctx.extra["witnesses_disagreeing"] = wt["bad"]
    recorded = [k["id"] for k in ctx.known if k.get("status") == "recorded"]
    gone = [k for k in recorded if k not in ctx.known_hits]
    if gone:
        print("NOTE: recorded finding(s) %s did not reproduce on this tree (entry should become 'fixed')" % gone)
        ctx.extra["recorded_findings_not_reproduced"] = gone
    merge_totals(tot, wt)
    ctx.extra["engine_runs"] = tot["runs"]
    ctx.extra["outcome_histogram"] = tot["by_action"]
    ctx.extra["known_finding_hits"] = tot["known_finding_hits"]
    ctx.extra["metered_runs"] = tot["metered_runs"]
    ctx.extra["budget_runs"] = tot["budget_runs"]
    ctx.extra["max_steps_per_energy_and_instruction"] = tot["max_ratio"]
    ctx.evaluations += tot["runs"]
    h = tot["by_action"]
    need = ["done:done", "trap:trap"] + (["fuel:out-of-energy"] if prop == "C02" else [])
    missing = [k for k in need if h.get(k, 0) == 0]
    if missing:
        raise ToolError("vacuous run: outcome classes never exercised: %s" % missing)
    if prop == "C02" and (tot["metered_runs"] < 1000 or tot["budget_runs"] < 1000):
        raise ToolError("vacuous run: too few metered/budget runs")
    # canary: a program whose expected result is altered must be flagged
    for p in progs:
        r0 = p["runs"][0]["out"]
        if r0["status"] == "done" and not r0.get("hz"):
            q = json.loads(json.dumps(p))
            q["runs"][0]["out"]["res"] = [[(r0["res"][0][0] + 1) % 65536] + r0["res"][0][1:]]
            if prop == "C02":
                q = json.loads(json.dumps(p))
                q["runs"][0]["out"]["w0"] += 1
            inp = os.path.join(ctx.work, "canary.ndjson")
            outp = os.path.join(ctx.work, "canary.res")
            write_ndjson(inp, [{k: v for k, v in q.items() if k not in ("body", "family")}])
            ctx.harness("engine", ["wasm-run", inp, outp, "--nobudget"])
            if not [r for r in read_ndjson(outp) if not r.get("summary")]:
                raise ToolError("canary: altered expectation not flagged by wasm-run")
            ctx.extra["canary"] = "altered expected %s flagged" % ("energy" if prop == "C02" else "result")
            break
    for p in progs[:1] + sim[:1]:
        ctx.sample({"kind": "generated program run on the engine under 6 configurations", "family": p.get("family"),
                    "body": show_body(p["body"]), "runs": [{"args": r["args"], "expected": {k: r["out"].get(k) for k in ("status", "res", "w0", "w1", "trapk")}} for r in p["runs"][:2]]})
    ctx.rule = ("all well-typed function bodies over six focused instruction alphabets up to a length bound (TLC enumerates them with the Wasm validation "
                "algorithm as the generation guard), ALU vectors over boundary operands, structured and register-allocation stress bodies (control skeletons with snippet holes; values pushed before "
                "a skeleton that writes the locals they refer to), and random longer bodies over the union alphabet; each body is placed in "
                "the module template, executed by the reference semantics WasmSem in TLC on 4 argument vectors, and run on the real engine under "
                "ValidationConfig V0/V1 x {no metering, cost V0, cost V1}. distinct = distinct module binaries; every program contains at least one "
                "instruction besides the final end")


def replay(prop, path, seed):
    with open(path) as f:
        rp = json.load(f)["replay"]
    ctx = vlib.Ctx(prop + "_replay", "quick", seed)
    ctx.prop = prop
    ctx.build("engine")
    if rp["kind"] == "wasm_program":
        tot = run_programs(ctx, [rp["program"]], "replay")
        print("replayed 1 program: %s" % ("disagreement reproduced" if tot["bad"] else "no disagreement"))
        return 1 if ctx.violations else 0
    print("replay kind %s: re-run the check" % rp["kind"])
    return 2


def run_c09(ctx):
    import wasm_limits
    quick = ctx.tier == "quick"
    w = 8 if quick else 16
    ctx.assumptions += [
        "TLC 1.8 and the CommunityModules are trusted; the Wasm assembler checks/wasmasm.py, the skeleton builder checks/wasm_limits.py and the harness are trusted",
        "byte strings without a verdict (mutated modules) are only checked for totality and safe execution, not for the accept/reject decision",
    ]
    # (a) typing: every valid body and every minimally ill-typed or truncated body over the validation alphabet
    progs = gen_programs(ctx, "val", 3 if quick else 4, bad=True, workers=w)
    ctx.exhaustive = True
    add_code_len(progs)
    nvalid = sum(1 for p in progs if p["valid"])
    if nvalid < 20 or len(progs) - nvalid < 1000:
        raise ToolError("too few validation vectors: %d valid, %d invalid" % (nvalid, len(progs) - nvalid))
    vs = gen_programs(ctx, "valstruct", 0, name="valstruct", spec="FSpec", workers=w)
    add_code_len(vs)
    progs += vs
    tot = run_programs(ctx, progs, "typing", extra_args=["--nobudget"])
    ctx.extra["typing_vectors"] = {"valid": sum(1 for p in progs if p["valid"]), "invalid": sum(1 for p in progs if not p["valid"]),
                                   "skeleton_valid": sum(1 for p in vs if p["valid"]), "skeleton_invalid": sum(1 for p in vs if not p["valid"])}
    # (b) module-level restrictions at limit-1 / limit / limit+1
    r = ctx.tlc(SPEC, "ModuleLimits.tla", "ModuleLimits_exh.cfg", workers=w, timeout=1800)
    lim = []
    for s in r.replays:
        v = json.loads(s)
        wasm, entry, nparams = wasm_limits.build_skeleton(v["sk"])
        lim.append({"wasm": wasm.hex(), "entry": entry, "signext": False, "valid": v["valid"], "body": [], "family": "limits",
                    "sk": v["sk"], "runs": [{"args": [[0, 0]] * nparams, "out": {"status": "any"}}] if v["valid"] else []})
    t2 = run_programs(ctx, lim, "limits", extra_args=["--nobudget"])
    ctx.extra["limit_vectors"] = {"valid": sum(1 for p in lim if p["valid"]), "invalid": sum(1 for p in lim if not p["valid"])}
    merge_totals(tot, t2)
    # (c) totality: mutation scripts applied to valid modules
    scripts = []
    for res in ctx.tlc_parallel_sim(SPEC, "WasmMutate.tla", "WasmMutate.cfg", "mutate", 600 if quick else 30000, 4, procs=4):
        scripts += [json.loads(s) for s in res.replays]
    seeds = [p for p in progs if p["valid"]][:12] + [p for p in lim if p["valid"]][:12]
    muts = []
    seen = set()
    for i, sc in enumerate(scripts):
        seed = seeds[i % len(seeds)]
        mb = wasm_limits.apply_script(bytes.fromhex(seed["wasm"]), sc)
        if mb in seen:
            continue
        seen.add(mb)
        muts.append({"wasm": mb.hex(), "entry": seed["entry"], "signext": False, "valid": None, "body": seed.get("body", []), "family": "mutant",
                     "script": sc, "runs": [{"args": (seed["runs"][0]["args"] if seed["runs"] else []), "out": {"status": "any-metered"}}]})
    t3 = run_programs(ctx, muts, "mutants", extra_args=["--nobudget"])
    ctx.extra["mutated_modules"] = len(muts)
    merge_totals(tot, t3)
    ctx.extra["engine_runs"] = tot["runs"]
    ctx.extra["outcome_histogram"] = tot["by_action"]
    ctx.evaluations += tot["runs"] + len(progs) + len(lim) + len(muts)
    if tot["by_action"].get("rejected", 0) < 1000 or tot["by_action"].get("any:done", 0) + tot["by_action"].get("any:trap", 0) < 100:
        raise ToolError("vacuous run: %s" % tot["by_action"])
    # canary: flip the predicted verdict of one vector
    q = json.loads(json.dumps({k: v for k, v in progs[0].items() if k not in ("body", "family")}))
    q["valid"] = not q["valid"]
    q["runs"] = []
    inp = os.path.join(ctx.work, "canary.ndjson")
    outp = os.path.join(ctx.work, "canary.res")
    write_ndjson(inp, [q])
    ctx.harness("engine", ["wasm-run", inp, outp, "--nobudget"])
    if not [x for x in read_ndjson(outp) if not x.get("summary")]:
        raise ToolError("canary: flipped verdict not flagged")
    ctx.extra["canary"] = "flipped validation verdict flagged"
    bad = [p for p in progs if p["why"] == "bad"]
    ctx.sample({"kind": "minimally ill-typed body (valid prefix + one rejected instruction + closing ends)", "body": show_body(bad[len(bad) // 2]["body"]), "expected": "rejected by validate_module under V0 and V1"})
    ctx.sample({"kind": "limit vector", "skeleton": lim[len(lim) // 2]["sk"], "valid": lim[len(lim) // 2]["valid"]})
    if muts:
        ctx.sample({"kind": "mutation script applied to a valid module (totality)", "script": muts[0]["script"]})
    ctx.rule = ("typing vectors: all valid prefixes over a 45-instruction alphabet up to the length bound, each completed (valid) or extended by one instruction that the "
                "WasmValidate state machine rejects (then closed syntactically) or left unclosed; limit vectors: a valid baseline skeleton with one or two parameters moved to "
                "limit-1/limit/limit+1 or to a forbidden construct; mutants: TLC-simulated byte-level mutation scripts applied to valid modules. Verdicts are compared under both "
                "ValidationConfigs and with metering; accepted modules are compiled and executed with the H2 bounds assertions on. distinct = distinct module binaries")


def run_c13(ctx):
    """Stored artifacts and interrupted executions behave identically when resumed."""
    quick = ctx.tier == "quick"
    w = 8 if quick else 16
    ctx.assumptions += [
        "interrupts are exercised at the wasm-transform level (Host::call returning an interrupt, RunConfig::push_value, run_config); the chain-level resume_receive path is C14's",
        "the trusted-input artifact parser is only fed artifacts produced by the engine itself",
    ]
    from concurrent.futures import ThreadPoolExecutor
    jobs = [dict(cfg="host", maxlen=5 if quick else 6, workers=6, host=True, invariants=("InterruptTransparent",)),
            dict(cfg="ctl", maxlen=5 if quick else 6, workers=4),
            dict(cfg="mem", maxlen=4, workers=4),
            dict(cfg="call", maxlen=4, workers=4),
            dict(cfg="struct", maxlen=0, name="structured", spec="FSpec", workers=4)]
    with ThreadPoolExecutor(max_workers=3) as ex:
        results = list(ex.map(lambda kw: gen_programs(ctx, **kw), jobs))
    hostp = results[0]
    progs = [p for r in results for p in r]
    ctx.exhaustive = True
    sim = gen_programs(ctx, "host", 12 if quick else 20, name="sim_host", simulate=(2000 if quick else 100000), depth=26, host=True)
    progs += sim
    add_code_len(progs)
    if len(hostp) < 500:
        raise ToolError("too few programs with host calls: %d" % len(hostp))
    tot = run_programs(ctx, progs, "programs", extra_args=["--nobudget", "--artifact", "--interrupts"])
    ctx.extra["engine_runs"] = tot["runs"]
    ctx.extra["outcome_histogram"] = tot["by_action"]
    ctx.extra["known_finding_hits"] = tot["known_finding_hits"]
    ctx.evaluations += tot["runs"]
    ctx.extra["artifact_runs"] = tot.get("artifact_runs", 0)
    ctx.extra["interrupt_runs"] = tot.get("interrupt_runs", 0)
    if tot["by_action"].get("done:done", 0) < 1000 or tot.get("artifact_runs", 0) < 1000 or tot.get("interrupt_runs", 0) < 500:
        raise ToolError("vacuous run: %s" % tot["by_action"])
    for p in hostp[:1] + sim[:1]:
        ctx.sample({"kind": "program with host calls: inline vs every interrupt schedule vs stored artifact (borrowed, owned)", "body": show_body(p["body"]),
                    "hostq": p.get("hostq"), "runs": [{"args": r["args"], "expected": {k: r["out"].get(k) for k in ("status", "res", "hostlog")}} for r in p["runs"][:1]]})
    ctx.rule = ("programs from the host-call alphabet (template with an imported host function; scripted results) and from the control, memory, call and structured families; every program is "
                "run fresh, from its serialised artifact loaded zero-copy, and from the owned conversion (re-serialisation must be byte-identical); programs that call the host are "
                "additionally run with every subset of their host-call sites (up to 4, sampled beyond) interrupting and resumed with the scripted value. All observations (result, trap, "
                "memory, tick sequence, account_memory, host calls) must equal the uninterrupted fresh run and the reference. distinct = distinct module binaries")
