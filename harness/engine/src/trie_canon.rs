//! C04: build each given map (contents from TLC's enumeration) through several different
//! histories and persistence schedules on the real trie; report every hash and serialisation
//! observed.  The driver compares them with the spec's Merkle / layout terms (TrieCanon.tla).
use crate::{
    mem::MemStore,
    trie_sut::{iterate_trie, Mode, Sut, KV},
    util::*,
};
use concordium_smart_contract_engine::v1::trie::{Loadable, PersistentState};
use rand::{rngs::SmallRng, seq::SliceRandom, Rng, SeedableRng};
use serde_json::{json, Value};

fn hash_ser(ps: &PersistentState, store: &mut MemStore) -> (String, String) {
    let h = ps.hash(store);
    let mut ser = Vec::new();
    ps.serialize(store, &mut ser).expect("serialize");
    (hex::encode(AsRef::<[u8]>::as_ref(&h)), hex::encode(ser))
}

fn neighbours(kv: &KV) -> Vec<Vec<u8>> {
    let mut out: Vec<Vec<u8>> = vec![vec![], vec![0xff], vec![0x00, 0x00, 0x00]];
    for (k, _) in kv {
        let mut a = k.clone();
        a.push(0);
        out.push(a);
        let mut a = k.clone();
        a.push(0x10);
        out.push(a);
        if !k.is_empty() {
            let mut b = k.clone();
            b.pop();
            out.push(b);
            let mut c = k.clone();
            let i = c.len() - 1;
            c[i] ^= 0x10;
            out.push(c);
            let mut d = k.clone();
            d[i] ^= 0x01;
            out.push(d);
        }
    }
    out.sort();
    out.dedup();
    out.retain(|k| !kv.iter().any(|(x, _)| x == k));
    out
}

pub fn build_variants(kv: &KV, rng: &mut SmallRng) -> Result<Vec<(String, String, String)>, String> {
    let mut out = Vec::new();
    // A: from_iterator, ascending
    {
        let mut store = MemStore::default();
        let ps = PersistentState::from_iterator(kv.iter().map(|(k, v)| (&k[..], v.clone())));
        let (h, s) = hash_ser(&ps, &mut store);
        out.push(("from_iterator".to_string(), h, s));
    }
    // B: random insertion order, both driving modes
    for mode in [Mode::Trie, Mode::State] {
        let mut sut = Sut::new(mode);
        let mut order: Vec<usize> = (0..kv.len()).collect();
        order.shuffle(rng);
        for i in order {
            sut.insert(&kv[i].0, kv[i].1.clone()).map_err(|_| "unexpected lock")?;
        }
        let info = sut.freeze_thaw("plain")?;
        out.push((format!("random order {:?}", mode), hex::encode(info.hash_thawed), hex::encode(&info.serialized)));
    }
    // C: superset, persistence in the middle, then deletions / overwrites / prefix deletions
    let pmodes = ["plain", "store_reload", "serialize", "cache", "migrate", "store_keep"];
    for round in 0..3 {
        let mode = if round % 2 == 0 { Mode::State } else { Mode::Trie };
        let mut sut = Sut::new(mode);
        let extra = neighbours(kv);
        let mut all: Vec<(Vec<u8>, Vec<u8>, bool)> = kv.iter().map(|(k, v)| (k.clone(), v.clone(), true)).collect();
        for k in &extra {
            all.push((k.clone(), value_of_class(rng.gen_range(0..5)), false));
        }
        all.shuffle(rng);
        for (k, v, keep) in &all {
            // keys that stay first get a wrong value, fixed up later through a handle
            let v0 = if *keep && rng.gen_bool(0.5) { value_of_class(rng.gen_range(0..5)) } else { v.clone() };
            sut.insert(k, v0).map_err(|_| "unexpected lock")?;
        }
        sut.freeze_thaw(pmodes[rng.gen_range(0..pmodes.len())])?;
        if rng.gen_bool(0.5) {
            // a checkpoint that is rolled back must leave no trace
            sut.newgen();
            for (k, _, _) in all.iter().take(3) {
                let _ = sut.delete(k);
            }
            sut.normalize(1);
        }
        let mut dels: Vec<&Vec<u8>> = extra.iter().collect();
        dels.shuffle(rng);
        for k in dels {
            if rng.gen_bool(0.2) {
                // prefix deletion, then restore whatever should have stayed
                let _ = sut.delprefix(k);
                for (k2, v2) in kv {
                    if k2.starts_with(k) {
                        sut.insert(k2, v2.clone()).map_err(|_| "unexpected lock")?;
                    }
                }
            } else {
                let _ = sut.delete(k);
            }
        }
        for (k, v) in kv {
            let e = sut.get(k).ok_or("key lost")?;
            if rng.gen_bool(0.5) {
                sut.set(e, v.clone());
            } else {
                sut.getmut_write(e, v.clone());
            }
        }
        let pm = pmodes[rng.gen_range(0..pmodes.len())];
        let info = sut.freeze_thaw(pm)?;
        if info.hash_frozen != info.hash_thawed {
            return Err(format!("hash changed by persistence mode {}", pm));
        }
        if &info.contents_new != kv {
            return Err(format!("contents changed by history/persistence mode {}", pm));
        }
        out.push((format!("superset history round {} {:?} {}", round, mode, pm), hex::encode(info.hash_thawed), hex::encode(&info.serialized)));
        // thaw, read only, refreeze: same hash, nothing collected
        let n = sut.ngens();
        let _ = sut.project_gen(n);
        for (k, _) in kv {
            let _ = sut.get(k);
        }
        let _ = sut.delete(&[0xfe, 0xfe]);
        let info2 = sut.freeze_thaw("plain")?;
        if info2.collected != 0 {
            return Err(format!("refreeze of unmodified state collected {}", info2.collected));
        }
        out.push(("refreeze unmodified".to_string(), hex::encode(info2.hash_thawed), hex::encode(&info2.serialized)));
        // load from a store and iterate through the persistent API
        let mut ps = sut.persist.clone();
        let r = ps.store_update(&mut sut.store).map_err(|e| e.to_string())?;
        let ps2 = PersistentState::load_from_location(&mut sut.store, r).map_err(|e| e.to_string())?;
        let mut t = ps2.clone().into_trie(&mut sut.store);
        if &iterate_trie(&mut t, &mut sut.store, &[]) != kv {
            return Err("contents differ after store/load".to_string());
        }
        let (h, s) = hash_ser(&ps2, &mut sut.store);
        out.push(("store/load".to_string(), h, s));
    }
    Ok(out)
}

pub fn main(args: &[String]) -> i32 {
    // trie-canon <maps.ndjson> <out.ndjson> <seed>
    if args.len() < 3 {
        eprintln!("usage: trie-canon <maps.ndjson> <out.ndjson> <seed>");
        return 2;
    }
    let seed: u64 = args[2].parse().unwrap_or(0);
    let mut rng = SmallRng::seed_from_u64(seed);
    let lines = read_lines(&args[0]);
    let mut out = String::new();
    std::panic::set_hook(Box::new(|_| {}));
    for (n, line) in lines.iter().enumerate() {
        let v: Value = serde_json::from_str(line).expect("json");
        let kv: KV = v["m"]
            .as_array()
            .map(|a| a.iter().map(|p| (bytes_of(&p[0]), value_of_class(p[1].as_u64().unwrap_or(0)))).collect())
            .unwrap_or_default();
        let res = std::panic::catch_unwind(std::panic::AssertUnwindSafe(|| build_variants(&kv, &mut rng)));
        let rec = match res {
            Ok(Ok(vs)) => json!({"idx": n, "variants": vs.iter().map(|(w, h, s)| json!({"how": w, "hash": h, "ser": s})).collect::<Vec<_>>()}),
            Ok(Err(e)) => json!({"idx": n, "error": e}),
            Err(p) => json!({"idx": n, "error": format!("panic: {}", panic_message(p))}),
        };
        out.push_str(&rec.to_string());
        out.push('\n');
    }
    if std::fs::write(&args[1], out).is_err() {
        return 2;
    }
    0
}
