//! spec -> impl for the Wasm family (C01, C02, C09, C13): run modules assembled from the TLA+
//! specs' programs through the real parser / validator / compiler / interpreter under all six
//! configurations (ValidationConfig V0/V1 x {no metering, cost V0, cost V1}) and compare every
//! observable with the outcome predicted by the reference semantics (WasmSem.tla).
use crate::util::*;
use concordium_wasm::{
    artifact::{Artifact, ArtifactNamedImport, CompiledFunction, OwnedArtifact, RunnableCode},
    machine::{ExecutionOutcome, Host, RunResult, RuntimeStack, Value},
    output::Output,
    CostConfigurationV0, CostConfigurationV1,
    types::{FunctionType, Name},
    utils,
    validate::{ValidateImportExport, ValidationConfig},
};
use serde_json::{json, Value as J};
use std::collections::BTreeMap;

pub struct AllowAll;

impl ValidateImportExport for AllowAll {
    fn validate_import_function(&self, _duplicate: bool, _m: &Name, _i: &Name, _ty: &FunctionType) -> bool { true }

    fn validate_export_function(&self, _i: &Name, _ty: &FunctionType) -> bool { true }
}

pub const MAX_DEPTH: u32 = 64;
pub const TICK_LIMIT: u64 = 3_000_000;

#[derive(Default)]
pub struct TestHost {
    pub ticked:        u64,
    pub ticks:         Vec<u64>,
    pub init_pages:    Option<u32>,
    pub depth:         u32,
    pub max_depth:     u32,
    pub account_mem:   Vec<u32>,
    pub host_results:  Vec<i64>,
    pub host_calls:    Vec<(String, Vec<i64>)>,
    /// events in order: ("tick", n) / ("account_memory", pages) / ("host", idx)
    pub events:        Vec<(u8, u64)>,
    /// energy budget; ticking beyond it fails with out-of-energy
    pub budget:        Option<u64>,
    pub out_of_energy: bool,
    /// indices (in order of occurrence) of the scripted host calls that interrupt the execution
    /// instead of answering inline (C13)
    pub interrupt_at:  Vec<usize>,
    pub interrupts:    u64,
    pub calls_tracked: u64,
    pub returns_tracked: u64,
}

/// An interrupt raised by a scripted host call: the value with which the execution must be resumed.
#[derive(Debug, Clone, Copy)]
pub struct Pending {
    pub result: Option<i64>,
    pub is_i64: bool,
}

impl Host<ArtifactNamedImport> for TestHost {
    type Interrupt = Pending;

    fn tick_initial_memory(&mut self, num_pages: u32) -> RunResult<()> {
        self.init_pages = Some(num_pages);
        Ok(())
    }

    fn call(&mut self, f: &ArtifactNamedImport, _memory: &mut [u8], stack: &mut RuntimeStack) -> RunResult<Option<Pending>> {
        if f.matches("concordium_metering", "account_memory") {
            let n = unsafe { stack.peek_u32() };
            self.account_mem.push(n);
            self.events.push((1, n as u64));
            return Ok(None);
        }
        // scripted host function: pops its parameters, pushes the next scripted result
        use concordium_wasm::artifact::TryFromImport;
        let ty = f.ty();
        let mut args = Vec::new();
        for p in ty.parameters.iter().rev() {
            match p {
                concordium_wasm::types::ValueType::I32 => args.push(unsafe { stack.pop_u32() } as i32 as i64),
                concordium_wasm::types::ValueType::I64 => args.push(unsafe { stack.pop_u64() } as i64),
            }
        }
        args.reverse();
        let call_idx = self.host_calls.len();
        self.events.push((2, call_idx as u64));
        self.host_calls.push((f.get_item_name().to_string(), args));
        if self.interrupt_at.contains(&call_idx) {
            // answer later: the machine is suspended and resumed with the same value
            self.interrupts += 1;
            let result = ty.result.map(|_| if self.host_results.is_empty() { 0 } else { self.host_results.remove(0) });
            return Ok(Some(Pending { result, is_i64: matches!(ty.result, Some(concordium_wasm::types::ValueType::I64)) }));
        }
        if let Some(r) = ty.result {
            let v = if self.host_results.is_empty() { 0 } else { self.host_results.remove(0) };
            match r {
                concordium_wasm::types::ValueType::I32 => stack.push_value(v as i32),
                concordium_wasm::types::ValueType::I64 => stack.push_value(v),
            }
        }
        Ok(None)
    }

    fn tick_energy(&mut self, energy: u64) -> RunResult<()> {
        if let Some(b) = self.budget {
            if self.ticked + energy > b {
                self.out_of_energy = true;
                anyhow::bail!("out of energy");
            }
        }
        self.ticked += energy;
        self.ticks.push(energy);
        self.events.push((0, energy));
        anyhow::ensure!(self.ticked <= TICK_LIMIT, "tick limit of the harness exceeded");
        Ok(())
    }

    fn track_call(&mut self) -> RunResult<()> {
        anyhow::ensure!(self.depth < MAX_DEPTH, "call depth exceeded");
        self.depth += 1;
        self.calls_tracked += 1;
        self.max_depth = self.max_depth.max(self.depth);
        Ok(())
    }

    fn track_return(&mut self) {
        self.returns_tracked += 1;
        self.depth = self.depth.saturating_sub(1);
    }
}

pub fn limbs_to_u64(v: &J) -> u64 {
    let mut x = 0u64;
    for (i, l) in v.as_array().map(|a| a.as_slice()).unwrap_or(&[]).iter().enumerate() {
        x |= l.as_u64().unwrap_or(0) << (16 * i);
    }
    x
}

pub fn limbs_to_value(v: &J) -> Value {
    let n = v.as_array().map(|a| a.len()).unwrap_or(0);
    let x = limbs_to_u64(v);
    if n == 2 {
        Value::I32(x as u32 as i32)
    } else {
        Value::I64(x as i64)
    }
}

pub fn value_to_limbs(v: Value) -> J {
    match v {
        Value::I32(x) => json!([(x as u32) & 0xffff, (x as u32) >> 16]),
        Value::I64(x) => {
            let u = x as u64;
            json!([u & 0xffff, (u >> 16) & 0xffff, (u >> 32) & 0xffff, (u >> 48) & 0xffff])
        }
    }
}

/// Metered configurations come first: they always terminate (tick limit of the harness host).  The
/// unmetered ones are run only for programs on which the metered runs agreed with the reference, so
/// that a defect which makes a terminating program loop is reported instead of hanging the harness.
pub const CONFIGS: [(&str, bool, u8); 6] =
    [("V1/costV0", true, 1), ("V1/costV1", true, 2), ("V0/costV0", false, 1), ("V0/costV1", false, 2), ("V1/none", true, 0), ("V0/none", false, 0)];

pub fn build(wasm: &[u8], v1: bool, metering: u8) -> anyhow::Result<Artifact<ArtifactNamedImport, CompiledFunction>> {
    let vc = if v1 { ValidationConfig::V1 } else { ValidationConfig::V0 };
    Ok(match metering {
        0 => utils::instantiate::<ArtifactNamedImport, _>(vc, &AllowAll, wasm)?.artifact,
        1 => utils::instantiate_with_metering::<ArtifactNamedImport>(vc, CostConfigurationV0, &AllowAll, wasm)?.artifact,
        _ => utils::instantiate_with_metering::<ArtifactNamedImport>(vc, CostConfigurationV1, &AllowAll, wasm)?.artifact,
    })
}

/// What one execution of the real engine looked like.
pub struct Observed {
    pub steps:  u64,
    pub status: &'static str, // "done" | "trap"
    pub res:    Option<Value>,
    pub memory: Vec<u8>,
    pub err:    String,
    pub host:   TestHost,
}

pub fn execute<R: RunnableCode>(art: &Artifact<ArtifactNamedImport, R>, entry: &str, args: &[Value], host_results: Vec<i64>) -> Observed {
    execute_budget(art, entry, args, host_results, None)
}

pub fn execute_budget<R: RunnableCode>(
    art: &Artifact<ArtifactNamedImport, R>,
    entry: &str,
    args: &[Value],
    host_results: Vec<i64>,
    budget: Option<u64>,
) -> Observed {
    execute_sched(art, entry, args, host_results, budget, vec![])
}

/// Execute; the scripted host calls whose index is in `interrupt_at` suspend the machine, which is
/// then resumed with the value the call would have returned inline.
pub fn execute_sched<R: RunnableCode>(
    art: &Artifact<ArtifactNamedImport, R>,
    entry: &str,
    args: &[Value],
    host_results: Vec<i64>,
    budget: Option<u64>,
    interrupt_at: Vec<usize>,
) -> Observed {
    let mut host = TestHost { host_results, budget, interrupt_at, ..Default::default() };
    concordium_wasm::machine::verif::reset_steps();
    let mut outcome = art.run(&mut host, entry, args);
    loop {
        match outcome {
            Ok(ExecutionOutcome::Success { result, memory }) => {
                return Observed { steps: concordium_wasm::machine::verif::steps(), status: "done", res: result, memory, err: String::new(), host };
            }
            Ok(ExecutionOutcome::Interrupted { reason, mut config }) => {
                if let Some(v) = reason.result {
                    if reason.is_i64 {
                        config.push_value(v);
                    } else {
                        config.push_value(v as i32);
                    }
                }
                outcome = art.run_config(&mut host, config);
            }
            Err(e) => {
                return Observed { steps: concordium_wasm::machine::verif::steps(), status: "trap", res: None, memory: vec![], err: format!("{:#}", e), host };
            }
        }
    }
}

/// Equality of everything observable about two executions (C13).
pub fn same_observation(a: &Observed, b: &Observed) -> Option<String> {
    if a.status != b.status {
        return Some(format!("status {} vs {}", a.status, b.status));
    }
    if a.res != b.res {
        return Some(format!("result {:?} vs {:?}", a.res, b.res));
    }
    if a.memory != b.memory {
        return Some(format!("memory: {}", first_diff(&a.memory, &b.memory)));
    }
    if a.host.ticks != b.host.ticks {
        return Some(format!("energy ticks {:?} vs {:?}", a.host.ticked, b.host.ticked));
    }
    if a.host.account_mem != b.host.account_mem {
        return Some("account_memory announcements".into());
    }
    if a.host.host_calls != b.host.host_calls {
        return Some(format!("host calls {:?} vs {:?}", a.host.host_calls, b.host.host_calls));
    }
    if (a.host.calls_tracked, a.host.returns_tracked, a.host.max_depth, a.host.depth) != (b.host.calls_tracked, b.host.returns_tracked, b.host.max_depth, b.host.depth) {
        return Some(format!(
            "call-depth bookkeeping (track_call, track_return, max depth, final depth) {:?} vs {:?}",
            (a.host.calls_tracked, a.host.returns_tracked, a.host.max_depth, a.host.depth),
            (b.host.calls_tracked, b.host.returns_tracked, b.host.max_depth, b.host.depth)
        ));
    }
    None
}

fn expected_memory(out: &J) -> Vec<u8> {
    let pg = out["pg"].as_i64().unwrap_or(0).max(0) as usize;
    let mut mem = vec![0u8; pg * 65536];
    for p in out["mem"].as_array().cloned().unwrap_or_default() {
        let a = p[0].as_u64().unwrap_or(0) as usize;
        if a < mem.len() {
            mem[a] = p[1].as_u64().unwrap_or(0) as u8;
        }
    }
    mem
}

fn first_diff(a: &[u8], b: &[u8]) -> String {
    if a.len() != b.len() {
        return format!("memory size {} vs expected {}", a.len(), b.len());
    }
    for i in 0..a.len() {
        if a[i] != b[i] {
            return format!("memory[{}] = {} expected {}", i, a[i], b[i]);
        }
    }
    "equal".into()
}

/// Compare one run under one configuration with the reference outcome.  Returns a description of
/// the first disagreement.
pub fn compare_run(obs: &Observed, out: &J, metering: u8) -> Option<(String, J, J)> {
    let exp_status = out["status"].as_str().unwrap_or("");
    let exp_done = exp_status == "done";
    if exp_done != (obs.status == "done") {
        return Some(("outcome".into(), json!(exp_status), json!([obs.status, obs.err])));
    }
    if exp_done {
        let exp_res = out["res"].as_array().and_then(|a| a.first()).map(limbs_to_value);
        if exp_res != obs.res {
            return Some(("result value".into(), json!(exp_res.map(value_to_limbs)), json!(obs.res.map(value_to_limbs))));
        }
        let em = expected_memory(out);
        if em != obs.memory {
            return Some(("final memory".into(), json!("see reference"), json!(first_diff(&obs.memory, &em))));
        }
    }
    if metering > 0 {
        let w = out[if metering == 1 { "w0" } else { "w1" }].as_u64().unwrap_or(0);
        if exp_done && obs.host.ticked != w {
            return Some(("energy charged for a run that does not trap differs from the schedule summed over executed instructions".into(), json!(w), json!(obs.host.ticked)));
        }
        if !exp_done && obs.host.ticked < w {
            return Some(("energy charged is less than the work performed (undercharge)".into(), json!(w), json!(obs.host.ticked)));
        }
        // memory growth is announced before it happens: one account_memory per executed memory.grow
        if let Some(g) = out["grows"].as_array() {
            let exp: Vec<u64> = g.iter().map(limbs_to_u64).collect();
            let got: Vec<u64> = obs.host.account_mem.iter().map(|x| *x as u64).collect();
            if exp_done && exp != got {
                return Some(("account_memory announcements".into(), json!(exp), json!(got)));
            }
        }
    }
    // scripted host calls
    if let Some(hl) = out["hostlog"].as_array() {
        if exp_done && hl.len() != obs.host.host_calls.len() {
            return Some(("number of host calls".into(), json!(hl.len()), json!(obs.host.host_calls.len())));
        }
    }
    None
}

pub fn main(args: &[String]) -> i32 {
    // wasm-run <programs.ndjson> <results.ndjson>
    if args.len() < 2 {
        eprintln!("usage: wasm-run <programs.ndjson> <results.ndjson>");
        return 2;
    }
    let lines = read_lines(&args[0]);
    let mut out = String::new();
    let mut bad = 0u64;
    let mut runs = 0u64;
    let mut stats: BTreeMap<String, u64> = BTreeMap::new();
    let mut max_ratio: f64 = 0.0;
    let mut metered_runs = 0u64;
    let mut budget_runs = 0u64;
    let skip_budgets_all = args.iter().any(|a| a == "--nobudget");
    let check_artifact = args.iter().any(|a| a == "--artifact");
    let check_interrupts = args.iter().any(|a| a == "--interrupts");
    let mut artifact_runs = 0u64;
    let mut interrupt_runs = 0u64;
    let budget_every: usize = args.iter().position(|a| a == "--budget-every").and_then(|i| args.get(i + 1)).and_then(|x| x.parse().ok()).unwrap_or(1);
    std::panic::set_hook(Box::new(|_| {}));
    for (n, line) in lines.iter().enumerate() {
        let p: J = match serde_json::from_str(line) {
            Ok(v) => v,
            Err(e) => {
                eprintln!("line {}: bad json: {}", n, e);
                return 2;
            }
        };
        let wasm = match hex::decode(p["wasm"].as_str().unwrap_or("")) {
            Ok(w) => w,
            Err(_) => return 2,
        };
        let entry = p["entry"].as_str().unwrap_or("main").to_string();
        let signext = p["signext"].as_bool().unwrap_or(false);
        // "valid": true / false = verdict predicted by the spec; null = no verdict (mutated bytes): either answer is fine
        let verdict_known = !p["valid"].is_null() || p.get("valid").is_none();
        let expect_valid = p["valid"].as_bool().unwrap_or(true);
        let code_len: u64 = p["code_len"].as_u64().unwrap_or(64);
        let ref_fuel: u64 = p["ref_fuel"].as_u64().unwrap_or(0);
        let body_len: u64 = p["body_len"].as_u64().unwrap_or(0);
        let skip_budgets = skip_budgets_all || n % budget_every != 0;
        let mut failures: Vec<J> = Vec::new();
        // a metered run that the tick limit of the harness had to stop although the reference finishes (seen with D4: the
        // clobbered condition sends the engine into a loop the reference never enters): the unmetered engine may not terminate
        let mut engine_ran_away = false;
        'cfgs: for (cname, v1, metering) in CONFIGS.iter() {
            if *metering == 0 && (engine_ran_away || failures.iter().any(|f| f["known"].as_array().map(|k| k.is_empty()).unwrap_or(true))) {
                if engine_ran_away {
                    *stats.entry("unmetered-skipped:ran-away".into()).or_default() += 1;
                }
                break 'cfgs;
            }
            // unmetered executions have no tick limit: bound them by interpreter steps (reference runs end within `ref_fuel` steps)
            concordium_wasm::machine::verif::set_step_limit(if *metering == 0 { 5_000_000 } else { u64::MAX });
            let should_build = expect_valid && (*v1 || !signext);
            let built = std::panic::catch_unwind(|| build(&wasm, *v1, *metering));
            let art = match built {
                Err(pn) => {
                    failures.push(json!({"config": cname, "what": format!("panic in parse/validate/compile: {}", panic_message(pn)), "known": []}));
                    break 'cfgs;
                }
                Ok(Err(e)) => {
                    if should_build && verdict_known {
                        failures.push(json!({"config": cname, "what": "module predicted valid by the spec was rejected", "got": format!("{:#}", e), "known": []}));
                        break 'cfgs;
                    }
                    *stats.entry("rejected".into()).or_default() += 1;
                    continue;
                }
                Ok(Ok(a)) => {
                    if !should_build && verdict_known {
                        failures.push(json!({"config": cname, "what": "module predicted invalid by the spec was accepted", "known": []}));
                        break 'cfgs;
                    }
                    a
                }
            };
            // C13: serialise, load zero-copy, convert to owned, serialise again
            let mut art_bytes: Vec<u8> = Vec::new();
            let mut borrowed = None;
            let mut owned: Option<OwnedArtifact<ArtifactNamedImport>> = None;
            if check_artifact {
                let r = std::panic::catch_unwind(std::panic::AssertUnwindSafe(|| -> Result<(), String> {
                    art.output(&mut art_bytes).map_err(|e| format!("output: {:#}", e))?;
                    Ok(())
                }));
                match r {
                    Ok(Ok(())) => {}
                    Ok(Err(e)) => failures.push(json!({"config": cname, "what": format!("artifact serialisation failed: {}", e), "known": []})),
                    Err(pn) => failures.push(json!({"config": cname, "what": format!("panic in artifact serialisation: {}", panic_message(pn)), "known": []})),
                }
            }
            if check_artifact && !art_bytes.is_empty() {
                match utils::parse_artifact::<ArtifactNamedImport>(&art_bytes) {
                    Err(e) => failures.push(json!({"config": cname, "what": format!("stored artifact cannot be loaded: {:#}", e), "known": []})),
                    Ok(b) => {
                        let mut again = Vec::new();
                        if b.output(&mut again).is_err() || again != art_bytes {
                            failures.push(json!({"config": cname, "what": "re-serialising the loaded artifact is not byte-identical", "known": []}));
                        }
                        match utils::parse_artifact::<ArtifactNamedImport>(&art_bytes) {
                            Ok(b2) => {
                                let o: OwnedArtifact<ArtifactNamedImport> = b2.into();
                                let mut again2 = Vec::new();
                                if o.output(&mut again2).is_err() || again2 != art_bytes {
                                    failures.push(json!({"config": cname, "what": "re-serialising the owned artifact is not byte-identical", "known": []}));
                                }
                                owned = Some(o);
                            }
                            Err(_) => {}
                        }
                        borrowed = Some(b);
                    }
                }
            }
            for (ri, run) in p["runs"].as_array().cloned().unwrap_or_default().iter().enumerate() {
                if failures.len() >= 4 {
                    break 'cfgs;
                }
                if std::env::var("VH_DEBUG").is_ok() {
                    eprintln!("program {} config {} run {}", n, cname, ri);
                }
                let argv: Vec<Value> = run["args"].as_array().map(|a| a.iter().map(limbs_to_value).collect()).unwrap_or_default();
                let hostq: Vec<i64> = p["hostq"].as_array().map(|a| a.iter().map(|x| limbs_to_u64(x) as i64).collect()).unwrap_or_default();
                let exp_status = run["out"]["status"].as_str().unwrap_or("?").to_string();
                let hz: Vec<String> = run["out"]["hz"].as_array().map(|a| a.iter().filter_map(|x| x.as_str().map(String::from)).collect()).unwrap_or_default();
                let hazard_known: Vec<String> = hz.iter().filter(|h| *h == "D1" || *h == "D2" || *h == "D4" || *h == "D5" || *h == "D6").cloned().collect();
                let mut fail = |what: String, exp: J, got: J, known: Vec<String>, err: &str| {
                    failures.push(json!({"config": cname, "run": ri, "step": ri, "args": run["args"], "what": what, "exp": exp, "got": got,
                                         "exp_trapk": run["out"]["trapk"], "err": err, "known": known, "hz": hz}));
                };
                if exp_status == "any" || exp_status == "any-metered" {
                    // no oracle for the outcome (mutated or limit-vector module): it must run safely, and stop under a budget
                    if *metering == 0 && exp_status == "any-metered" {
                        continue;
                    }
                    let budget = if *metering == 0 { None } else { Some(2_000_000u64) };
                    let argv: Vec<Value> = match art.export.get(entry.as_str()) {
                        Some(_) => argv.clone(),
                        None => continue,
                    };
                    let obs = std::panic::catch_unwind(std::panic::AssertUnwindSafe(|| execute_budget(&art, &entry, &argv, hostq.clone(), budget)));
                    runs += 1;
                    match obs {
                        Err(pn) => fail(format!("panic during execution: {}", panic_message(pn)), J::Null, J::Null, vec![], ""),
                        Ok(obs) => {
                            *stats.entry(format!("any:{}", obs.status)).or_default() += 1;
                        }
                    }
                    continue;
                }
                if exp_status == "fuel" {
                    // the reference did not finish within its step bound: with metering and a finite budget the
                    // engine must stop, within a number of interpreter steps linear in the budget
                    if *metering == 0 {
                        continue;
                    }
                    let base = p[if *metering == 1 { "base_w0" } else { "base_w1" }].as_u64().unwrap_or(0);
                    for budget in [0u64, 1, base + 20, 1000, 100_000] {
                        let obs = std::panic::catch_unwind(std::panic::AssertUnwindSafe(|| execute_budget(&art, &entry, &argv, hostq.clone(), Some(budget))));
                        runs += 1;
                        match obs {
                            Err(pn) => fail(format!("panic during execution: {}", panic_message(pn)), J::Null, J::Null, vec![], ""),
                            Ok(obs) => {
                                *stats.entry(format!("fuel:{}", if obs.host.out_of_energy { "out-of-energy" } else { obs.status })).or_default() += 1;
                                // the reference is still running after `ref_fuel` steps; every loop iteration and every call costs
                                // at least 2 and executes at most `body_len` instructions of the generated function, so with a
                                // budget of 20 above the fixed cost of the template (`base`) the engine cannot legitimately have finished
                                if base > 0 && budget == base + 20 && obs.status == "done" && body_len > 0 && ref_fuel >= 2 * (body_len * 10 + 60) {
                                    fail(format!("the engine finished within an energy budget of {} a run that the reference has not finished after {} steps", budget, ref_fuel),
                                         json!("out of energy"), json!(["done", obs.host.ticked]), hazard_known.clone(), "");
                                }
                                if obs.steps > 4 * code_len * (obs.host.ticked + 1) + 16 {
                                    fail("interpreter steps not bounded by a linear function of the energy consumed".into(),
                                         json!({"bound": 4 * code_len * (obs.host.ticked + 1) + 16}), json!({"steps": obs.steps, "ticked": obs.host.ticked}), hazard_known.clone(), &obs.err);
                                }
                                max_ratio = max_ratio.max(obs.steps as f64 / ((obs.host.ticked + 1) as f64 * code_len as f64));
                            }
                        }
                    }
                    continue;
                }
                let obs = std::panic::catch_unwind(std::panic::AssertUnwindSafe(|| execute(&art, &entry, &argv, hostq.clone())));
                runs += 1;
                let obs = match obs {
                    Err(pn) => {
                        let msg = panic_message(pn);
                        if msg.contains("verif: step limit exceeded") {
                            // the reference finishes this run; the engine does not (attributed like any other disagreement)
                            *stats.entry("done:no-termination".into()).or_default() += 1;
                            fail("the engine does not terminate (step limit of the harness) on a run the reference finishes".into(), run["out"]["res"].clone(), json!("no termination"), hazard_known.clone(), "");
                        } else {
                            fail(format!("panic during execution: {}", msg), J::Null, J::Null, vec![], "");
                        }
                        continue;
                    }
                    Ok(o) => o,
                };
                if *metering != 0 && (obs.host.out_of_energy || obs.err.contains("tick limit of the harness")) {
                    engine_ran_away = true;
                }
                *stats.entry(format!("{}:{}", exp_status, obs.status)).or_default() += 1;
                if let Some((what, exp, got)) = compare_run(&obs, &run["out"], *metering) {
                    // Attribute to a recorded finding only through its root-cause signature (DESIGN 3.6):
                    //  D3: the engine's outcome equals the as-built outcome in which the deviation fired;
                    //  D1/D2/D4/D5/D6: the hazard predicate held on the executed reference path.
                    let mut known: Vec<String> = Vec::new();
                    for ab in run["out"]["abs"].as_array().cloned().unwrap_or_default() {
                        if compare_run(&obs, &ab, *metering).is_none() {
                            known = hz.iter().filter(|h| *h == "D3").cloned().collect();
                            break;
                        }
                    }
                    if known.is_empty() {
                        known = hazard_known.clone();
                    }
                    fail(what, exp, got, known, &obs.err);
                    continue;
                }
                if check_artifact {
                    // C13: the stored artifact, loaded zero-copy and converted to owned, behaves identically
                    if let (Some(borrowed), Some(owned)) = (borrowed.as_ref(), owned.as_ref()) {
                        let o1 = execute(borrowed, &entry, &argv, hostq.clone());
                        let o2 = execute(owned, &entry, &argv, hostq.clone());
                        runs += 2;
                        artifact_runs += 2;
                        if let Some(d) = same_observation(&obs, &o1) {
                            fail(format!("artifact loaded zero-copy from its serialisation behaves differently: {}", d), J::Null, J::Null, vec![], &o1.err);
                        }
                        if let Some(d) = same_observation(&obs, &o2) {
                            fail(format!("artifact loaded and converted to owned behaves differently: {}", d), J::Null, J::Null, vec![], &o2.err);
                        }
                    }
                }
                if check_interrupts && !obs.host.host_calls.is_empty() {
                    // C13: every subset of the host calls (up to 4 sites, then sampled) interrupts; resumed runs must match the inline run
                    let k = obs.host.host_calls.len().min(12);
                    let nsub: u64 = if k <= 4 { 1 << k } else { 16 };
                    for si in 1..nsub {
                        let mask: u64 = if k <= 4 { si } else { si.wrapping_mul(0x9E37_79B9_7F4A_7C15) >> (64 - k) };
                        let sched: Vec<usize> = (0..k).filter(|i| mask >> i & 1 == 1).collect();
                        if sched.is_empty() {
                            continue;
                        }
                        let o = std::panic::catch_unwind(std::panic::AssertUnwindSafe(|| execute_sched(&art, &entry, &argv, hostq.clone(), None, sched.clone())));
                        runs += 1;
                        interrupt_runs += 1;
                        match o {
                            Err(pn) => fail(format!("panic during interrupted execution {:?}: {}", sched, panic_message(pn)), J::Null, J::Null, vec![], ""),
                            Ok(o) => {
                                if let Some(d) = same_observation(&obs, &o) {
                                    fail(format!("execution interrupted at host calls {:?} and resumed differs from the uninterrupted one: {}", sched, d), J::Null, json!(sched), hazard_known.clone(), &o.err);
                                }
                                if o.host.interrupts == 0 {
                                    fail("no interrupt happened although one was scheduled".into(), J::Null, json!(sched), vec![], "");
                                }
                            }
                        }
                    }
                }
                if *metering > 0 {
                    metered_runs += 1;
                    if obs.steps > 4 * code_len * (obs.host.ticked + 1) + 16 {
                        fail("interpreter steps not bounded by a linear function of the energy consumed".into(),
                             json!({"bound": 4 * code_len * (obs.host.ticked + 1) + 16}), json!({"steps": obs.steps, "ticked": obs.host.ticked}), vec![], &obs.err);
                    }
                    max_ratio = max_ratio.max(obs.steps as f64 / ((obs.host.ticked + 1) as f64 * code_len as f64));
                    if obs.status == "done" && !skip_budgets {
                        let total = obs.host.ticked;
                        // identical executions charge identically
                        let again = execute(&art, &entry, &argv, hostq.clone());
                        if again.host.ticks != obs.host.ticks || again.res != obs.res {
                            fail("two executions differ in result or tick sequence".into(), json!(obs.host.ticks), json!(again.host.ticks), vec![], "");
                        }
                        // a budget of exactly the energy used succeeds with nothing left, one less runs out of energy,
                        // a larger one changes only what remains
                        for (budget, want_ok) in [(total.wrapping_sub(1), false), (total, true), (total + 5, true)] {
                            if total == 0 && !want_ok {
                                continue;
                            }
                            let o = execute_budget(&art, &entry, &argv, hostq.clone(), Some(budget));
                            runs += 1;
                            budget_runs += 1;
                            let ok = o.status == "done";
                            if ok != want_ok || (ok && (o.res != obs.res || o.memory != obs.memory || o.host.ticked != total)) || (!ok && !o.host.out_of_energy) {
                                fail(format!("budget {} (energy used without limit: {})", budget, total),
                                     json!(if want_ok { "same outcome, remaining = budget - used" } else { "out of energy" }),
                                     json!([o.status, o.host.ticked, o.err]), hazard_known.clone(), &o.err);
                            }
                        }
                    }
                }
            }
        }
        for mut f in failures {
            bad += 1;
            f["idx"] = json!(n);
            f["ok"] = json!(false);
            out.push_str(&f.to_string());
            out.push('\n');
        }
    }
    out.push_str(&json!({"summary": true, "behaviours": lines.len(), "runs": runs, "bad": bad, "by_action": stats,
        "metered_runs": metered_runs, "budget_runs": budget_runs, "artifact_runs": artifact_runs, "interrupt_runs": interrupt_runs, "max_steps_per_energy_and_instruction": max_ratio}).to_string());
    out.push('\n');
    if std::fs::write(&args[1], out).is_err() {
        return 2;
    }
    0
}
