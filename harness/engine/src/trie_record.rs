//! impl -> spec: drive the real trie with a seeded random workload and record one ndjson event
//! per API call (arguments, returned value, projected contents of the current generation after
//! the call).  The trace is validated by TLC against StateTrieTrace.tla.
use crate::{
    trie_sut::{Mode, Sut},
    util::*,
};
use concordium_smart_contract_engine::v1::trie::{
    verif::{self, VerifIterator},
    EntryId,
};
use rand::{rngs::SmallRng, Rng, SeedableRng};
use serde_json::{json, Value};
use std::io::Write;

const ALPHABET: [u8; 5] = [0x00, 0x01, 0x10, 0x11, 0xff];

fn key_pool(rng: &mut SmallRng, n: usize) -> Vec<Vec<u8>> {
    let mut pool: Vec<Vec<u8>> = vec![vec![]];
    while pool.len() < n {
        let base = pool[rng.gen_range(0..pool.len())].clone();
        let mut k = base;
        match rng.gen_range(0..4) {
            0 if !k.is_empty() => {
                k.pop();
            }
            1 if !k.is_empty() => {
                let i = k.len() - 1;
                k[i] = ALPHABET[rng.gen_range(0..ALPHABET.len())];
            }
            _ => {
                if k.len() < 6 {
                    k.push(ALPHABET[rng.gen_range(0..ALPHABET.len())]);
                }
            }
        }
        if !pool.contains(&k) {
            pool.push(k);
        }
    }
    pool
}

fn map_json(sut: &mut Sut) -> Value {
    let n = sut.ngens();
    let kv = sut.project_gen(n);
    Value::Array(
        kv.iter()
            .map(|(k, v)| json!([bytes_json(k), class_of_value(v).map(Value::from).unwrap_or_else(|| json!(-1))]))
            .collect(),
    )
}

pub fn record_one(out: &mut impl Write, seed: u64, nops: usize, mode: Mode) -> std::io::Result<()> {
    let mut rng = SmallRng::seed_from_u64(seed);
    let pool = key_pool(&mut rng, 12);
    let mut sut = Sut::new(mode);
    let mut ents: Vec<(EntryId, usize)> = Vec::new();
    let mut its: Vec<(u64, VerifIterator, usize)> = Vec::new();
    let mut next_iter_id: u64 = 1;
    writeln!(out, "{}", json!({"a": "reset", "r": ["ok"], "m": []}))?;
    let modes = ["plain", "store_reload", "serialize", "cache", "migrate", "store_keep"];
    for _ in 0..nops {
        let cur = sut.ngens();
        let k = pool[rng.gen_range(0..pool.len())].clone();
        let pfx = {
            let mut p = pool[rng.gen_range(0..pool.len())].clone();
            if !p.is_empty() && rng.gen_bool(0.4) {
                p.truncate(rng.gen_range(0..p.len()));
            }
            p
        };
        let vclass: u64 = rng.gen_range(0..5);
        let choice = rng.gen_range(0..100);
        let mut ev = match choice {
            0..=24 => {
                let r = match sut.insert(&k, value_of_class(vclass)) {
                    Ok((e, existed)) => {
                        ents.push((e, cur));
                        json!(["ok", verif::entry_index(e), existed as u8])
                    }
                    Err(()) => json!(["locked"]),
                };
                json!({"a": "insert", "k": bytes_json(&k), "v": vclass, "r": r})
            }
            25..=34 => {
                let r = match sut.get(&k) {
                    Some(e) => {
                        ents.push((e, cur));
                        json!(["some", verif::entry_index(e)])
                    }
                    None => json!(["none"]),
                };
                json!({"a": "get", "k": bytes_json(&k), "r": r})
            }
            35..=44 if ents.iter().any(|x| x.1 == cur) => {
                let c: Vec<EntryId> = ents.iter().filter(|x| x.1 == cur).map(|x| x.0).collect();
                let e = c[rng.gen_range(0..c.len())];
                let r = match sut.read(e) {
                    Some(v) => json!(["some", class_of_value(&v).map(|c| c as i64).unwrap_or(-1)]),
                    None => json!(["none"]),
                };
                json!({"a": "read", "e": verif::entry_index(e), "r": r})
            }
            45..=54 if ents.iter().any(|x| x.1 == cur) => {
                let c: Vec<EntryId> = ents.iter().filter(|x| x.1 == cur).map(|x| x.0).collect();
                let e = c[rng.gen_range(0..c.len())];
                let via = if rng.gen_bool(0.5) { "set" } else { "getmut" };
                let ok = if via == "set" { sut.set(e, value_of_class(vclass)) } else { sut.getmut_write(e, value_of_class(vclass)) };
                json!({"a": via, "e": verif::entry_index(e), "v": vclass, "r": if ok { json!(["ok"]) } else { json!(["none"]) }})
            }
            55..=64 => {
                let r = match sut.delete(&k) {
                    Ok(b) => json!(["ok", b as u8]),
                    Err(()) => json!(["locked"]),
                };
                json!({"a": "delete", "k": bytes_json(&k), "r": r})
            }
            65..=69 => {
                let r = match sut.delprefix(&pfx) {
                    Ok(b) => json!(["ok", b as u8]),
                    Err(()) => json!(["locked"]),
                };
                json!({"a": "delprefix", "k": bytes_json(&pfx), "r": r})
            }
            70..=76 if its.len() < 4 => {
                let r = match sut.iter(&pfx) {
                    Some(it) => {
                        let id = next_iter_id;
                        next_iter_id += 1;
                        its.push((id, it, cur));
                        json!(["some", id])
                    }
                    None => json!(["none"]),
                };
                json!({"a": "iter", "k": bytes_json(&pfx), "r": r})
            }
            77..=86 if its.iter().any(|x| x.2 == cur) => {
                let cands: Vec<usize> = (0..its.len()).filter(|i| its[*i].2 == cur).collect();
                let i = cands[rng.gen_range(0..cands.len())];
                let id = its[i].0;
                let r = match sut.next(&mut its[i].1) {
                    Some((e, key)) => {
                        ents.push((e, cur));
                        json!(["some", verif::entry_index(e), bytes_json(&key)])
                    }
                    None => json!(["none"]),
                };
                json!({"a": "next", "i": id, "r": r})
            }
            87..=90 if its.iter().any(|x| x.2 == cur) => {
                let cands: Vec<usize> = (0..its.len()).filter(|i| its[*i].2 == cur).collect();
                let i = cands[rng.gen_range(0..cands.len())];
                let (id, it, _) = its.remove(i);
                let ok = sut.deliter(&it);
                json!({"a": "deliter", "i": id, "r": ["ok", ok as u8]})
            }
            91..=93 if cur < 4 => {
                sut.newgen();
                json!({"a": "newgen", "r": ["ok", cur]})
            }
            94..=96 if cur > 1 => {
                let g = rng.gen_range(1..cur);
                sut.normalize(g);
                ents.retain(|x| x.1 <= g);
                its.retain(|x| x.2 <= g);
                json!({"a": "normalize", "g": g, "r": ["ok"]})
            }
            97..=99 => {
                let pm = modes[rng.gen_range(0..modes.len())];
                ents.clear();
                its.clear();
                match sut.freeze_thaw(pm) {
                    Ok(info) => {
                        json!({"a": "freeze", "mode": pm, "r": ["ok"], "hash": hex::encode(info.hash_thawed),
                               "hash_frozen": hex::encode(info.hash_frozen), "collected": info.collected})
                    }
                    Err(e) => json!({"a": "freeze", "mode": pm, "r": ["error", e]}),
                }
            }
            _ => continue,
        };
        ev["m"] = map_json(&mut sut);
        writeln!(out, "{}", ev)?;
    }
    Ok(())
}

pub fn main(args: &[String]) -> i32 {
    // trie-record <out.ndjson> <seed> <executions> <ops per execution>
    if args.len() < 4 {
        eprintln!("usage: trie-record <out.ndjson> <seed> <executions> <ops>");
        return 2;
    }
    let seed: u64 = args[1].parse().unwrap_or(0);
    let execs: u64 = args[2].parse().unwrap_or(1);
    let nops: usize = args[3].parse().unwrap_or(100);
    let f = match std::fs::File::create(&args[0]) {
        Ok(f) => f,
        Err(e) => {
            eprintln!("cannot create {}: {}", args[0], e);
            return 2;
        }
    };
    let mut out = std::io::BufWriter::new(f);
    std::panic::set_hook(Box::new(|_| {}));
    for i in 0..execs {
        let mode = if i % 2 == 0 { Mode::Trie } else { Mode::State };
        let r = std::panic::catch_unwind(std::panic::AssertUnwindSafe(|| {
            record_one(&mut out, seed.wrapping_mul(1000003).wrapping_add(i), nops, mode)
        }));
        match r {
            Ok(Ok(())) => {}
            Ok(Err(e)) => {
                eprintln!("write error: {}", e);
                return 2;
            }
            Err(p) => {
                // a panic of the code under test is data: it becomes an event no spec action explains
                let _ = writeln!(out, "{}", json!({"a": "panic", "msg": panic_message(p), "r": ["panic"], "m": []}));
            }
        }
    }
    0
}
