//! spec -> impl: replay behaviours exported by TLC from StateTrie.tla into the real trie and
//! compare, after every step, the returned value, the contents of every generation, the
//! persistent state, every handle the spec knows about, and (C04) hashes.
use crate::{
    trie_sut::{Mode, Sut, KV},
    util::*,
};
use concordium_smart_contract_engine::v1::trie::{verif::VerifIterator, EntryId};
use serde_json::{json, Value};
use std::collections::{BTreeMap, HashMap};

fn kv_of_spec(m: &Value) -> KV {
    m.as_array()
        .map(|a| {
            a.iter()
                .map(|p| (bytes_of(&p[0]), value_of_class(p[1].as_u64().unwrap_or(0))))
                .collect()
        })
        .unwrap_or_default()
}

fn kv_json(kv: &KV) -> Value {
    Value::Array(
        kv.iter()
            .map(|(k, v)| json!([bytes_json(k), class_of_value(v).map(Value::from).unwrap_or_else(|| bytes_json(v))]))
            .collect(),
    )
}

pub struct Mismatch {
    pub step: usize,
    pub what: String,
    pub exp:  Value,
    pub got:  Value,
}

macro_rules! bail {
    ($step:expr, $what:expr, $exp:expr, $got:expr) => {
        return Err(Mismatch { step: $step, what: $what.to_string(), exp: $exp, got: $got })
    };
}

/// Run-wide tables for C04: contents -> hash must be a function, and injective.
#[derive(Default)]
pub struct HashTables {
    pub by_contents: HashMap<Vec<u8>, [u8; 32]>,
    pub by_hash:     HashMap<[u8; 32], Vec<u8>>,
    /// rows for the comparison with the spec's Merkle / serialisation terms (TrieCanon.tla)
    pub rows:        HashMap<Vec<u8>, (Value, [u8; 32], Option<Vec<u8>>)>,
}

fn contents_digest(kv: &KV) -> Vec<u8> {
    let mut out = Vec::new();
    for (k, v) in kv {
        out.extend_from_slice(&(k.len() as u32).to_be_bytes());
        out.extend_from_slice(k);
        out.extend_from_slice(&(v.len() as u32).to_be_bytes());
        out.extend_from_slice(v);
    }
    out
}

impl HashTables {
    pub fn check_ser(&mut self, kv: &KV, h: [u8; 32], ser: Vec<u8>) -> Result<(), String> {
        self.check(kv, h)?;
        let d = contents_digest(kv);
        if let Some(row) = self.rows.get_mut(&d) {
            match &row.2 {
                Some(prev) if *prev != ser => return Err("same contents, different serialisation".to_string()),
                _ => row.2 = Some(ser),
            }
        }
        Ok(())
    }

    pub fn check(&mut self, kv: &KV, h: [u8; 32]) -> Result<(), String> {
        let d = contents_digest(kv);
        self.rows.entry(d.clone()).or_insert_with(|| (kv_json(kv), h, None));
        if let Some(prev) = self.by_contents.get(&d) {
            if *prev != h {
                return Err(format!("same contents, different hash: {} vs {}", hex::encode(prev), hex::encode(h)));
            }
        } else {
            self.by_contents.insert(d.clone(), h);
        }
        if let Some(prev) = self.by_hash.get(&h) {
            if *prev != d {
                return Err("different contents, same hash".to_string());
            }
        } else {
            self.by_hash.insert(h, d);
        }
        Ok(())
    }
}

pub struct Stats {
    pub steps:    u64,
    pub by_action: BTreeMap<String, u64>,
}

pub fn replay_one(
    steps: &[Value],
    mode: Mode,
    tables: &mut HashTables,
    stats: &mut Stats,
    check_hash: bool,
) -> Result<(), Mismatch> {
    let mut sut = Sut::new(mode);
    let mut ents: HashMap<u64, (EntryId, usize)> = HashMap::new(); // spec id -> (real id, gen)
    let mut its: HashMap<u64, (VerifIterator, usize)> = HashMap::new();
    // the spec's map of every generation at the time it stopped being current
    let mut gen_maps: Vec<KV> = vec![vec![]];
    let mut persist_map: KV = vec![];
    for (idx, st) in steps.iter().enumerate() {
        let a = st["a"].as_str().unwrap_or("");
        let r = &st["r"];
        let r0 = r[0].as_str().unwrap_or("");
        stats.steps += 1;
        *stats.by_action.entry(format!("{}:{}", a, r0)).or_default() += 1;
        let cur = gen_maps.len();
        match a {
            "insert" => {
                let k = bytes_of(&st["k"]);
                let v = value_of_class(st["v"].as_u64().unwrap());
                match sut.insert(&k, v) {
                    Err(()) => {
                        if r0 != "locked" {
                            bail!(idx, "insert refused", r.clone(), json!(["locked"]));
                        }
                    }
                    Ok((e, existed)) => {
                        if r0 != "ok" || (r[2].as_u64() == Some(1)) != existed {
                            bail!(idx, "insert result", r.clone(), json!(["ok", "?", existed as u8]));
                        }
                        ents.entry(r[1].as_u64().unwrap()).or_insert((e, cur));
                    }
                }
            }
            "get" => {
                let k = bytes_of(&st["k"]);
                match sut.get(&k) {
                    None => {
                        if r0 != "none" {
                            bail!(idx, "get_entry", r.clone(), json!(["none"]));
                        }
                    }
                    Some(e) => {
                        if r0 != "some" {
                            bail!(idx, "get_entry", r.clone(), json!(["some"]));
                        }
                        ents.entry(r[1].as_u64().unwrap()).or_insert((e, cur));
                    }
                }
            }
            "read" => {
                let e = ents[&st["e"].as_u64().unwrap()].0;
                let got = sut.read(e);
                let exp = if r0 == "some" { Some(value_of_class(r[1].as_u64().unwrap())) } else { None };
                if got != exp {
                    bail!(idx, "read through handle", r.clone(), json!(got.map(|v| kv_json(&vec![(vec![], v)]))));
                }
            }
            "set" | "getmut" => {
                let e = ents[&st["e"].as_u64().unwrap()].0;
                let v = value_of_class(st["v"].as_u64().unwrap());
                let ok = if a == "set" { sut.set(e, v) } else { sut.getmut_write(e, v) };
                if ok != (r0 == "ok") {
                    bail!(idx, "write through handle", r.clone(), json!(ok));
                }
            }
            "delete" => {
                let k = bytes_of(&st["k"]);
                match sut.delete(&k) {
                    Err(()) => {
                        if r0 != "locked" {
                            bail!(idx, "delete refused", r.clone(), json!(["locked"]));
                        }
                    }
                    Ok(existed) => {
                        if r0 != "ok" || (r[1].as_u64() == Some(1)) != existed {
                            bail!(idx, "delete result", r.clone(), json!(["ok", existed as u8]));
                        }
                    }
                }
            }
            "delprefix" => {
                let k = bytes_of(&st["k"]);
                match sut.delprefix(&k) {
                    Err(()) => {
                        if r0 != "locked" {
                            bail!(idx, "delete_prefix refused", r.clone(), json!(["locked"]));
                        }
                    }
                    Ok(deleted) => {
                        if r0 != "ok" || (r[1].as_u64() == Some(1)) != deleted {
                            bail!(idx, "delete_prefix result", r.clone(), json!(["ok", deleted as u8]));
                        }
                    }
                }
            }
            "iter" => {
                let k = bytes_of(&st["k"]);
                match sut.iter(&k) {
                    None => {
                        if r0 != "none" {
                            bail!(idx, "iter", r.clone(), json!(["none"]));
                        }
                    }
                    Some(it) => {
                        if r0 != "some" {
                            // release the lock we did not expect, so the report is about this step only
                            bail!(idx, "iter", r.clone(), json!(["some"]));
                        }
                        its.insert(r[1].as_u64().unwrap(), (it, cur));
                    }
                }
            }
            "next" => {
                let id = st["i"].as_u64().unwrap();
                let (mut it, g) = its.remove(&id).expect("iterator");
                let got = sut.next(&mut it);
                its.insert(id, (it, g));
                match got {
                    None => {
                        if r0 != "none" {
                            bail!(idx, "next", r.clone(), json!(["none"]));
                        }
                    }
                    Some((e, key)) => {
                        if r0 != "some" || bytes_of(&r[2]) != key {
                            bail!(idx, "next", r.clone(), json!(["some", "?", bytes_json(&key)]));
                        }
                        ents.entry(r[1].as_u64().unwrap()).or_insert((e, cur));
                    }
                }
            }
            "deliter" => {
                let id = st["i"].as_u64().unwrap();
                let (it, g) = its.remove(&id).expect("iterator");
                let got = sut.deliter(&it);
                its.insert(id, (it, g));
                if !got {
                    bail!(idx, "delete_iter", r.clone(), json!(["ok", 0]));
                }
            }
            "newgen" => {
                sut.newgen();
                let top = gen_maps.last().cloned().unwrap();
                gen_maps.push(top);
            }
            "normalize" => {
                let g = st["g"].as_u64().unwrap() as usize;
                sut.normalize(g);
                gen_maps.truncate(g);
                ents.retain(|_, (_, eg)| *eg <= g);
                its.retain(|_, (_, ig)| *ig <= g);
            }
            "freeze" => {
                let was_modified = sut.modified;
                let exp_map = kv_of_spec(&st["m"]);
                match sut.freeze_thaw(st["mode"].as_str().unwrap_or("plain")) {
                    Err(e) => bail!(idx, "freeze/persist failed", Value::Null, json!(e)),
                    Ok(info) => {
                        if info.hash_frozen != info.hash_thawed {
                            bail!(idx, "hash changed by persistence", json!(hex::encode(info.hash_frozen)), json!(hex::encode(info.hash_thawed)));
                        }
                        if info.contents_new != exp_map {
                            bail!(idx, "contents after freeze/persist/thaw", kv_json(&exp_map), kv_json(&info.contents_new));
                        }
                        if !was_modified && info.collected != 0 {
                            bail!(idx, "refreeze of unmodified state reports new data", json!(0), json!(info.collected));
                        }
                        if check_hash {
                            if let Err(e) = tables.check_ser(&exp_map, info.hash_thawed, info.serialized.clone()) {
                                bail!(idx, "hash not canonical", Value::Null, json!(e));
                            }
                        }
                    }
                }
                ents.clear();
                its.clear();
                gen_maps = vec![exp_map.clone()];
                persist_map = exp_map;
            }
            other => bail!(idx, format!("unknown action {}", other), Value::Null, Value::Null),
        }
        // ---- full projection after the step
        let exp_map = kv_of_spec(&st["m"]);
        *gen_maps.last_mut().unwrap() = exp_map;
        let n = gen_maps.len();
        for g in 1..=n {
            let got = sut.project_gen(g);
            if got != gen_maps[g - 1] {
                bail!(idx, format!("contents of generation {} (current {})", g, n), kv_json(&gen_maps[g - 1]), kv_json(&got));
            }
            if check_hash {
                let h = sut.hash_gen(g);
                if let Err(e) = tables.check(&got, h) {
                    bail!(idx, format!("hash of generation {} not canonical", g), Value::Null, json!(e));
                }
            }
        }
        let got_p = sut.project_persist();
        if got_p != persist_map {
            bail!(idx, "persistent state changed", kv_json(&persist_map), kv_json(&got_p));
        }
        // every handle of the current generation the spec knows: [id, key, alive]
        if let Some(hs) = st["h"].as_array() {
            let curmap: HashMap<Vec<u8>, Vec<u8>> = gen_maps[n - 1].iter().cloned().collect();
            for h in hs {
                let id = h[0].as_u64().unwrap();
                if let Some((e, _)) = ents.get(&id) {
                    let got = sut.read(*e);
                    let exp = if h[2].as_bool() == Some(true) { curmap.get(&bytes_of(&h[1])).cloned() } else { None };
                    if got != exp {
                        bail!(idx, format!("handle {} (key {:?})", id, bytes_of(&h[1])), json!(exp.map(|v| class_of_value(&v))), json!(got.map(|v| class_of_value(&v))));
                    }
                }
            }
        }
    }
    Ok(())
}

pub fn main(args: &[String]) -> i32 {
    // trie-replay <behaviours.ndjson> <out.ndjson> [--nohash]
    if args.len() < 2 {
        eprintln!("usage: trie-replay <behaviours.ndjson> <results.ndjson> [--nohash]");
        return 2;
    }
    let check_hash = !args.iter().any(|a| a == "--nohash");
    let table_path = args.iter().position(|a| a == "--table").and_then(|i| args.get(i + 1)).cloned();
    let lines = read_lines(&args[0]);
    let mut out = String::new();
    let mut tables = HashTables::default();
    let mut stats = Stats { steps: 0, by_action: BTreeMap::new() };
    let mut bad = 0u64;
    std::panic::set_hook(Box::new(|_| {}));
    for (n, line) in lines.iter().enumerate() {
        let v: Value = match serde_json::from_str(line) {
            Ok(v) => v,
            Err(e) => {
                eprintln!("line {}: bad json: {}", n, e);
                return 2;
            }
        };
        let steps = v.as_array().cloned().unwrap_or_default();
        for mode in [Mode::Trie, Mode::State] {
            let res = std::panic::catch_unwind(std::panic::AssertUnwindSafe(|| {
                replay_one(&steps, mode, &mut tables, &mut stats, check_hash)
            }));
            let rec = match res {
                Ok(Ok(())) => continue,
                Ok(Err(m)) => json!({"idx": n, "mode": format!("{:?}", mode), "ok": false, "step": m.step, "what": m.what, "exp": m.exp, "got": m.got}),
                Err(p) => json!({"idx": n, "mode": format!("{:?}", mode), "ok": false, "step": -1, "what": format!("panic: {}", panic_message(p))}),
            };
            bad += 1;
            out.push_str(&rec.to_string());
            out.push('\n');
        }
    }
    let summary = json!({"summary": true, "behaviours": lines.len(), "steps": stats.steps, "bad": bad,
        "by_action": stats.by_action, "distinct_contents": tables.by_contents.len()});
    out.push_str(&summary.to_string());
    out.push('\n');
    if let Some(tp) = table_path {
        let mut t = String::new();
        for (_, (m, h, ser)) in tables.rows.iter() {
            t.push_str(&json!({"m": m, "hash": hex::encode(h), "ser": ser.as_ref().map(hex::encode)}).to_string());
            t.push('\n');
        }
        if let Err(e) = std::fs::write(&tp, t) {
            eprintln!("cannot write {}: {}", tp, e);
            return 2;
        }
    }
    if let Err(e) = std::fs::write(&args[1], out) {
        eprintln!("cannot write {}: {}", args[1], e);
        return 2;
    }
    0
}
