//! The trie "system under test": one object offering the operations of StateTrie.tla on the
//! real MutableTrie / MutableState / PersistentState, in two driving modes:
//!   Trie  - one MutableTrie, generations through the H1 wrappers new_generation/normalize;
//!   State - a stack of MutableState handles (make_fresh_generation / get_inner / freeze / thaw).
use crate::mem::MemStore;
use concordium_smart_contract_engine::v1::trie::{
    verif, EmptyCollector, EntryId, Loadable, MutableState, MutableTrie, PersistentState,
    SizeCollector,
};

#[derive(Clone, Copy, PartialEq, Eq, Debug)]
pub enum Mode {
    Trie,
    State,
}

pub type KV = Vec<(Vec<u8>, Vec<u8>)>;

pub struct FreezeInfo {
    pub hash_frozen:  [u8; 32],
    pub hash_thawed:  [u8; 32],
    pub collected:    u64,
    pub serialized:   Vec<u8>,
    pub contents_new: KV,
}

pub struct Sut {
    pub mode:     Mode,
    pub store:    MemStore,
    pub persist:  PersistentState,
    trie:         Option<MutableTrie>,
    handles:      Vec<MutableState>,
    ngens_trie:   usize,
    pub modified: bool,
}

fn hash_of(ps: &PersistentState, store: &mut MemStore) -> [u8; 32] {
    let h = ps.hash(store);
    let mut out = [0u8; 32];
    out.copy_from_slice(h.as_ref());
    out
}

pub fn iterate_trie(trie: &mut MutableTrie, store: &mut MemStore, prefix: &[u8]) -> KV {
    let mut out = Vec::new();
    if let Ok(Some(mut it)) = verif::iter(trie, store, prefix) {
        while let (Some(e), _) = verif::next(trie, store, &mut it) {
            let key = it.get_key().to_vec();
            let val = trie.with_entry(e, store, |v| v.to_vec()).unwrap_or_default();
            out.push((key, val));
        }
        verif::delete_iter(trie, &it);
    }
    out
}

impl Sut {
    pub fn new(mode: Mode) -> Self { Self::from_persistent(mode, PersistentState::Empty, MemStore::default()) }

    pub fn from_persistent(mode: Mode, persist: PersistentState, mut store: MemStore) -> Self {
        let (trie, handles) = match mode {
            Mode::Trie => (Some(persist.clone().into_trie(&mut store)), vec![]),
            Mode::State => {
                let mut h = persist.thaw();
                h.get_inner(&mut store); // materialise generation 0 (see DESIGN O5)
                (None, vec![h])
            }
        };
        Sut { mode, store, persist, trie, handles, ngens_trie: 1, modified: false }
    }

    pub fn with<X>(&mut self, f: impl FnOnce(&mut MutableTrie, &mut MemStore) -> X) -> X {
        match self.mode {
            Mode::Trie => f(self.trie.as_mut().expect("trie"), &mut self.store),
            Mode::State => {
                let store = &mut self.store;
                let inner = self.handles.last_mut().expect("handle").get_inner(store);
                let mut guard = inner.lock();
                f(&mut guard, store)
            }
        }
    }

    pub fn insert(&mut self, k: &[u8], v: Vec<u8>) -> Result<(EntryId, bool), ()> {
        let r = self.with(|t, s| t.insert(s, k, v)).map_err(|_| ());
        if r.is_ok() {
            self.modified = true;
        }
        r
    }

    pub fn get(&mut self, k: &[u8]) -> Option<EntryId> { self.with(|t, s| t.get_entry(s, k)) }

    pub fn read(&mut self, e: EntryId) -> Option<Vec<u8>> { self.with(|t, s| t.with_entry(e, s, |v| v.to_vec())) }

    pub fn set(&mut self, e: EntryId, v: Vec<u8>) -> bool {
        let r = self.with(|t, _| t.set(e, v).is_some());
        if r {
            self.modified = true;
        }
        r
    }

    pub fn getmut_write(&mut self, e: EntryId, v: Vec<u8>) -> bool {
        let r = self.with(|t, s| match verif::get_mut(t, e, s) {
            Some(slot) => {
                *slot = v;
                true
            }
            None => false,
        });
        if r {
            self.modified = true;
        }
        r
    }

    pub fn delete(&mut self, k: &[u8]) -> Result<bool, ()> {
        let r = self.with(|t, s| t.delete(s, k)).map_err(|_| ());
        if r == Ok(true) {
            self.modified = true;
        }
        r
    }

    pub fn delprefix(&mut self, k: &[u8]) -> Result<bool, ()> {
        let r = self.with(|t, s| verif::delete_prefix(t, s, k).0).map_err(|_| ());
        if r == Ok(true) {
            self.modified = true;
        }
        r
    }

    pub fn iter(&mut self, k: &[u8]) -> Option<verif::VerifIterator> {
        self.with(|t, s| verif::iter(t, s, k)).expect("TooManyIterators is unreachable here")
    }

    pub fn next(&mut self, it: &mut verif::VerifIterator) -> Option<(EntryId, Vec<u8>)> {
        self.with(|t, s| verif::next(t, s, it).0.map(|e| (e, it.get_key().to_vec())))
    }

    pub fn deliter(&mut self, it: &verif::VerifIterator) -> bool { self.with(|t, _| verif::delete_iter(t, it)) }

    pub fn ngens(&mut self) -> usize {
        match self.mode {
            Mode::Trie => self.ngens_trie,
            Mode::State => self.handles.len(),
        }
    }

    pub fn newgen(&mut self) {
        match self.mode {
            Mode::Trie => {
                verif::new_generation(self.trie.as_mut().unwrap());
                self.ngens_trie += 1;
            }
            Mode::State => {
                let store = &mut self.store;
                let h = self.handles.last_mut().unwrap().make_fresh_generation(store);
                self.handles.push(h);
            }
        }
    }

    /// Roll back so that generation g (1-based) is current.
    pub fn normalize(&mut self, g: usize) {
        match self.mode {
            Mode::Trie => {
                verif::normalize(self.trie.as_mut().unwrap(), (g - 1) as u32);
                self.ngens_trie = g;
            }
            Mode::State => {
                self.handles.truncate(g);
                let store = &mut self.store;
                self.handles.last_mut().unwrap().get_inner(store);
            }
        }
    }

    /// Contents of generation g (1-based) observed on a clone of the structure.
    pub fn project_gen(&mut self, g: usize) -> KV {
        let mut clone: MutableTrie = self.with(|t, _| t.clone());
        verif::normalize(&mut clone, (g - 1) as u32);
        iterate_trie(&mut clone, &mut self.store, &[])
    }

    /// Hash of generation g (1-based) observed by freezing a clone.
    pub fn hash_gen(&mut self, g: usize) -> [u8; 32] {
        let mut clone: MutableTrie = self.with(|t, _| t.clone());
        verif::normalize(&mut clone, (g - 1) as u32);
        let ps = match clone.freeze(&mut self.store, &mut EmptyCollector) {
            Some(r) => PersistentState::from(r),
            None => PersistentState::Empty,
        };
        hash_of(&ps, &mut self.store)
    }

    pub fn project_persist(&mut self) -> KV { self.persist.clone().into_iterator(&mut self.store).collect() }

    pub fn lookup_persist(&mut self, k: &[u8]) -> Option<Vec<u8>> { self.persist.lookup(&mut self.store, k) }

    /// Freeze the current generation, persist the result according to `pmode`, thaw again.
    pub fn freeze_thaw(&mut self, pmode: &str) -> Result<FreezeInfo, String> {
        let mut collector = SizeCollector::default();
        let frozen = match self.mode {
            Mode::Trie => {
                let t = self.trie.take().unwrap();
                match t.freeze(&mut self.store, &mut collector) {
                    Some(r) => PersistentState::from(r),
                    None => PersistentState::Empty,
                }
            }
            Mode::State => {
                let store = &mut self.store;
                let mut top = self.handles.pop().unwrap();
                self.handles.clear();
                top.freeze(store, &mut collector)
            }
        };
        let collected = collector.collect();
        let hash_frozen = hash_of(&frozen, &mut self.store);
        let mut serialized = Vec::new();
        frozen.serialize(&mut self.store, &mut serialized).map_err(|e| format!("serialize: {}", e))?;
        let mut ps = frozen;
        match pmode {
            "plain" => {}
            "store_reload" | "cache" => {
                let r = ps.store_update(&mut self.store).map_err(|e| format!("store_update: {}", e))?;
                ps = PersistentState::load_from_location(&mut self.store, r).map_err(|e| format!("load: {}", e))?;
                if pmode == "cache" {
                    ps.cache(&mut self.store);
                }
            }
            "store_keep" => {
                // store but keep using the in-memory (now Cached) structure
                ps.store_update(&mut self.store).map_err(|e| format!("store_update: {}", e))?;
            }
            "serialize" => {
                ps = PersistentState::deserialize(&mut &serialized[..]).map_err(|e| format!("deserialize: {}", e))?;
            }
            "migrate" => {
                let mut new_store = MemStore::default();
                // make sure everything is in the old store first, then migrate to the new one
                ps.store_update(&mut self.store).map_err(|e| format!("store_update: {}", e))?;
                let ps2 = ps.migrate(&mut new_store, &mut self.store).map_err(|e| format!("migrate: {}", e))?;
                self.store = new_store;
                ps = ps2;
            }
            other => return Err(format!("unknown persist mode {}", other)),
        }
        let hash_thawed = hash_of(&ps, &mut self.store);
        self.persist = ps.clone();
        let contents_new: KV = ps.clone().into_iterator(&mut self.store).collect();
        match self.mode {
            Mode::Trie => {
                self.trie = Some(ps.into_trie(&mut self.store));
                self.ngens_trie = 1;
            }
            Mode::State => {
                let mut h = ps.thaw();
                h.get_inner(&mut self.store);
                self.handles = vec![h];
            }
        }
        self.modified = false;
        Ok(FreezeInfo { hash_frozen, hash_thawed, collected, serialized, contents_new })
    }
}
