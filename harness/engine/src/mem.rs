//! In-memory backing store implementing the engine's public load/store traits.
use concordium_smart_contract_engine::v1::trie::{
    BackingStoreLoad, BackingStoreStore, LoadError, LoadResult, Reference, WriteError,
};

#[derive(Default, Debug, Clone)]
pub struct MemStore {
    pub blobs: Vec<Vec<u8>>,
    pub loads: u64,
    pub stores: u64,
}

impl BackingStoreStore for MemStore {
    fn store_raw(&mut self, data: &[u8]) -> Result<Reference, WriteError> {
        self.stores += 1;
        self.blobs.push(data.to_vec());
        Ok(((self.blobs.len() - 1) as u64).into())
    }
}

impl BackingStoreLoad for MemStore {
    type R = Vec<u8>;

    fn load_raw(&mut self, location: Reference) -> LoadResult<Self::R> {
        self.loads += 1;
        let i: u64 = location.into();
        self.blobs.get(i as usize).cloned().ok_or(LoadError::OutOfBoundsRead)
    }
}
