//! C14: run generated contracts (scripts of host calls compiled to Wasm by checks/host.py) through
//! v1::invoke_receive / v0::invoke_receive with metering and report what the chain would observe:
//! outcome class, return value, logs, resulting state, remaining energy and the per-host-call
//! energy trace.  One JSON line in, one JSON line out.  Panics are data ("panic").
use crate::{mem::MemStore, trie_sut::iterate_trie, util::*};
use concordium_contracts_common::{AccountAddress, Address, Amount, ChainMetadata, ContractAddress, OwnedEntrypointName, ReceiveName, Timestamp};
use concordium_smart_contract_engine::{
    v0,
    v1::{self, trie::MutableState, DebugTracker, InstanceState, ReceiveParams, ReceiveResult},
    InterpreterEnergy,
};
use concordium_wasm::{validate::ValidationConfig, CostConfigurationV1};
use serde_json::{json, Value};

fn params_of(p: u64) -> ReceiveParams {
    match p {
        4 => ReceiveParams::new_p4(),
        5 => ReceiveParams::new_p5(),
        6 => ReceiveParams::new_p6(),
        _ => ReceiveParams::new_p7(),
    }
}

fn hexs(v: &Value) -> Vec<u8> { hex::decode(v.as_str().unwrap_or("")).unwrap_or_default() }

/// An init function: same scripts, run through v1::invoke_init (fresh state, init context).
fn run_v1_init(v: &Value) -> Value {
    use concordium_smart_contract_engine::v1::InitResult;
    let wasm = hexs(&v["wasm"]);
    let param = hexs(&v["param"]);
    let energy = v["energy"].as_u64().unwrap_or(1 << 40);
    let ictx: v0::InitContext<Vec<u8>> = v0::InitContext { metadata: ChainMetadata { slot_time: Timestamp::from_timestamp_millis(1_700_000_000_123) }, init_origin: AccountAddress([0x44; 32]), sender_policies: Vec::new() };
    let limit = v["proto"].as_u64().unwrap_or(7) <= 4;
    let res = v1::invoke_init_with_metering_from_source::<_, DebugTracker>(
        v1::InvokeFromSourceCtx { source: &wasm, amount: Amount::from_micro_ccd(0), parameter: &param, energy: InterpreterEnergy::new(energy), support_upgrade: true },
        ictx,
        "init_contract",
        MemStore::default(),
        ValidationConfig::V1,
        CostConfigurationV1,
        limit,
    );
    let trace_json = |t: &DebugTracker| -> Value {
        Value::Array(t.host_call_trace.iter().map(|(_, c)| json!([c.host_function.to_string(), c.energy_used.energy])).collect())
    };
    match res {
        Err(e) => json!({"outcome": "invalid_module", "error": e.to_string()}),
        Ok(InitResult::Success { logs, return_value, remaining_energy, mut state, trace }) => {
            let mut store = MemStore::default();
            let inner = state.get_inner(&mut store);
            let mut t = inner.lock().clone();
            let kv = iterate_trie(&mut t, &mut MemStore::default(), &[]);
            json!({"outcome": "success", "rv": hex::encode(&return_value), "logs": logs.iterate().map(hex::encode).collect::<Vec<_>>(), "remaining": remaining_energy.energy,
                   "trace": trace_json(&trace), "memory_alloc": trace.memory_alloc.energy, "state": kv.iter().map(|(k, x)| json!([bytes_json(k), bytes_json(x)])).collect::<Vec<_>>()})
        }
        Ok(InitResult::Reject { reason, return_value, remaining_energy, trace }) => {
            json!({"outcome": "reject", "reason": reason, "rv": hex::encode(&return_value), "remaining": remaining_energy.energy, "trace": trace_json(&trace), "state": []})
        }
        Ok(InitResult::Trap { error, remaining_energy, trace }) => {
            json!({"outcome": "trap", "error": format!("{:#}", error), "remaining": remaining_energy.energy, "trace": trace_json(&trace), "memory_alloc": trace.memory_alloc.energy, "state": []})
        }
        Ok(InitResult::OutOfEnergy { trace }) => json!({"outcome": "out_of_energy", "remaining": 0, "trace": trace_json(&trace), "state": []}),
    }
}

fn run_v1(v: &Value) -> Value {
    if v["entry"] == "init" {
        return run_v1_init(v);
    }
    let wasm = hexs(&v["wasm"]);
    let param = hexs(&v["param"]);
    let energy = v["energy"].as_u64().unwrap_or(1 << 40);
    let mut store = MemStore::default();
    let mut ms = MutableState::initial_state();
    {
        // initial contents
        let inner = ms.get_inner(&mut store);
        let mut t = inner.lock();
        for kv in v["init_state"].as_array().cloned().unwrap_or_default() {
            let _ = t.insert(&mut store, &bytes_of(&kv[0]), bytes_of(&kv[1]));
        }
    }
    let inner = ms.get_inner(&mut store);
    let is = InstanceState::new(MemStore::default(), &*inner);
    let rctx: v1::ReceiveContext<Vec<u8>> = v1::ReceiveContext {
        common:     v0::ReceiveContext {
            metadata:        ChainMetadata { slot_time: Timestamp::from_timestamp_millis(1_700_000_000_123) },
            invoker:         AccountAddress([0x11; 32]),
            self_address:    ContractAddress::new(7, 9),
            self_balance:    Amount::from_micro_ccd(4242),
            sender:          Address::Account(AccountAddress([0x22; 32])),
            owner:           AccountAddress([0x33; 32]),
            sender_policies: Vec::new(),
        },
        entrypoint: OwnedEntrypointName::new_unchecked("entry".into()),
    };
    let name = "contract.entry";
    let res = v1::invoke_receive_with_metering_from_source::<_, _, v1::ReceiveContext<Vec<u8>>, DebugTracker>(
        ValidationConfig::V1,
        CostConfigurationV1,
        v1::InvokeFromSourceCtx { source: &wasm, amount: Amount::from_micro_ccd(0), parameter: &param, energy: InterpreterEnergy::new(energy), support_upgrade: true },
        rctx,
        ReceiveName::new_unchecked(name),
        is,
        params_of(v["proto"].as_u64().unwrap_or(7)),
    );
    let trace_json = |t: &DebugTracker| -> Value {
        Value::Array(t.host_call_trace.iter().map(|(_, c)| json!([c.host_function.to_string(), c.energy_used.energy])).collect())
    };
    // the chain's side of interrupts: answer each interrupt with the next scripted response and resume
    let responses = v["responses"].as_array().cloned().unwrap_or_default();
    let mut next_response = 0usize;
    let mut interrupts: Vec<Value> = Vec::new();
    let mut res: Result<ReceiveResult<_, DebugTracker>, String> = res.map_err(|e| e.to_string());
    loop {
        match res {
            Ok(ReceiveResult::Interrupt { remaining_energy, state_changed, logs, config, interrupt, trace }) if next_response < responses.len() => {
                let r = &responses[next_response];
                next_response += 1;
                interrupts.push(json!({"state_changed": state_changed, "logs": logs.iterate().count(), "trace": trace_json(&trace)}));
                let _ = interrupt;
                let updated = r["state_updated"].as_bool().unwrap_or(false);
                let mut fresh = ms.make_fresh_generation(&mut store);
                {
                    let inner = fresh.get_inner(&mut store);
                    let mut t = inner.lock();
                    for op in r["ops"].as_array().cloned().unwrap_or_default() {
                        let k = bytes_of(&op[1]);
                        if op[0] == "put" {
                            let _ = t.insert(&mut store, &k, bytes_of(&op[2]));
                        } else {
                            let _ = t.delete(&mut store, &k);
                        }
                    }
                }
                if updated {
                    ms = fresh;
                } else {
                    drop(fresh);
                }
                let response = match r["kind"].as_str().unwrap_or("success") {
                    "success" => v1::InvokeResponse::Success { new_balance: Amount::from_micro_ccd(r["new_balance"].as_u64().unwrap_or(4242)), data: r["data"].as_str().map(|h| hex::decode(h).unwrap_or_default().into()) },
                    "reject" => v1::InvokeResponse::Failure { kind: v1::InvokeFailure::ContractReject { code: -7, data: hex::decode(r["data"].as_str().unwrap_or("")).unwrap_or_default().into() } },
                    "no_account" => v1::InvokeResponse::Failure { kind: v1::InvokeFailure::NonExistentAccount },
                    _ => v1::InvokeResponse::Failure { kind: v1::InvokeFailure::InsufficientAmount },
                };
                res = v1::resume_receive::<_, DebugTracker>(config, response, remaining_energy, &mut ms, updated, MemStore::default()).map_err(|e| e.to_string());
            }
            other => {
                res = other;
                break;
            }
        }
    }
    let mut out = match res {
        Err(e) => json!({"outcome": "invalid_module", "error": e}),
        Ok(ReceiveResult::Success { logs, state_changed, return_value, remaining_energy, trace }) => json!({
            "outcome": "success", "rv": hex::encode(&return_value), "logs": logs.iterate().map(hex::encode).collect::<Vec<_>>(),
            "state_changed": state_changed, "remaining": remaining_energy.energy, "trace": trace_json(&trace), "memory_alloc": trace.memory_alloc.energy, "operation": trace.operation.energy}),
        Ok(ReceiveResult::Interrupt { remaining_energy, state_changed, logs, interrupt, trace, .. }) => {
            let (tag, detail) = match &interrupt {
                v1::Interrupt::Transfer { to, amount } => (0, json!({"to": hex::encode(to.0), "amount": amount.micro_ccd})),
                v1::Interrupt::Call { address, parameter, name, amount } => {
                    (1, json!({"index": address.index, "subindex": address.subindex, "parameter_len": parameter.len(), "name": String::from(name.clone()), "amount": amount.micro_ccd}))
                }
                v1::Interrupt::Upgrade { .. } => (100, Value::Null),
                v1::Interrupt::QueryAccountBalance { address } => (2, json!({"address": hex::encode(address.0)})),
                v1::Interrupt::QueryContractBalance { address } => (3, json!({"index": address.index, "subindex": address.subindex})),
                v1::Interrupt::QueryExchangeRates => (4, Value::Null),
                v1::Interrupt::CheckAccountSignature { address, payload } => (5, json!({"address": hex::encode(address.0), "payload_len": payload.len()})),
                v1::Interrupt::QueryAccountKeys { address } => (6, json!({"address": hex::encode(address.0)})),
                v1::Interrupt::QueryContractModuleReference { address } => (7, json!({"index": address.index, "subindex": address.subindex})),
                v1::Interrupt::QueryContractName { address } => (8, json!({"index": address.index, "subindex": address.subindex})),
            };
            json!({"outcome": "interrupt", "tag": tag, "detail": detail, "logs": logs.iterate().map(hex::encode).collect::<Vec<_>>(),
                   "state_changed": state_changed, "remaining": remaining_energy.energy, "trace": trace_json(&trace), "memory_alloc": trace.memory_alloc.energy})
        }
        Ok(ReceiveResult::Reject { reason, return_value, remaining_energy, trace }) => {
            json!({"outcome": "reject", "reason": reason, "rv": hex::encode(&return_value), "remaining": remaining_energy.energy, "trace": trace_json(&trace)})
        }
        Ok(ReceiveResult::Trap { error, remaining_energy, trace }) => json!({"outcome": "trap", "error": format!("{:#}", error), "remaining": remaining_energy.energy, "trace": trace_json(&trace), "memory_alloc": trace.memory_alloc.energy}),
        Ok(ReceiveResult::OutOfEnergy { trace }) => json!({"outcome": "out_of_energy", "remaining": 0, "trace": trace_json(&trace)}),
    };
    out["interrupts"] = Value::Array(interrupts);
    // resulting state as the chain would see it
    let inner = ms.get_inner(&mut store);
    let mut t = inner.lock().clone();
    let kv = iterate_trie(&mut t, &mut MemStore::default(), &[]);
    out["state"] = Value::Array(kv.iter().map(|(k, x)| json!([bytes_json(k), bytes_json(x)])).collect());
    out
}

fn run_v0(v: &Value) -> Value {
    use concordium_wasm::CostConfigurationV0;
    let wasm = hexs(&v["wasm"]);
    let param = hexs(&v["param"]);
    let energy = v["energy"].as_u64().unwrap_or(1 << 40);
    let state = hexs(&v["init_state_v0"]);
    let rctx: v0::ReceiveContext<Vec<u8>> = v0::ReceiveContext {
        metadata:        ChainMetadata { slot_time: Timestamp::from_timestamp_millis(1_700_000_000_123) },
        invoker:         AccountAddress([0x11; 32]),
        self_address:    ContractAddress::new(7, 9),
        self_balance:    Amount::from_micro_ccd(4242),
        sender:          Address::Account(AccountAddress([0x22; 32])),
        owner:           AccountAddress([0x33; 32]),
        sender_policies: Vec::new(),
    };
    let limit = v["proto"].as_u64().unwrap_or(7) <= 4;
    let artifact = match concordium_wasm::utils::instantiate_with_metering::<v0::ProcessedImports>(ValidationConfig::V0, CostConfigurationV0, &v0::ConcordiumAllowedImports, &wasm) {
        Ok(a) => a.artifact,
        Err(e) => return json!({"outcome": "invalid_module", "error": e.to_string()}),
    };
    let res = v0::invoke_receive(
        &artifact,
        rctx,
        v0::ReceiveInvocation { amount: 0, receive_name: "contract.entry", parameter: concordium_contracts_common::Parameter::new_unchecked(&param[..]), energy: InterpreterEnergy::new(energy) },
        &state,
        if limit { 1024 } else { 65535 },
        limit,
    );
    match res {
        // a runtime failure (trap) of a legacy contract is reported as an error by the engine; the chain treats it as a rejection
        Err(e) => json!({"outcome": "reject", "reason": "runtime failure", "error": format!("{:#}", e)}),
        Ok(v0::ReceiveResult::Success { logs, state, actions, remaining_energy }) => json!({
            "outcome": "success", "logs": logs.iterate().map(hex::encode).collect::<Vec<_>>(), "state_len": state.state.len(), "state_v0": hex::encode(&state.state),
            "actions": format!("{:?}", actions), "n_actions": actions.len(), "remaining": remaining_energy.energy}),
        Ok(v0::ReceiveResult::Reject { reason, remaining_energy }) => json!({"outcome": "reject", "reason": reason, "remaining": remaining_energy.energy}),
        Ok(v0::ReceiveResult::OutOfEnergy) => json!({"outcome": "out_of_energy", "remaining": 0}),
    }
}

pub fn main(args: &[String]) -> i32 {
    if args.len() < 2 {
        eprintln!("usage: host-run <scripts.ndjson> <results.ndjson>");
        return 2;
    }
    let lines = read_lines(&args[0]);
    let mut out = String::new();
    std::panic::set_hook(Box::new(|_| {}));
    for (n, line) in lines.iter().enumerate() {
        let v: Value = match serde_json::from_str(line) {
            Ok(v) => v,
            Err(e) => {
                eprintln!("line {}: bad json: {}", n, e);
                return 2;
            }
        };
        let r = std::panic::catch_unwind(std::panic::AssertUnwindSafe(|| if v["version"].as_u64() == Some(0) { run_v0(&v) } else { run_v1(&v) }));
        let mut rec = match r {
            Ok(x) => x,
            Err(p) => json!({"outcome": "panic", "error": panic_message(p)}),
        };
        rec["idx"] = json!(n);
        out.push_str(&rec.to_string());
        out.push('\n');
    }
    if std::fs::write(&args[1], out).is_err() {
        return 2;
    }
    0
}
