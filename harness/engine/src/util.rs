use serde_json::Value;

pub fn bytes_of(v: &Value) -> Vec<u8> {
    v.as_array().map(|a| a.iter().map(|x| x.as_u64().unwrap_or(0) as u8).collect()).unwrap_or_default()
}

pub fn bytes_json(b: &[u8]) -> Value { Value::Array(b.iter().map(|x| Value::from(*x)).collect()) }

/// Value classes used by the trie specs: the interesting boundary is 64 bytes (values up to
/// 64 bytes are stored inline in a node, larger ones indirectly).
pub fn value_of_class(c: u64) -> Vec<u8> {
    match c {
        0 => vec![],
        1 => vec![0x11],
        2 => vec![0x22; 64],
        3 => vec![0x33; 65],
        4 => vec![0x44; 300],
        n => vec![n as u8; 2],
    }
}

pub fn class_of_value(v: &[u8]) -> Option<u64> {
    (0..=4).find(|c| value_of_class(*c) == v)
}

pub fn read_lines(path: &str) -> Vec<String> {
    std::fs::read_to_string(path)
        .unwrap_or_else(|e| {
            eprintln!("cannot read {}: {}", path, e);
            std::process::exit(2)
        })
        .lines()
        .filter(|l| !l.trim().is_empty())
        .map(|s| s.to_string())
        .collect()
}

pub fn panic_message(e: Box<dyn std::any::Any + Send>) -> String {
    if let Some(s) = e.downcast_ref::<&str>() {
        s.to_string()
    } else if let Some(s) = e.downcast_ref::<String>() {
        s.clone()
    } else {
        "panic".to_string()
    }
}
