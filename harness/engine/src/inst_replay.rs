//! spec -> impl for InstanceHandles.tla: replay contract-visible state operations (handles,
//! iterators, interrupts) on the real InstanceState through the H3 wrappers.
use crate::{mem::MemStore, trie_sut::iterate_trie, util::*};
use concordium_smart_contract_engine::{
    v1::{
        trie::MutableState,
        InstanceState, VerifSuspended,
    },
    InterpreterEnergy,
};
use serde_json::{json, Value};
use std::collections::{BTreeMap, HashMap};

type KV = Vec<(Vec<u8>, Vec<u8>)>;

fn kv_of_spec(m: &Value) -> KV {
    m.as_array().map(|a| a.iter().map(|p| (bytes_of(&p[0]), bytes_of(&p[1]))).collect()).unwrap_or_default()
}
fn kv_json(kv: &KV) -> Value { Value::Array(kv.iter().map(|(k, v)| json!([bytes_json(k), bytes_json(v)])).collect()) }

/// Handles are opaque: the real value behind a spec handle <<generation, index>> is whatever the
/// implementation returned when the spec says that handle was issued.  Handles the spec never
/// issued (stale generations with indices that did not exist, out-of-range indices) are arbitrary
/// words to the implementation; for those we use the natural packing.
#[derive(Default)]
struct Handles {
    map: HashMap<(u64, u64), u64>,
}

impl Handles {
    fn real(&self, h: &Value) -> u64 {
        let key = (h[0].as_u64().unwrap_or(0), h[1].as_u64().unwrap_or(0));
        self.map.get(&key).copied().unwrap_or((key.0 << 32) | key.1)
    }

    /// Compare an option-of-handle result; on "some" bind the spec handle to the real value and
    /// require that no two spec handles ever share a real value.
    fn bind(&mut self, exp: &Value, got_raw: u64) -> Result<(), String> {
        let got = dec_opt(got_raw);
        if exp[0] != got[0] {
            return Err(format!("expected {}, got {}", exp, got));
        }
        if exp[0] == "some" {
            let key = (exp[1].as_u64().unwrap_or(0), exp[2].as_u64().unwrap_or(0));
            if let Some((other, _)) = self.map.iter().find(|(k, v)| **v == got_raw && **k != key) {
                return Err(format!(
                    "handle value {:#x} issued for {:?} was already issued for {:?}: an old handle is indistinguishable from the new one",
                    got_raw, key, other
                ));
            }
            self.map.insert(key, got_raw);
        }
        Ok(())
    }
}

const ERR: u64 = u64::MAX & !(1u64 << 62);

fn dec_opt(v: u64) -> Value {
    if v == u64::MAX {
        json!(["none"])
    } else if v == ERR {
        json!(["err"])
    } else {
        json!(["some", v >> 32, v & 0xffff_ffff])
    }
}
fn dec_u32(v: u32) -> Value {
    if v == u32::MAX {
        json!(["max"])
    } else {
        json!([v])
    }
}

struct Mismatch {
    step: usize,
    what: String,
    exp:  Value,
    got:  Value,
}

fn apply_ops(ms: &mut MutableState, ops: &Value) {
    let mut store = MemStore::default();
    let inner = ms.get_inner(&mut store);
    let mut t = inner.lock();
    for op in ops.as_array().cloned().unwrap_or_default() {
        let k = bytes_of(&op[1]);
        if op[0] == "put" {
            let _ = t.insert(&mut store, &k, bytes_of(&op[2]));
        } else {
            let _ = t.delete(&mut store, &k);
        }
    }
}

fn replay_one(steps: &[Value], stats: &mut BTreeMap<String, u64>) -> Result<(), Mismatch> {
    let mut ms = MutableState::initial_state();
    let mut store = MemStore::default();
    let mut susp: Option<(VerifSuspended, bool)> = None;
    let mut i = 0usize;
    let mut energy = InterpreterEnergy::new(u64::MAX / 2);
    let mut eh = Handles::default();
    let mut ih = Handles::default();
    while i < steps.len() {
        let inner = ms.get_inner(&mut store);
        let mut is = match susp.take() {
            None => InstanceState::new(MemStore::default(), &*inner),
            Some((s, upd)) => InstanceState::verif_resume(s, upd, MemStore::default(), &*inner),
        };
        if i > 0 {
            // contents right after the resume
            let exp = kv_of_spec(&steps[i - 1]["m"]);
            let mut clone = is.verif_trie().clone();
            let got = iterate_trie(&mut clone, &mut MemStore::default(), &[]);
            if got != exp {
                return Err(Mismatch { step: i - 1, what: "contents after resume".into(), exp: kv_json(&exp), got: kv_json(&got) });
            }
        }
        while i < steps.len() {
            let st = &steps[i];
            let a = st["a"].as_str().unwrap_or("");
            if a == "resume_same" || a == "resume_updated" {
                break;
            }
            let mut bound: Option<Result<(), String>> = None;
            let got: Value = match a {
                "lookup" => {
                    let v = is.verif_lookup_entry(&bytes_of(&st["k"]));
                    bound = Some(eh.bind(&st["r"], v));
                    dec_opt(v)
                }
                "create" => match is.verif_create_entry(&bytes_of(&st["k"])) {
                    Ok(v) => {
                        bound = Some(eh.bind(&st["r"], v));
                        dec_opt(v)
                    }
                    Err(e) => json!(["trap", e.to_string()]),
                },
                "delete" => match is.verif_delete_entry(&bytes_of(&st["k"])) {
                    Ok(v) => json!([v]),
                    Err(e) => json!(["trap", e.to_string()]),
                },
                "delprefix" => match is.verif_delete_prefix(&mut energy, &bytes_of(&st["k"])) {
                    Ok(v) => json!([v]),
                    Err(e) => json!(["trap", e.to_string()]),
                },
                "iterator" => {
                    let v = is.verif_iterator(&bytes_of(&st["k"]));
                    bound = Some(ih.bind(&st["r"], v));
                    dec_opt(v)
                }
                "iternext" => match is.verif_iterator_next(&mut energy, ih.real(&st["h"])) {
                    Ok(v) => {
                        bound = Some(eh.bind(&st["r"], v));
                        dec_opt(v)
                    }
                    Err(e) => json!(["trap", e.to_string()]),
                },
                "iterdelete" => match is.verif_iterator_delete(&mut energy, ih.real(&st["h"])) {
                    Ok(v) => dec_u32(v),
                    Err(e) => json!(["trap", e.to_string()]),
                },
                "iterkey" => {
                    let h = ih.real(&st["h"]);
                    let size = is.verif_iterator_key_size(h);
                    let mut dest = vec![0xeeu8; st["len"].as_u64().unwrap_or(0) as usize];
                    let n = is.verif_iterator_key_read(h, &mut dest, st["off"].as_u64().unwrap_or(0) as u32);
                    if size == u32::MAX || n == u32::MAX {
                        if size != n {
                            json!(["inconsistent", size, n])
                        } else {
                            json!(["max"])
                        }
                    } else {
                        json!([size, n, bytes_json(&dest[..(n as usize).min(dest.len())])])
                    }
                }
                "read" => {
                    let h = eh.real(&st["h"]);
                    let size = is.verif_entry_size(h);
                    let mut dest = vec![0xeeu8; st["len"].as_u64().unwrap_or(0) as usize];
                    let n = is.verif_entry_read(h, &mut dest, st["off"].as_u64().unwrap_or(0) as u32);
                    if size == u32::MAX || n == u32::MAX {
                        if size != n {
                            json!(["inconsistent", size, n])
                        } else {
                            json!(["max"])
                        }
                    } else {
                        json!([size, n, bytes_json(&dest[..(n as usize).min(dest.len())])])
                    }
                }
                "write" => match is.verif_entry_write(&mut energy, eh.real(&st["h"]), &bytes_of(&st["src"]), st["off"].as_u64().unwrap_or(0) as u32) {
                    Ok(v) => dec_u32(v),
                    Err(e) => json!(["trap", e.to_string()]),
                },
                "resize" => match is.verif_entry_resize(&mut energy, eh.real(&st["h"]), st["n"].as_u64().unwrap_or(0) as u32) {
                    Ok(v) => dec_u32(v),
                    Err(e) => json!(["trap", e.to_string()]),
                },
                other => return Err(Mismatch { step: i, what: format!("unknown action {}", other), exp: Value::Null, got: Value::Null }),
            };
            *stats.entry(format!("{}:{}", a, got[0])).or_default() += 1;
            match bound {
                Some(Err(e)) => return Err(Mismatch { step: i, what: format!("result of {}: {}", a, e), exp: st["r"].clone(), got }),
                Some(Ok(())) => {}
                None => {
                    // "any": the specification leaves the result open (key of an exhausted iterator)
                    if st["r"] != json!(["any"]) && got != st["r"] {
                        return Err(Mismatch { step: i, what: format!("result of {}", a), exp: st["r"].clone(), got });
                    }
                }
            }
            let exp = kv_of_spec(&st["m"]);
            let mut clone = is.verif_trie().clone();
            let gotm = iterate_trie(&mut clone, &mut MemStore::default(), &[]);
            if gotm != exp {
                return Err(Mismatch { step: i, what: format!("contents after {}", a), exp: kv_json(&exp), got: kv_json(&gotm) });
            }
            i += 1;
        }
        if i < steps.len() {
            let st = &steps[i];
            let a = st["a"].as_str().unwrap_or("");
            *stats.entry(format!("{}:ok", a)).or_default() += 1;
            let s = is.verif_suspend();
            if a == "resume_same" {
                // a newer generation is created, modified and thrown away (failed inner call)
                let mut fresh = ms.make_fresh_generation(&mut store);
                apply_ops(&mut fresh, &st["scratch"]);
                drop(fresh);
                susp = Some((s, false));
            } else {
                let mut fresh = ms.make_fresh_generation(&mut store);
                apply_ops(&mut fresh, &st["ops"]);
                ms = fresh;
                susp = Some((s, true));
            }
            i += 1;
            if i == steps.len() {
                // final projection after the last resume
                let inner = ms.get_inner(&mut store);
                let (s, upd) = susp.take().unwrap();
                let mut is = InstanceState::verif_resume(s, upd, MemStore::default(), &*inner);
                let exp = kv_of_spec(&st["m"]);
                let mut clone = is.verif_trie().clone();
                let got = iterate_trie(&mut clone, &mut MemStore::default(), &[]);
                if got != exp {
                    return Err(Mismatch { step: i - 1, what: "contents after resume".into(), exp: kv_json(&exp), got: kv_json(&got) });
                }
            }
        }
    }
    Ok(())
}

pub fn main(args: &[String]) -> i32 {
    if args.len() < 2 {
        eprintln!("usage: inst-replay <behaviours.ndjson> <results.ndjson>");
        return 2;
    }
    let lines = read_lines(&args[0]);
    let mut out = String::new();
    let mut stats = BTreeMap::new();
    let mut bad = 0u64;
    let mut nsteps = 0u64;
    std::panic::set_hook(Box::new(|_| {}));
    for (n, line) in lines.iter().enumerate() {
        let v: Value = match serde_json::from_str(line) {
            Ok(v) => v,
            Err(e) => {
                eprintln!("line {}: bad json: {}", n, e);
                return 2;
            }
        };
        let steps = v.as_array().cloned().unwrap_or_default();
        nsteps += steps.len() as u64;
        let res = std::panic::catch_unwind(std::panic::AssertUnwindSafe(|| replay_one(&steps, &mut stats)));
        let rec = match res {
            Ok(Ok(())) => continue,
            Ok(Err(m)) => json!({"idx": n, "ok": false, "step": m.step, "what": m.what, "exp": m.exp, "got": m.got}),
            Err(p) => json!({"idx": n, "ok": false, "step": -1, "what": format!("panic: {}", panic_message(p))}),
        };
        bad += 1;
        out.push_str(&rec.to_string());
        out.push('\n');
    }
    out.push_str(&json!({"summary": true, "behaviours": lines.len(), "steps": nsteps, "bad": bad, "by_action": stats}).to_string());
    out.push('\n');
    if std::fs::write(&args[1], out).is_err() {
        return 2;
    }
    0
}
