//! vh-engine: conformance harness binding the TLA+ specifications under /verif/spec to the
//! smart-contract engine crates of /repo (wasm-transform, wasm-chain-integration).
//! Subcommands read ndjson behaviours exported by TLC (spec -> impl) or record ndjson traces
//! from the real code (impl -> spec).
mod host_run;
mod inst_replay;
mod mem;
mod trie_canon;
mod trie_record;
mod trie_replay;
mod trie_sut;
mod util;
mod wasm_run;

fn main() {
    let args: Vec<String> = std::env::args().collect();
    if args.len() < 2 {
        eprintln!("usage: vh-engine <subcommand> ...");
        std::process::exit(2);
    }
    let rest = &args[2..];
    let code = match args[1].as_str() {
        "trie-replay" => trie_replay::main(rest),
        "trie-record" => trie_record::main(rest),
        "host-run" => host_run::main(rest),
        "inst-replay" => inst_replay::main(rest),
        "wasm-run" => wasm_run::main(rest),
        "trie-canon" => trie_canon::main(rest),
        other => {
            eprintln!("unknown subcommand {}", other);
            2
        }
    };
    std::process::exit(code);
}
