//! C06: replay the vectors of AccessStructure.tla on the real signature verification.
use crate::util::*;
use concordium_base::{
    base::{Energy, Nonce},
    common::types::{Amount, CredentialIndex, KeyIndex, KeyPair, Signature, TransactionSignature, TransactionSignaturesV1, TransactionTime},
    contracts_common::{AccountAddress, AccountThreshold, SignatureThreshold},
    hashes,
    id::types::{AccountKeys, CredentialData, CredentialPublicKeys, VerifyKey},
    transactions::{
        compute_transaction_sign_hash, compute_transaction_sign_hash_v1, sign_transaction, verify_data_signature, AccountAccessStructure,
        AccountTransaction, AccountTransactionV1, EncodedPayload, Payload, PayloadLike, TransactionHeader, TransactionHeaderV1,
    },
};
use serde_json::{json, Value};
use std::collections::BTreeMap;

fn keypair(c: u64, k: u64, salt: u8) -> KeyPair {
    let mut seed = [0x5au8; 32];
    seed[0] = c as u8;
    seed[1] = k as u8;
    seed[2] = salt;
    KeyPair::from(ed25519_dalek::SigningKey::from_bytes(&seed))
}

fn build_acct(a: &Value, salt: u8) -> AccountAccessStructure {
    let mut keys = BTreeMap::new();
    for c in a["creds"].as_array().cloned().unwrap_or_default() {
        let ci = c["idx"].as_u64().unwrap();
        let mut ks = BTreeMap::new();
        for k in c["keys"].as_array().cloned().unwrap_or_default() {
            let ki = k.as_u64().unwrap();
            ks.insert(KeyIndex(ki as u8), VerifyKey::Ed25519VerifyKey(keypair(ci, ki, salt).public()));
        }
        keys.insert(CredentialIndex { index: ci as u8 }, CredentialPublicKeys {
            keys:      ks,
            threshold: SignatureThreshold::try_from(c["threshold"].as_u64().unwrap() as u8).unwrap(),
        });
    }
    AccountAccessStructure { keys, threshold: AccountThreshold::try_from(a["threshold"].as_u64().unwrap() as u8).unwrap() }
}

fn build_sigs(s: &Value, digest: &[u8], other: &[u8], salt: u8) -> BTreeMap<CredentialIndex, BTreeMap<KeyIndex, Signature>> {
    let mut out = BTreeMap::new();
    for c in s.as_array().cloned().unwrap_or_default() {
        let ci = c["idx"].as_u64().unwrap();
        let mut m = BTreeMap::new();
        for k in c["keys"].as_array().cloned().unwrap_or_default() {
            let ki = k[0].as_u64().unwrap();
            let kp = keypair(ci, ki, salt);
            let sig: Signature = match k[1].as_str().unwrap() {
                "good" => kp.sign(digest).into(),
                "other" => kp.sign(other).into(),
                _ => {
                    let mut b: Signature = kp.sign(digest).into();
                    b.sig[7] ^= 0x10;
                    b
                }
            };
            m.insert(KeyIndex(ki as u8), sig);
        }
        out.insert(CredentialIndex { index: ci as u8 }, m);
    }
    out
}

fn header(payload: &EncodedPayload) -> TransactionHeader {
    TransactionHeader {
        sender:        AccountAddress([3u8; 32]),
        nonce:         Nonce { nonce: 7 },
        energy_amount: Energy { energy: 5000 },
        payload_size:  payload.size(),
        expiry:        TransactionTime { seconds: 1_700_000_000 },
    }
}

pub fn main(args: &[String]) -> i32 {
    drive(args, "auth-replay", |v, stats| {
        let acct = build_acct(&v["acct"], 0);
        let exp = v["ok"].as_bool().unwrap();
        *stats.entry(format!("expect:{}", exp)).or_default() += 1;
        // 1. plain data signature
        let digest = [0x11u8; 32];
        let other = [0x22u8; 32];
        let sigs = build_sigs(&v["sigs"], &digest, &other, 0);
        let got = verify_data_signature(&acct, &digest, &sigs);
        if got != exp {
            return Err(("verify_data_signature".into(), json!(exp), json!(got)));
        }
        // 2. account transaction: the digest is the hash of exactly header ++ payload
        let payload = Payload::Transfer { to_address: AccountAddress([9u8; 32]), amount: Amount::from_micro_ccd(123_456) }.encode();
        let hdr = header(&payload);
        let h = compute_transaction_sign_hash(&hdr, &payload);
        let tsigs = build_sigs(&v["sigs"], h.as_ref(), &other, 0);
        let tx = AccountTransaction { signature: TransactionSignature { signatures: tsigs.clone() }, header: hdr.clone(), payload: payload.clone() };
        let got = tx.verify_transaction_signature(&acct);
        if got != exp {
            return Err(("AccountTransaction::verify_transaction_signature".into(), json!(exp), json!(got)));
        }
        // 3. sponsored transaction: sender and sponsor must both authorise
        let sponsor_acct_json = json!({"threshold": 1, "creds": [{"idx": 0, "threshold": 1, "keys": [0]}]});
        let sponsor = build_acct(&sponsor_acct_json, 1);
        let hdr1 = TransactionHeaderV1 {
            sender: hdr.sender, nonce: hdr.nonce, energy_amount: hdr.energy_amount, payload_size: hdr.payload_size, expiry: hdr.expiry,
            sponsor: Some(AccountAddress([4u8; 32])),
        };
        let h1 = compute_transaction_sign_hash_v1(&hdr1, &payload);
        let ssigs = build_sigs(&v["sigs"], h1.as_ref(), &other, 0);
        for (kind, sp_ok) in [("good", true), ("bad", false), ("other", false)] {
            let psigs = build_sigs(&json!([{"idx": 0, "keys": [[0, kind]]}]), h1.as_ref(), &other, 1);
            let tx1 = AccountTransactionV1 {
                signatures: TransactionSignaturesV1 { sender: TransactionSignature { signatures: ssigs.clone() }, sponsor: Some(TransactionSignature { signatures: psigs }) },
                header: hdr1.clone(),
                payload: payload.clone(),
            };
            let got = tx1.verify_transaction_signature(&acct, &sponsor);
            if got != (exp && sp_ok) {
                return Err((format!("sponsored transaction, sponsor signature {}", kind), json!(exp && sp_ok), json!(got)));
            }
        }
        // the v1 digest differs from the v0 digest: signatures over the v0 digest must not authorise a v1 transaction
        if exp {
            let tx1 = AccountTransactionV1 {
                signatures: TransactionSignaturesV1 { sender: TransactionSignature { signatures: tsigs.clone() }, sponsor: None },
                header: TransactionHeaderV1 { sponsor: None, ..hdr1.clone() },
                payload: payload.clone(),
            };
            if tx1.verify_transaction_signature(&acct, &sponsor) {
                return Err(("signatures over the v0 digest accepted for a v1 transaction".into(), json!(false), json!(true)));
            }
        }
        // 4. signing with the account's own keys
        let mut ak = BTreeMap::new();
        for c in v["acct"]["creds"].as_array().cloned().unwrap_or_default() {
            let ci = c["idx"].as_u64().unwrap();
            let mut ks = BTreeMap::new();
            for k in c["keys"].as_array().cloned().unwrap_or_default() {
                ks.insert(KeyIndex(k.as_u64().unwrap() as u8), keypair(ci, k.as_u64().unwrap(), 0));
            }
            ak.insert(CredentialIndex { index: ci as u8 }, CredentialData { keys: ks, threshold: SignatureThreshold::try_from(c["threshold"].as_u64().unwrap() as u8).unwrap() });
        }
        let account_keys = AccountKeys { keys: ak, threshold: AccountThreshold::try_from(v["acct"]["threshold"].as_u64().unwrap() as u8).unwrap() };
        let signed = sign_transaction(&account_keys, hdr.clone(), payload.clone());
        let got = signed.verify_transaction_signature(&acct);
        let selfok = v["selfok"].as_bool().unwrap();
        if got != selfok {
            return Err(("signing with the account's own keys".into(), json!(selfok), json!(got)));
        }
        // 5. single-field perturbations of an authorised transaction must fail
        if exp {
            *stats.entry("perturbed".into()).or_default() += 1;
            let mut variants: Vec<(&str, AccountTransaction<EncodedPayload>)> = Vec::new();
            let mut t = tx.clone();
            t.header.nonce.nonce += 1;
            variants.push(("nonce", t));
            let mut t = tx.clone();
            t.header.energy_amount.energy ^= 1;
            variants.push(("energy", t));
            let mut t = tx.clone();
            t.header.expiry.seconds += 1;
            variants.push(("expiry", t));
            let mut t = tx.clone();
            t.header.sender.0[31] ^= 1;
            variants.push(("sender", t));
            let mut t = tx.clone();
            t.payload = Payload::Transfer { to_address: AccountAddress([9u8; 32]), amount: Amount::from_micro_ccd(123_457) }.encode();
            variants.push(("payload amount", t));
            let mut t = tx.clone();
            t.payload = Payload::Transfer { to_address: AccountAddress([8u8; 32]), amount: Amount::from_micro_ccd(123_456) }.encode();
            variants.push(("payload receiver", t));
            for (what, t) in variants {
                if t.verify_transaction_signature(&acct) {
                    return Err((format!("transaction with altered {} still verifies", what), json!(false), json!(true)));
                }
            }
            // a different key registered at one signing index
            let mut acct2 = acct.clone();
            if let Some((ci, m)) = tsigs.iter().next() {
                if let Some((ki, _)) = m.iter().next() {
                    acct2.keys.get_mut(ci).unwrap().keys.insert(*ki, VerifyKey::Ed25519VerifyKey(keypair(77, 77, 9).public()));
                    if tx.verify_transaction_signature(&acct2) {
                        return Err(("transaction verifies against a different registered key".into(), json!(false), json!(true)));
                    }
                }
            }
            // the declared payload size is the size of the serialized payload, and the digest is SHA-256(header ++ payload)
            use sha2::Digest;
            let mut bytes = concordium_base::common::to_bytes(&tx.header);
            bytes.extend_from_slice(&concordium_base::common::to_bytes(&tx.payload)[..]);
            let manual: [u8; 32] = sha2::Sha256::digest(&bytes).into();
            let hh: &[u8] = h.as_ref();
            if hh != manual {
                return Err(("sign digest is not SHA-256 of the serialized header and payload".into(), json!(hex::encode(manual)), json!(hex::encode(hh))));
            }
        }
        let _ = hashes::TransactionSignHash::new([0u8; 32]);
        Ok(())
    })
}
