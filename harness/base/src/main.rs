//! vh-base: conformance harness binding the TLA+ specifications under /verif/spec to
//! concordium_base and the key-derivation crates of /repo/rust-src.
mod alloc;
mod auth;
mod builder;
mod c07;
mod c08;
mod c11;
mod c12;
mod c18;
mod c18v1;
mod c19;
mod c20;
mod cborx;
mod cc;
mod schemax;
mod envelope;
mod text;
mod updkeys;
mod util;
mod wire;

#[global_allocator]
static GLOBAL: alloc::Counting = alloc::Counting;

fn main() {
    let args: Vec<String> = std::env::args().collect();
    if args.len() < 2 {
        eprintln!("usage: vh-base <subcommand> ...");
        std::process::exit(2);
    }
    let rest = &args[2..];
    let code = match args[1].as_str() {
        "auth-replay" => auth::main(rest),
        "envelope-replay" => envelope::main(rest),
        "c07-replay" => c07::main(rest),
        "c08-replay" => c08::main(rest),
        "c11-replay" => c11::main(rest),
        "c12-replay" => c12::main(rest),
        "c18-replay" => c18::main(rest),
        "c18v1-replay" => c18v1::main(rest),
        "c19-replay" => c19::main(rest),
        "c20-replay" => c20::main(rest),
        "builder-replay" => builder::main(rest),
        "updkeys-replay" => updkeys::main(rest),
        "wire-replay" => wire::main(rest),
        "text-replay" => text::main(rest),
        "cc-replay" => cc::main(rest),
        "cbor-replay" => cborx::main(rest),
        "schema-replay" => schemax::main(rest),
        other => {
            eprintln!("unknown subcommand {}", other);
            2
        }
    };
    std::process::exit(code);
}
