//! C20: rows exported by spec/crypto/{Wnaf,MultiExp,Shamir,PointEnc,HdPath}.tla replayed on the
//! curve instances, secret sharing and key derivation of concordium_base / key_derivation.
//! Trusted base: single scalar multiplication and point addition of the curves, field
//! arithmetic of arkworks / dalek, SHA-2.  HMAC, HKDF, SLIP-10 and the BLS key generation are
//! recomputed here from their definitions.
use crate::util::*;
use ark_ec::{short_weierstrass::Affine, AffineRepr, CurveGroup};
use ark_ff::{BigInteger, PrimeField as ArkPrimeField};
use concordium_base::{
    common::{to_bytes, Deserial},
    curve_arithmetic::{arkworks_instances::ArkGroup, multiexp, Curve, Field, GenericMultiExp, MultiExp, PrimeField, Value},
    id::secret_sharing::{reveal, reveal_in_group, share, Threshold},
};
use curve25519_dalek::ristretto::RistrettoPoint;
use num_bigint::BigUint;
use rand::{rngs::StdRng, SeedableRng};
use serde_json::{json, Value as J};
use sha2::{Digest, Sha256, Sha512};
use std::io::Cursor;

type G1 = ArkGroup<ark_bls12_381::G1Projective>;
type G2 = ArkGroup<ark_bls12_381::G2Projective>;
type Res = Result<(), (String, J, J)>;

fn fail<T>(what: &str, exp: J, got: J) -> Result<T, (String, J, J)> { Err((what.to_string(), exp, got)) }

// ---------------------------------------------------------------- hashing primitives from their definitions
fn hmac<D: Digest + Clone>(block: usize, key: &[u8], data: &[u8]) -> Vec<u8> {
    let mut k = if key.len() > block { D::digest(key).to_vec() } else { key.to_vec() };
    k.resize(block, 0);
    let ipad: Vec<u8> = k.iter().map(|b| b ^ 0x36).collect();
    let opad: Vec<u8> = k.iter().map(|b| b ^ 0x5c).collect();
    let mut h = D::new();
    h.update(&ipad);
    h.update(data);
    let inner = h.finalize();
    let mut h = D::new();
    h.update(&opad);
    h.update(&inner);
    h.finalize().to_vec()
}
fn hmac512(key: &[u8], data: &[u8]) -> Vec<u8> { hmac::<Sha512>(128, key, data) }
fn hmac256(key: &[u8], data: &[u8]) -> Vec<u8> { hmac::<Sha256>(64, key, data) }
fn hkdf256(salt: &[u8], ikm: &[u8], info: &[u8], len: usize) -> Vec<u8> {
    let prk = hmac256(salt, ikm);
    let mut out = Vec::new();
    let mut t: Vec<u8> = Vec::new();
    let mut ctr = 1u8;
    while out.len() < len {
        let mut d = t.clone();
        d.extend_from_slice(info);
        d.push(ctr);
        t = hmac256(&prk, &d);
        out.extend_from_slice(&t);
        ctr += 1;
    }
    out.truncate(len);
    out
}

const R_BLS: &str = "73eda753299d7d483339d80809a1d80553bda402fffe5bfeffffffff00000001";
const L_ED: &str = "1000000000000000000000000000000014def9dea2f79cd65812631a5cf5d3ed";
const P_ED: &str = "7fffffffffffffffffffffffffffffffffffffffffffffffffffffffffffffed";
const P_BLS: &str = "1a0111ea397fe69a4b1ba7b6434bacd764774b84f38512bf6730d2a0f6b0f6241eabfffeb153ffffb9feffffffffaaab";
fn big(hexs: &str) -> BigUint { BigUint::parse_bytes(hexs.as_bytes(), 16).unwrap() }
fn be(n: &BigUint, len: usize) -> Vec<u8> {
    let b = n.to_bytes_be();
    let mut out = vec![0u8; len.saturating_sub(b.len())];
    out.extend_from_slice(&b[b.len().saturating_sub(len)..]);
    out
}

/// BLS key generation of the IETF draft, as keygen_bls documents it.
fn ref_keygen_bls(ikm: &[u8], key_info: &[u8]) -> Vec<u8> {
    let mut ikm0 = ikm.to_vec();
    ikm0.push(0);
    let mut info = key_info.to_vec();
    info.extend_from_slice(&[0, 48]);
    let mut salt = Sha256::digest(b"BLS-SIG-KEYGEN-SALT-").to_vec();
    loop {
        let okm = hkdf256(&salt, &ikm0, &info, 48);
        let sk = BigUint::from_bytes_be(&okm) % big(R_BLS);
        if sk != BigUint::from(0u8) {
            return be(&sk, 32);
        }
        salt = Sha256::digest(&salt).to_vec();
    }
}

/// SLIP-10 for ed25519 over hardened indices.
fn ref_slip10(seed: &[u8], path: &[u32]) -> [u8; 32] {
    let mut i = hmac512(b"ed25519 seed", seed);
    for idx in path {
        let mut data = vec![0u8];
        data.extend_from_slice(&i[..32]);
        data.extend_from_slice(&(idx | 0x8000_0000).to_be_bytes());
        i = hmac512(&i[32..].to_vec(), &data);
    }
    i[..32].try_into().unwrap()
}

// ---------------------------------------------------------------- scalars
fn scalar_from_limbs<C: Curve>(l: [u64; 4]) -> Option<C::Scalar> { C::Scalar::from_repr(&l).ok() }

fn scalar_token<C: Curve>(t: &str) -> C::Scalar {
    let minus = |n: u64| {
        let mut z = C::Scalar::zero();
        z.sub_assign(&C::scalar_from_u64(n));
        z
    };
    match t {
        "0" => C::Scalar::zero(),
        "1" => C::Scalar::one(),
        "2" => C::scalar_from_u64(2),
        "r-1" => minus(1),
        "r-2" => minus(2),
        "2^64-1" => scalar_from_limbs::<C>([u64::MAX, 0, 0, 0]).unwrap(),
        "2^64" => scalar_from_limbs::<C>([0, 1, 0, 0]).unwrap(),
        "2^128-1" => scalar_from_limbs::<C>([u64::MAX, u64::MAX, 0, 0]).unwrap(),
        "2^192+2^64-1" => scalar_from_limbs::<C>([u64::MAX, 0, 0, 1]).unwrap(),
        "2^252-1" => scalar_from_limbs::<C>([u64::MAX, u64::MAX, u64::MAX, (1 << 60) - 1]).unwrap(),
        "ones_alt" => scalar_from_limbs::<C>([0x5555_5555_5555_5555, 0x5555_5555_5555_5555, 0x5555_5555_5555_5555, 0x0555_5555_5555_5555]).unwrap(),
        "f0f0" => scalar_from_limbs::<C>([0xf0f0_f0f0_f0f0_f0f0, 0x0f0f_0f0f_0f0f_0f0f, 0xf0f0_f0f0_f0f0_f0f0, 0x00f0_f0f0_f0f0_f0f0]).unwrap(),
        other => C::scalar_from_bytes(Sha256::digest(other.as_bytes())),
    }
}

fn base_points<C: Curve>() -> (C, C) {
    let g = C::one_point();
    let h = C::hash_to_group(b"vh-base second generator").unwrap_or_else(|_| g.double_point().plus_point(&g));
    (g, h)
}

// ---------------------------------------------------------------- rows
fn run_multiexp<C: Curve>(v: &J, name: &str) -> Res {
    let (g, h) = base_points::<C>();
    let mut pts = Vec::new();
    let mut exps = Vec::new();
    for pe in v["vec"].as_array().unwrap() {
        let p = match pe[0].as_str().unwrap() {
            "id" => C::zero_point(),
            "g" => g,
            "negg" => g.inverse_point(),
            "h" => h,
            "gph" => g.plus_point(&h),
            o => return fail("unknown point class", json!(o), J::Null),
        };
        pts.push(p);
        exps.push(scalar_token::<C>(pe[1].as_str().unwrap()));
    }
    let mut expect = C::zero_point();
    for t in v["sum"].as_array().unwrap() {
        let b = if t[2].as_str().unwrap() == "g" { g } else { h };
        let term = b.mul_by_scalar(&scalar_token::<C>(t[1].as_str().unwrap()));
        expect = if t[0].as_i64().unwrap() > 0 { expect.plus_point(&term) } else { expect.minus_point(&term) };
    }
    let got = multiexp::<C, C>(&pts, &exps);
    if got != expect {
        return fail(&format!("multiexp on {} differs from the sum of the individual multiples", name), json!(hex::encode(to_bytes(&expect))), json!(hex::encode(to_bytes(&got))));
    }
    Ok(())
}

fn run_vec_commit(v: &J) -> Res {
    use concordium_base::pedersen_commitment::{CommitmentKey, Randomness, VecCommitmentKey};
    let n = v["n"].as_u64().unwrap() as usize;
    let gs: Vec<G1> = (0..n).map(|i| G1::hash_to_group(format!("vec commit generator {}", i).as_bytes()).unwrap()).collect();
    let h = G1::hash_to_group(b"vec commit blinding base").unwrap();
    let values: Vec<<G1 as Curve>::Scalar> = v["values"].as_array().unwrap().iter().map(|t| scalar_token::<G1>(t.as_str().unwrap())).collect();
    let r = scalar_token::<G1>(v["r"].as_str().unwrap());
    let key = VecCommitmentKey::new(gs.clone(), h);
    let got = key.hide(&values, &Randomness::new(r));
    let ok = v["ok"].as_bool().unwrap();
    if got.is_some() != ok {
        return fail("vector commitment exists iff there are at most as many values as generators", json!(ok), json!(got.is_some()));
    }
    if let Some(c) = got {
        let mut exp = h.mul_by_scalar(&r);
        for (x, g) in values.iter().zip(gs.iter()) {
            exp = exp.plus_point(&g.mul_by_scalar(x));
        }
        if c.0 != exp {
            return fail(&format!("vector commitment to {} values under {} generators = sum v_i g_i + r h", values.len(), n), json!(hex::encode(to_bytes(&exp))), json!(hex::encode(to_bytes(&c.0))));
        }
    }
    if values.len() == 1 {
        // the single-value commitment key agrees with the one-generator vector key
        let ck = CommitmentKey::new(gs[0], h);
        let c1 = ck.hide_worker(&values[0], &r);
        if c1.0 != gs[0].mul_by_scalar(&values[0]).plus_point(&h.mul_by_scalar(&r)) {
            return fail("commitment = v g + r h", J::Null, J::Null);
        }
    }
    Ok(())
}

fn limbs_of(v: &J) -> [u64; 4] {
    let a = v.as_array().unwrap();
    let mut l = [0u64; 4];
    for i in 0..4 {
        l[i] = u64::from_str_radix(a[i].as_str().unwrap(), 16).unwrap();
    }
    l
}

fn run_wnaf(v: &J, stats: &mut std::collections::BTreeMap<String, u64>) -> Res {
    let l = limbs_of(&v["limbs"]);
    let s = match scalar_from_limbs::<G1>(l) {
        Some(s) => s,
        None => {
            *stats.entry("wnaf:not a scalar (skipped)".into()).or_default() += 1;
            return Ok(());
        }
    };
    let (g, h) = base_points::<G1>();
    let s2 = scalar_token::<G1>("f0f0");
    let e1 = g.mul_by_scalar(&s);
    let e2 = e1.plus_point(&h.mul_by_scalar(&s2));
    for w in 1..=7usize {
        let got = GenericMultiExp::new(&[g], w).multiexp(&[s]);
        if got != e1 {
            return fail(&format!("GenericMultiExp window {} on one point differs from mul_by_scalar", w), json!(hex::encode(to_bytes(&e1))), json!(hex::encode(to_bytes(&got))));
        }
        if w % 2 == 0 {
            let got = GenericMultiExp::new(&[h, g], w).multiexp(&[s2, s]);
            if got != e2 {
                return fail(&format!("GenericMultiExp window {} on two points differs from the sum", w), json!(hex::encode(to_bytes(&e2))), json!(hex::encode(to_bytes(&got))));
            }
        }
    }
    // the Ristretto instance goes through dalek's multiscalar multiplication
    if let Some(se) = scalar_from_limbs::<RistrettoPoint>(l) {
        let (ge, _) = base_points::<RistrettoPoint>();
        let got = multiexp::<RistrettoPoint, RistrettoPoint>(&[ge], &[se]);
        if got != ge.mul_by_scalar(&se) {
            return fail("ed25519 multiexp on one point differs from mul_by_scalar", J::Null, J::Null);
        }
    }
    Ok(())
}

fn run_shamir<C: Curve>(v: &J, pmap: u64, name: &str) -> Res {
    let map = |p: u64| -> u64 {
        match pmap {
            0 => p,
            1 => p * 1_000_003 + 7,
            _ => u32::MAX as u64 - p,
        }
    };
    let points: Vec<u64> = v["points"].as_array().unwrap().iter().map(|x| map(x.as_u64().unwrap())).collect();
    let revealed: Vec<u64> = v["revealed"].as_array().unwrap().iter().map(|x| map(x.as_u64().unwrap())).collect();
    let t = v["t"].as_u64().unwrap() as u8;
    let mut rng = StdRng::seed_from_u64(0xC20 + pmap * 131 + t as u64 + points.iter().sum::<u64>());
    let secret = C::generate_scalar(&mut rng);
    let data = share::<C, u64, _, _>(&secret, points.iter().copied(), Threshold::try_new(t).unwrap(), &mut rng);
    if data.shares.len() != points.len() {
        return fail("number of shares", json!(points.len()), json!(data.shares.len()));
    }
    if data.coefficients.len() != (t as usize) - 1 {
        return fail("degree of the sharing polynomial + 1 = threshold", json!(t), json!(data.coefficients.len() + 1));
    }
    if let Some(top) = data.coefficients.last() {
        if top.is_zero() {
            return fail("leading coefficient is non-zero", json!(true), json!(false));
        }
    }
    // shares are the evaluations of secret + c1 x + ... at the points
    for (p, s) in points.iter().zip(data.shares.iter()) {
        let x = C::scalar_from_u64(*p);
        let mut acc = C::Scalar::zero();
        let mut xp = C::Scalar::one();
        acc.add_assign(&secret);
        for c in data.coefficients.iter() {
            xp.mul_assign(&x);
            let mut term: C::Scalar = **c;
            term.mul_assign(&xp);
            acc.add_assign(&term);
        }
        let sv: C::Scalar = **s;
        if sv != acc {
            return fail(&format!("share at point {} is the polynomial evaluated there ({})", p, name), J::Null, J::Null);
        }
    }
    let (g, _) = base_points::<C>();
    let sel: Vec<(u64, Value<C>)> = revealed.iter().map(|p| (*p, data.shares[points.iter().position(|q| q == p).unwrap()].clone())).collect();
    let sel_g: Vec<(u64, C)> = sel.iter().map(|(p, s)| (*p, g.mul_by_scalar(s))).collect();
    let got = reveal::<u64, C>(&sel);
    let got_g = reveal_in_group::<u64, C>(&sel_g);
    let exp = v["expect"].as_str().unwrap();
    let (ok, okg) = match exp {
        "secret" => (got == secret, got_g == g.mul_by_scalar(&secret)),
        "unrelated" => (got != secret, got_g != g.mul_by_scalar(&secret)),
        _ => (got.is_zero(), got_g.is_zero_point()),
    };
    if !ok {
        return fail(&format!("reveal from {} of {} shares (threshold {}) on {}", revealed.len(), points.len(), t, name), json!(exp), json!("other"));
    }
    if !okg {
        return fail(&format!("reveal_in_group from {} of {} shares (threshold {}) on {}", revealed.len(), points.len(), t, name), json!(exp), json!("other"));
    }
    Ok(())
}

fn decode_all<T: Deserial>(bytes: &[u8]) -> Option<T> {
    let mut c = Cursor::new(bytes);
    match T::deserial(&mut c) {
        Ok(v) if c.position() as usize == bytes.len() => Some(v),
        _ => None,
    }
}

/// x coordinate bytes and "y is the larger root" for a short Weierstrass affine point.
trait BlsEnc: ark_ec::short_weierstrass::SWCurveConfig {
    fn x_bytes(p: &Affine<Self>) -> Vec<u8>;
    fn y_is_largest(p: &Affine<Self>) -> bool;
    fn x_from_small(n: u64) -> Self::BaseField;
    fn gep(which: u64, valid_x: &[u8]) -> Vec<u8>;
}
fn fq_bytes(x: &ark_bls12_381::Fq) -> Vec<u8> { x.into_bigint().to_bytes_be() }
impl BlsEnc for ark_bls12_381::g1::Config {
    fn x_bytes(p: &Affine<Self>) -> Vec<u8> { fq_bytes(&p.x) }
    fn y_is_largest(p: &Affine<Self>) -> bool { p.y > -p.y }
    fn x_from_small(n: u64) -> Self::BaseField { ark_bls12_381::Fq::from(n) }
    fn gep(which: u64, _valid: &[u8]) -> Vec<u8> { be(&(big(P_BLS) + BigUint::from(which - 1)), 48) }
}
impl BlsEnc for ark_bls12_381::g2::Config {
    fn x_bytes(p: &Affine<Self>) -> Vec<u8> {
        let mut v = fq_bytes(&p.x.c1);
        v.extend(fq_bytes(&p.x.c0));
        v
    }
    fn y_is_largest(p: &Affine<Self>) -> bool {
        let n = -p.y;
        (p.y.c1, p.y.c0) > (n.c1, n.c0)
    }
    fn x_from_small(n: u64) -> Self::BaseField { ark_bls12_381::Fq2::new(ark_bls12_381::Fq::from(n), ark_bls12_381::Fq::from(1u64)) }
    fn gep(which: u64, valid: &[u8]) -> Vec<u8> {
        // which = 1: c1 = p (c0 of a valid point); which = 2: c1 of a valid point, c0 = p + 1
        let mut v = valid.to_vec();
        if which == 1 {
            v[..48].copy_from_slice(&be(&big(P_BLS), 48));
        } else {
            v[48..].copy_from_slice(&be(&(big(P_BLS) + BigUint::from(1u8)), 48));
        }
        v
    }
}

fn run_bls<P: BlsEnc>(row: &J, accept: bool, name: &str) -> Res
where
    ArkGroup<ark_ec::short_weierstrass::Projective<P>>: Curve, {
    type Pt<P> = ArkGroup<ark_ec::short_weierstrass::Projective<P>>;
    let which = row["which"].as_u64().unwrap();
    let gen = Affine::<P>::generator();
    let valid = (gen * P::ScalarField::from(which + 4)).into_affine();
    let valid_x = P::x_bytes(&valid);
    let mut expect_point: Option<Affine<P>> = None;
    let sign = row["sign"].as_bool().unwrap();
    let mut xb = match row["x"].as_str().unwrap() {
        "zero" => vec![0u8; valid_x.len()],
        "sub" => {
            expect_point = Some(if P::y_is_largest(&valid) == sign { valid } else { -valid });
            valid_x.clone()
        }
        "gep" => P::gep(which, &valid_x),
        cls => {
            // search small x values of the requested class with the curve equation of arkworks
            let mut found = None;
            let mut hits = 0;
            for n in 1..2000u64 {
                let x = P::x_from_small(n);
                let pt = Affine::<P>::get_point_from_x_unchecked(x, false);
                let is = match (&pt, cls) {
                    (None, "offc") => true,
                    (Some(p), "nosub") => !p.is_in_correct_subgroup_assuming_on_curve(),
                    _ => false,
                };
                if is {
                    hits += 1;
                    if hits == which {
                        let probe = Affine::<P>::new_unchecked(x, pt.map(|p| p.y).unwrap_or(x));
                        found = Some(P::x_bytes(&probe));
                        break;
                    }
                }
            }
            match found {
                Some(b) => b,
                None => return fail("harness: no x of the requested class found", json!(cls), J::Null),
            }
        }
    };
    if xb[0] & 0xe0 != 0 {
        return fail("harness: coordinate does not leave the flag bits free", J::Null, J::Null);
    }
    if row["comp"].as_bool().unwrap() {
        xb[0] |= 0x80;
    }
    if row["inf"].as_bool().unwrap() {
        xb[0] |= 0x40;
    }
    if sign {
        xb[0] |= 0x20;
    }
    let got: Option<Pt<P>> = decode_all(&xb);
    if got.is_some() != accept {
        return fail(&format!("{} decoder accepts {}", name, hex::encode(&xb)), json!(accept), json!(got.is_some()));
    }
    if let Some(p) = got {
        if to_bytes(&p) != xb {
            return fail(&format!("{}: re-encoding an accepted encoding reproduces it", name), json!(hex::encode(&xb)), json!(hex::encode(to_bytes(&p))));
        }
        match expect_point {
            Some(e) => {
                if p.into_ark().into_affine() != e {
                    return fail(&format!("{}: decoded point is the one with this x and this sign", name), J::Null, J::Null);
                }
            }
            None => {
                if !p.is_zero_point() {
                    return fail(&format!("{}: infinity encoding decodes to the identity", name), J::Null, J::Null);
                }
            }
        }
    }
    Ok(())
}

fn run_ristretto(row: &J, accept: bool) -> Res {
    let which = row["which"].as_u64().unwrap();
    let (g, _) = base_points::<RistrettoPoint>();
    let pt = g.mul_by_scalar(&<RistrettoPoint as Curve>::scalar_from_u64(which + 2));
    let valid = pt.compress().to_bytes();
    let le = |n: BigUint| -> Vec<u8> {
        let mut b = n.to_bytes_le();
        b.resize(32, 0);
        b
    };
    let bytes: Vec<u8> = match row["cls"].as_str().unwrap() {
        "identity" => vec![0u8; 32],
        "valid" => valid.to_vec(),
        "negated" => le(big(P_ED) - BigUint::from_bytes_le(&valid)),
        "plus_p" => le(big(P_ED) + BigUint::from(which)),
        "p_itself" => le(big(P_ED)),
        "all_ff" => vec![0xff; 32],
        "high_bit" => {
            let mut v = valid.to_vec();
            v[31] |= 0x80;
            v
        }
        o => return fail("unknown class", json!(o), J::Null),
    };
    let got: Option<RistrettoPoint> = decode_all(&bytes);
    if got.is_some() != accept {
        return fail(&format!("ristretto decoder accepts {}", hex::encode(&bytes)), json!(accept), json!(got.is_some()));
    }
    if let Some(p) = got {
        if to_bytes(&p) != bytes {
            return fail("ristretto: re-encoding an accepted encoding reproduces it", json!(hex::encode(&bytes)), json!(hex::encode(to_bytes(&p))));
        }
        let exp = if row["cls"] == "identity" { RistrettoPoint::zero_point() } else { pt };
        if p != exp {
            return fail("ristretto: decoded point", J::Null, J::Null);
        }
    }
    Ok(())
}

fn run_scalar(row: &J, accept: bool) -> Res {
    let ed = row["field"] == "Ed";
    let r = if ed { big(L_ED) } else { big(R_BLS) };
    let n = match row["v"].as_str().unwrap() {
        "0" => BigUint::from(0u8),
        "1" => BigUint::from(1u8),
        "r-1" => &r - 1u8,
        "r" => r.clone(),
        "r+1" => &r + 1u8,
        "2^255" => BigUint::from(1u8) << 255,
        "2^255-1" => (BigUint::from(1u8) << 255) - 1u8,
        _ => (BigUint::from(1u8) << 256) - 1u8,
    };
    let mut bytes = be(&n, 32);
    if ed {
        bytes.reverse();
    }
    let (ok, back, val_ok) = if ed {
        let got: Option<<RistrettoPoint as Curve>::Scalar> = decode_all(&bytes);
        let v = got.map(|s| {
            let l = s.into_repr();
            let mut b = Vec::new();
            for x in l {
                b.extend_from_slice(&x.to_le_bytes());
            }
            BigUint::from_bytes_le(&b) == n
        });
        (got.is_some(), got.map(|s| to_bytes(&s)), v)
    } else {
        let got: Option<<G1 as Curve>::Scalar> = decode_all(&bytes);
        let v = got.map(|s| {
            let l = s.into_repr();
            let mut b = Vec::new();
            for x in l {
                b.extend_from_slice(&x.to_le_bytes());
            }
            BigUint::from_bytes_le(&b) == n
        });
        (got.is_some(), got.map(|s| to_bytes(&s)), v)
    };
    if ok != accept {
        return fail(&format!("scalar decoder ({}) accepts {}", row["field"], row["v"]), json!(accept), json!(ok));
    }
    if let Some(b) = back {
        if b != bytes {
            return fail("scalar: re-encoding reproduces the accepted encoding", json!(hex::encode(&bytes)), json!(hex::encode(&b)));
        }
        if val_ok != Some(true) {
            return fail("scalar: decoded value (limbs) equals the encoded number", J::Null, J::Null);
        }
    }
    Ok(())
}

fn msg_of(m: &str) -> Vec<u8> {
    match m {
        "empty" => vec![],
        "a" => b"a".to_vec(),
        "b" => b"b".to_vec(),
        "a0" => vec![b'a', 0],
        _ => vec![0x61; 1000],
    }
}

fn run_hash<C: Curve>(row: &J, name: &str) -> Res {
    let m1 = msg_of(row["m1"].as_str().unwrap());
    let m2 = msg_of(row["m2"].as_str().unwrap());
    let (h1, h1b, h2) = match (C::hash_to_group(&m1), C::hash_to_group(&m1), C::hash_to_group(&m2)) {
        (Ok(a), Ok(b), Ok(c)) => (a, b, c),
        _ => return fail(&format!("hash_to_group fails on {}", name), J::Null, J::Null),
    };
    if h1 != h1b {
        return fail(&format!("hash_to_group deterministic on {}", name), J::Null, J::Null);
    }
    if (h1 == h2) != (m1 == m2) {
        return fail(&format!("hash_to_group on {}: equal outputs iff equal messages", name), json!(m1 == m2), json!(h1 == h2));
    }
    // in the group: the encoding is accepted by the (subgroup-checking) decoder and the point is not the identity
    let back: Option<C> = decode_all(&to_bytes(&h1));
    if back != Some(h1) || h1.is_zero_point() {
        return fail(&format!("hash_to_group on {} lands in the group (non-identity, accepted encoding)", name), J::Null, J::Null);
    }
    Ok(())
}

fn run_hdpath(v: &J) -> Res {
    use concordium_base::{contracts_common::ContractAddress, id::types::AttributeTag};
    use key_derivation::{ConcordiumHdWallet, Net};
    let call = &v["call"];
    let g = call["g"].as_str().unwrap();
    let idx = |x: &J| -> u32 {
        match x.as_i64().unwrap() {
            -1 => 0x8000_0000,
            -2 => u32::MAX,
            n => n as u32,
        }
    };
    let chunks = |x: &J| -> u64 { x.as_array().unwrap().iter().fold(0u64, |a, c| (a << 16) | c.as_u64().unwrap()) };
    let net = if v["net"] == "Mainnet" { Net::Mainnet } else { Net::Testnet };
    for seed_no in 0..2u8 {
        let mut seed = [0u8; 64];
        for (i, b) in seed.iter_mut().enumerate() {
            *b = (i as u8).wrapping_mul(7).wrapping_add(seed_no.wrapping_mul(101));
        }
        let w = ConcordiumHdWallet { seed, net };
        let got: Result<Vec<u8>, String> = match g {
            "account_signing_key" => w.get_account_signing_key(idx(&call["ip"]), idx(&call["id"]), idx(&call["cred"])).map(|k| k.to_vec()).map_err(|e| e.to_string()),
            "account_public_key" => w.get_account_public_key(idx(&call["ip"]), idx(&call["id"]), idx(&call["cred"])).map(|k| k.to_bytes().to_vec()).map_err(|e| e.to_string()),
            "id_cred_sec" => w.get_id_cred_sec(idx(&call["ip"]), idx(&call["id"])).map(|k| to_bytes(&k)).map_err(|e| e.to_string()),
            "prf_key" => w.get_prf_key(idx(&call["ip"]), idx(&call["id"])).map(|k| to_bytes(&k)).map_err(|e| e.to_string()),
            "blinding_randomness" => w.get_blinding_randomness(idx(&call["ip"]), idx(&call["id"])).map(|k| to_bytes(&k)).map_err(|e| e.to_string()),
            "attribute_commitment_randomness" => w
                .get_attribute_commitment_randomness(idx(&call["ip"]), idx(&call["id"]), idx(&call["cred"]), AttributeTag(call["tag"].as_u64().unwrap() as u8))
                .map(|k| to_bytes(&k))
                .map_err(|e| e.to_string()),
            "vc_signing_key" => w
                .get_verifiable_credential_signing_key(ContractAddress::new(chunks(&call["issuer"]), chunks(&call["sub"])), idx(&call["vc"]))
                .map(|k| k.to_vec())
                .map_err(|e| e.to_string()),
            "vc_public_key" => w
                .get_verifiable_credential_public_key(ContractAddress::new(chunks(&call["issuer"]), chunks(&call["sub"])), idx(&call["vc"]))
                .map(|k| k.to_bytes().to_vec())
                .map_err(|e| e.to_string()),
            "vc_backup_encryption_key" => w.get_verifiable_credential_backup_encryption_key().map(|k| k.to_vec()).map_err(|e| e.to_string()),
            o => return fail("unknown getter", json!(o), J::Null),
        };
        let ok = v["ok"].as_bool().unwrap();
        if got.is_ok() != ok {
            return fail(&format!("{}: succeeds iff every index can be hardened", g), json!(ok), json!(got.is_ok()));
        }
        if !ok {
            continue;
        }
        let path: Vec<u32> = v["path"].as_array().unwrap().iter().map(|x| x.as_u64().unwrap() as u32).collect();
        let sk = ref_slip10(&seed, &path);
        let exp: Vec<u8> = match v["form"].as_str().unwrap() {
            "ed25519_secret" => sk.to_vec(),
            "ed25519_public" => ed25519_dalek::SigningKey::from_bytes(&sk).verifying_key().to_bytes().to_vec(),
            _ => ref_keygen_bls(&sk, b""),
        };
        let got = got.unwrap();
        if got != exp {
            return fail(&format!("{} = f(SLIP-10 key of the documented path)", g), json!(hex::encode(&exp)), json!(hex::encode(&got)));
        }
        // the library's own path functions agree with the reference chain
        let lib = ed25519_hd_key_derivation::derive_from_parsed_path(&path.iter().map(|i| i | 0x8000_0000).collect::<Vec<_>>(), &seed).map(|k| k.private_key);
        if lib.ok() != Some(sk) {
            return fail("derive_from_parsed_path = SLIP-10 HMAC chain", json!(hex::encode(sk)), J::Null);
        }
        let bls = keygen_bls::keygen_bls(&sk, b"").map(|k| to_bytes(&k)).ok();
        if bls != Some(ref_keygen_bls(&sk, b"")) {
            return fail("keygen_bls = HKDF-based BLS key generation", J::Null, J::Null);
        }
    }
    Ok(())
}

pub fn main(args: &[String]) -> i32 {
    drive(args, "c20-replay", |v, stats| {
        let kind = v["kind"].as_str().or_else(|| v["row"]["kind"].as_str()).unwrap_or("?").to_string();
        *stats.entry(kind.clone()).or_default() += 1;
        match kind.as_str() {
            "multiexp" => {
                run_multiexp::<G1>(v, "G1")?;
                run_multiexp::<RistrettoPoint>(v, "ed25519")?;
                if v["vec"].as_array().unwrap().len() <= 1 || v["idx"].as_u64().unwrap_or(0) % 4 == 0 {
                    run_multiexp::<G2>(v, "G2")?;
                }
                Ok(())
            }
            "wnaf" => run_wnaf(v, stats),
            "vec_commit" => run_vec_commit(v),
            "threshold" => {
                let n = v["n"].as_u64().unwrap() as usize;
                let ok = v["ok"].as_bool().unwrap();
                let got = Threshold::try_from(n).ok();
                if got.is_some() != ok || got.map_or(false, |t| usize::from(u8::from(t)) != n) {
                    return fail(&format!("Threshold::try_from({}usize)", n), json!(ok), json!(got.map(|t| u8::from(t))));
                }
                if n <= 255 && (Threshold::try_new(n as u8).is_ok() != ok || Threshold::try_from(n as u8).is_ok() != ok) {
                    return fail(&format!("Threshold::try_new({})", n), json!(ok), json!(!ok));
                }
                Ok(())
            }
            "shamir" => {
                *stats.entry(format!("shamir:{}", v["expect"].as_str().unwrap())).or_default() += 1;
                for pmap in 0..3 {
                    run_shamir::<G1>(v, pmap, "G1")?;
                }
                run_shamir::<RistrettoPoint>(v, 0, "ed25519")?;
                if v["points"].as_array().unwrap().len() <= 2 {
                    run_shamir::<G2>(v, 1, "G2")?;
                }
                Ok(())
            }
            "bls" | "ristretto" | "scalar" | "hash" => {
                let row = &v["row"];
                let accept = v["accept"].as_bool().unwrap();
                *stats.entry(format!("{}:{}", kind, if accept { "accept" } else { "reject" })).or_default() += 1;
                match kind.as_str() {
                    "bls" if row["curve"] == "G1" => run_bls::<ark_bls12_381::g1::Config>(row, accept, "G1"),
                    "bls" => run_bls::<ark_bls12_381::g2::Config>(row, accept, "G2"),
                    "ristretto" => run_ristretto(row, accept),
                    "scalar" => run_scalar(row, accept),
                    _ => match row["curve"].as_str().unwrap() {
                        "G1" => run_hash::<G1>(row, "G1"),
                        "G2" => run_hash::<G2>(row, "G2"),
                        _ => run_hash::<RistrettoPoint>(row, "ed25519"),
                    },
                }
            }
            "hdpath" => {
                *stats.entry(format!("hdpath:{}", if v["ok"].as_bool().unwrap() { "ok" } else { "err" })).or_default() += 1;
                run_hdpath(v)
            }
            o => fail("unknown row kind", json!(o), J::Null),
        }
    })
}
