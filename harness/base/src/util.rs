use serde_json::Value;

pub fn read_lines(path: &str) -> Vec<String> {
    std::fs::read_to_string(path)
        .unwrap_or_else(|e| {
            eprintln!("cannot read {}: {}", path, e);
            std::process::exit(2)
        })
        .lines()
        .filter(|l| !l.trim().is_empty())
        .map(|s| s.to_string())
        .collect()
}

pub fn panic_message(e: Box<dyn std::any::Any + Send>) -> String {
    if let Some(s) = e.downcast_ref::<&str>() {
        s.to_string()
    } else if let Some(s) = e.downcast_ref::<String>() {
        s.clone()
    } else {
        "panic".to_string()
    }
}

pub fn bytes_of(v: &Value) -> Vec<u8> {
    v.as_array().map(|a| a.iter().map(|x| x.as_u64().unwrap_or(0) as u8).collect()).unwrap_or_default()
}

/// Generic driver: apply `f` to every line of the input file; collect failures and a summary in
/// the format all replayers of /verif share.
pub fn drive(args: &[String], name: &str, mut f: impl FnMut(&Value, &mut std::collections::BTreeMap<String, u64>) -> Result<(), (String, Value, Value)>) -> i32 {
    if args.len() < 2 {
        eprintln!("usage: {} <vectors.ndjson> <results.ndjson>", name);
        return 2;
    }
    let lines = read_lines(&args[0]);
    let mut out = String::new();
    let mut stats = std::collections::BTreeMap::new();
    let mut bad = 0u64;
    std::panic::set_hook(Box::new(|_| {}));
    for (n, line) in lines.iter().enumerate() {
        let v: Value = match serde_json::from_str(line) {
            Ok(v) => v,
            Err(e) => {
                eprintln!("line {}: bad json: {}", n, e);
                return 2;
            }
        };
        let res = std::panic::catch_unwind(std::panic::AssertUnwindSafe(|| f(&v, &mut stats)));
        let rec = match res {
            Ok(Ok(())) => continue,
            Ok(Err((what, exp, got))) => serde_json::json!({"idx": n, "ok": false, "step": 0, "what": what, "exp": exp, "got": got}),
            Err(p) => serde_json::json!({"idx": n, "ok": false, "step": -1, "what": format!("panic: {}", panic_message(p))}),
        };
        bad += 1;
        out.push_str(&rec.to_string());
        out.push('\n');
    }
    out.push_str(&serde_json::json!({"summary": true, "behaviours": lines.len(), "bad": bad, "by_action": stats}).to_string());
    out.push('\n');
    if std::fs::write(&args[1], out).is_err() {
        return 2;
    }
    0
}
