//! C06 (update part): find_authorized_keys / signing of update hashes against UpdateKeys.tla.
use crate::util::*;
use concordium_base::{
    base::{UpdateKeyPair, UpdateKeysIndex, UpdateKeysThreshold, UpdatePublicKey},
    hashes::UpdateSignHash,
    updates::{find_authorized_keys, AccessStructure, UpdateSigner},
};
use rand::SeedableRng;
use serde_json::{json, Value};

fn key(id: u64) -> UpdateKeyPair { UpdateKeyPair::generate(&mut rand::rngs::StdRng::seed_from_u64(1000 + id)) }

pub fn main(args: &[String]) -> i32 {
    drive(args, "updkeys-replay", |v, stats| {
        let n = v["nkeys"].as_u64().unwrap();
        let keys: Vec<UpdatePublicKey> = (0..n).map(|i| UpdatePublicKey::from(&key(i))).collect();
        let acc = AccessStructure {
            authorized_keys: v["authorized"].as_array().unwrap().iter().map(|x| UpdateKeysIndex { index: x.as_u64().unwrap() as u16 }).collect(),
            threshold:       UpdateKeysThreshold::try_from(v["threshold"].as_u64().unwrap() as u16).unwrap(),
        };
        let actual: Vec<UpdateKeyPair> = v["actual"].as_array().unwrap().iter().map(|x| key(x.as_u64().unwrap())).collect();
        let exp_ok = v["ok"].as_bool().unwrap();
        *stats.entry(format!("expect:{}", exp_ok)).or_default() += 1;
        match find_authorized_keys(&keys, &acc, actual) {
            None => {
                if exp_ok {
                    return Err(("find_authorized_keys refused an admissible signer set".into(), json!("Some"), json!("None")));
                }
            }
            Some(m) => {
                if !exp_ok {
                    return Err(("find_authorized_keys accepted an inadmissible signer set".into(), json!("None"), json!("Some")));
                }
                let got: Vec<u64> = m.keys().map(|k| k.index as u64).collect();
                let exp: Vec<u64> = v["signers"].as_array().unwrap().iter().map(|x| x.as_u64().unwrap()).collect();
                if got != exp {
                    return Err(("signer indices".into(), json!(exp), json!(got)));
                }
                // the signatures it produces verify under exactly the listed keys at those indices, over the digest
                let digest = UpdateSignHash::new([0x33u8; 32]);
                let sig = m.sign_update_hash(&digest);
                for (idx, s) in sig.signatures.iter() {
                    let pk = &keys[idx.index as usize];
                    if !pk.public.verify(digest.as_ref() as &[u8], s) {
                        return Err((format!("signature at index {} does not verify under the listed key", idx.index), Value::Null, Value::Null));
                    }
                    let other = UpdateSignHash::new([0x34u8; 32]);
                    if pk.public.verify(other.as_ref() as &[u8], s) {
                        return Err(("signature verifies over a different digest".into(), Value::Null, Value::Null));
                    }
                }
                if sig.signatures.len() != exp.len() {
                    return Err(("number of signatures".into(), json!(exp.len()), json!(sig.signatures.len())));
                }
            }
        }
        Ok(())
    })
}
