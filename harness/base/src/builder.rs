//! C06 (builder part): behaviours of TxBuilder.tla replayed on construct::PreAccountTransactionV1
//! (extend, add_sponsor, sign, sponsor, finalize in any order).  After every call the serialised
//! header, the stored sign digest and the energy are compared with the specification; at
//! finalize the verification verdict of the produced transaction is compared as well.
use crate::{envelope::eval_term, util::*};
use concordium_base::{
    base::Nonce,
    common::{
        to_bytes,
        types::{Amount, CredentialIndex, KeyIndex, KeyPair, TransactionTime},
    },
    contracts_common::{AccountAddress, AccountThreshold, SignatureThreshold},
    id::types::{AccountKeys, CredentialData, CredentialPublicKeys, VerifyKey},
    transactions::{construct, AccountAccessStructure, BlockItem},
};
use serde_json::{json, Value};
use sha2::Digest;
use std::collections::BTreeMap;

fn keys(cred: u8, idxs: &[u8], threshold: u8, salt: u8) -> (AccountKeys, AccountAccessStructure) {
    let mut ks = BTreeMap::new();
    let mut pks = BTreeMap::new();
    for &i in idxs {
        let mut seed = [salt; 32];
        seed[0] = i;
        seed[1] = cred;
        let kp = KeyPair::from(ed25519_dalek::SigningKey::from_bytes(&seed));
        pks.insert(KeyIndex(i), VerifyKey::from(&kp));
        ks.insert(KeyIndex(i), kp);
    }
    let thr = SignatureThreshold::try_from(threshold).unwrap();
    let mut creds = BTreeMap::new();
    creds.insert(CredentialIndex { index: cred }, CredentialData { keys: ks, threshold: thr });
    let mut pcreds = BTreeMap::new();
    pcreds.insert(CredentialIndex { index: cred }, CredentialPublicKeys { keys: pks, threshold: thr });
    (
        AccountKeys { keys: creds, threshold: AccountThreshold::ONE },
        AccountAccessStructure { keys: pcreds, threshold: AccountThreshold::ONE },
    )
}

pub fn main(args: &[String]) -> i32 {
    drive(args, "builder-replay", |v, stats| {
        let sender = AccountAddress([3u8; 32]);
        let (sender_keys, sender_acc) = keys(0, &[0, 3], 2, 0x5a);
        let (sponsor_keys, sponsor_acc) = keys(1, &[2], 1, 0x77);
        let payload = eval_term(&v["payload"]);
        let prefix = eval_term(&v["prefix"]);
        let pre0 = construct::transfer(1, sender, Nonce { nonce: 7 }, TransactionTime { seconds: 1_700_000_000 }, AccountAddress([9u8; 32]), Amount::from_micro_ccd(1));
        let mut pre0 = Some(pre0);
        let mut pre1: Option<construct::PreAccountTransactionV1> = None;
        for (n, op) in v["ops"].as_array().unwrap().iter().enumerate() {
            let name = op["op"].as_str().unwrap();
            let exp_ok = op["ok"].as_bool().unwrap();
            *stats.entry(format!("{}:{}", name, if exp_ok { "ok" } else { "err" })).or_default() += 1;
            let fail = |what: &str, exp: Value, got: Value| Err((format!("step {} ({}): {}", n, name, what), exp, got));
            let mut verdict: Option<bool> = None;
            let got_ok = match name {
                "extend" => {
                    pre1 = Some(pre0.take().unwrap().extend());
                    true
                }
                "add_sponsor" => {
                    let a = op["arg"][0].as_u64().unwrap() as u8;
                    let k = op["arg"][1].as_u64().unwrap() as u32;
                    pre1.as_mut().unwrap().add_sponsor(AccountAddress([a; 32]), k).is_ok()
                }
                "sign" => {
                    pre1.as_mut().unwrap().sign(&sender_keys);
                    true
                }
                "sponsor" => pre1.as_mut().unwrap().sponsor(&sponsor_keys).is_ok(),
                "finalize" => match pre1.as_ref().unwrap().finalize() {
                    Ok(tx) => {
                        verdict = Some(tx.verify_transaction_signature(&sender_acc, &sponsor_acc));
                        let exp_header = eval_term(&op["header"]);
                        let mut tail = exp_header.clone();
                        tail.extend_from_slice(&payload);
                        let bi = BlockItem::AccountTransactionV1(tx);
                        let bytes = to_bytes(&bi);
                        if bytes[0] != 3 || bytes.len() < tail.len() || bytes[bytes.len() - tail.len()..] != tail[..] {
                            return fail("block item is not tag 3 ++ signatures ++ header ++ payload", json!(hex::encode(&tail)), json!(hex::encode(&bytes)));
                        }
                        let h: [u8; 32] = sha2::Sha256::digest(&bytes).into();
                        let got = bi.hash();
                        let got: &[u8] = got.as_ref();
                        if got != h {
                            return fail("block item hash != SHA-256(serialised block item)", json!(hex::encode(h)), json!(hex::encode(got)));
                        }
                        true
                    }
                    Err(_) => false,
                },
                other => return fail("unknown op", json!(other), Value::Null),
            };
            if got_ok != exp_ok {
                return fail("call succeeds", json!(exp_ok), json!(got_ok));
            }
            let p = pre1.as_ref().unwrap();
            let exp_header = eval_term(&op["header"]);
            let got_header = to_bytes(&p.header);
            if got_header != exp_header {
                return fail("serialised header (bitmap, sender, nonce, energy, payload size, expiry, sponsor)", json!(hex::encode(&exp_header)), json!(hex::encode(&got_header)));
            }
            if u64::from(p.header.energy_amount) != op["energy"].as_u64().unwrap() {
                return fail("energy", op["energy"].clone(), json!(u64::from(p.header.energy_amount)));
            }
            if to_bytes(&p.encoded) != payload {
                return fail("payload bytes", json!(hex::encode(&payload)), json!(hex::encode(to_bytes(&p.encoded))));
            }
            if op["digest_current"].as_bool().unwrap() {
                let mut hb = prefix.clone();
                hb.extend_from_slice(&exp_header);
                hb.extend_from_slice(&payload);
                let digest: [u8; 32] = sha2::Sha256::digest(&hb).into();
                let got: &[u8] = p.hash_to_sign.as_ref();
                if got != digest {
                    return fail("stored sign digest != SHA-256(prefix ++ current header ++ payload)", json!(hex::encode(digest)), json!(hex::encode(got)));
                }
            }
            if let Some(got) = verdict {
                let exp = op["verifies"].as_bool().unwrap();
                *stats.entry(format!("finalize verifies:{}", exp)).or_default() += 1;
                if got != exp {
                    return fail("finalized transaction verifies against sender and sponsor keys", json!(exp), json!(got));
                }
            }
        }
        Ok(())
    })
}
