//! C12: EncAmount.tla scenarios (deposits aggregated into an encrypted balance, encrypted transfers and
//! transfers to public) on elgamal / encrypted_transfers with real keys.  Model amounts of 2W bits are
//! embedded chunk-wise into u64 so that 0, 1, 2^32-2, 2^32-1, 2^32, 2^64-1 and carry-free chunk sums occur;
//! expectations follow the rules model-checked in the specification (aggregation adds chunks, decryption
//! recombines lo + hi * 2^32, a transfer exists iff amount <= balance, remaining + transferred = balance,
//! verification accepts iff nothing was tampered with), evaluated here in 128-bit arithmetic.
#![allow(deprecated)]
use crate::util::*;
use concordium_base::{
    common::{to_bytes, types::Amount, Deserial},
    curve_arithmetic::Curve,
    elgamal::{BabyStepGiantStep, PublicKey, SecretKey},
    encrypted_transfers::{
        aggregate, decrypt_amount, encrypt_amount, encrypt_amount_with_fixed_randomness, make_sec_to_pub_transfer_data, make_transfer_data,
        types::{AggregatedDecryptedAmount, EncryptedAmount, EncryptedAmountTransferData, SecToPubAmountTransferData},
        verify_sec_to_pub_transfer_data, verify_transfer_data,
    },
    id::{constants::ArCurve, types::GlobalContext},
};
use rand::{rngs::StdRng, SeedableRng};
use serde_json::{json, Value as J};
use std::io::Cursor;

type C = ArCurve;
fn fail<T>(what: String, exp: J, got: J) -> Result<T, (String, J, J)> { Err((what, exp, got)) }

fn phi(c: u64, w: u64) -> u64 {
    // chunk values of the model -> 32-bit chunk values: 0, 1, ..., 2^32-2, 2^32-1
    let top = (1u64 << w) - 1;
    if c == 0 {
        0
    } else if c == 1 {
        1
    } else if c == top {
        u32::MAX as u64
    } else if c == top - 1 {
        u32::MAX as u64 - 1
    } else {
        1 << (8 * c)
    }
}
fn embed(a: u64, w: u64) -> u64 { phi(a % (1 << w), w) | (phi(a >> w, w) << 32) }

fn reparse<T: Deserial>(bytes: &[u8]) -> Option<T> { T::deserial(&mut Cursor::new(bytes)).ok() }

pub fn main(args: &[String]) -> i32 {
    let ctx = GlobalContext::<C>::generate(String::from("vh-base C12"));
    let mut rng0 = StdRng::seed_from_u64(12);
    let sk = SecretKey::generate(ctx.elgamal_generator(), &mut rng0);
    let pk = PublicKey::from(&sk);
    let sk_r = SecretKey::generate(ctx.elgamal_generator(), &mut rng0);
    let pk_r = PublicKey::from(&sk_r);
    let sk_o = SecretKey::generate(ctx.elgamal_generator(), &mut rng0);
    let pk_o = PublicKey::from(&sk_o);
    let table = BabyStepGiantStep::new(ctx.encryption_in_exponent_generator(), 1 << 16);
    // a table whose size is not a power of two decrypts the same values
    let table_odd = BabyStepGiantStep::new(ctx.encryption_in_exponent_generator(), 60_000);
    drive(args, "c12-replay", |v, stats| {
        let w = v["w"].as_u64().unwrap();
        let mut rng = StdRng::seed_from_u64(v["idx"].as_u64().unwrap_or(0) + 1000);
        let mut enc: EncryptedAmount<C> = encrypt_amount_with_fixed_randomness(&ctx, Amount::from_micro_ccd(0));
        let mut plain: u128 = 0;
        let (mut lo, mut hi): (u128, u128) = (0, 0);
        let mut index = 0u64;
        // while the balance is a single embedded amount the embedding preserves order, so the model's own verdict applies verbatim
        let mut single = true;
        let mut deposits = 0;
        for (n, op) in v["ops"].as_array().unwrap().iter().enumerate() {
            let a = embed(op["a"].as_u64().unwrap(), w);
            let name = op["op"].as_str().unwrap();
            let here = |s: &str| format!("op {} ({} {}): {}", n, name, a, s);
            if name == "deposit" {
                if plain + a as u128 > u64::MAX as u128 {
                    *stats.entry("skipped: total above 2^64".into()).or_default() += 1;
                    return Ok(());
                }
                let e = if n % 2 == 0 { encrypt_amount(&ctx, &pk, Amount::from_micro_ccd(a), &mut rng).0 } else { encrypt_amount_with_fixed_randomness(&ctx, Amount::from_micro_ccd(a)) };
                // a fresh encryption decrypts to the amount
                let d = decrypt_amount(&table, &sk, &e).micro_ccd();
                if d != a {
                    return fail(here("decrypt(encrypt(a)) = a"), json!(a), json!(d));
                }
                let d2 = decrypt_amount(&table_odd, &sk, &e).micro_ccd();
                if d2 != a {
                    return fail(here("decrypt(encrypt(a)) = a with a decryption table of 60000 entries"), json!(a), json!(d2));
                }
                enc = aggregate(&enc, &e);
                plain += a as u128;
                lo += (a & 0xffff_ffff) as u128;
                hi += (a >> 32) as u128;
                index += 1;
                deposits += 1;
                single = single && deposits <= 1;
                *stats.entry("deposit".into()).or_default() += 1;
                if lo < (1 << 33) && hi < (1 << 32) {
                    // chunk sums are within reach of the table: the aggregate decrypts to the sum of what was deposited
                    let lo_d = sk.decrypt_exponent(&enc.encryptions[0], &table) as u128;
                    let hi_d = sk.decrypt_exponent(&enc.encryptions[1], &table) as u128;
                    if lo_d != lo || hi_d != hi {
                        return fail(here("aggregated chunks decrypt to the chunk sums (no carry)"), json!([lo.to_string(), hi.to_string()]), json!([lo_d.to_string(), hi_d.to_string()]));
                    }
                    if lo_d + (hi_d << 32) != plain {
                        return fail(here("aggregate denotes the sum"), json!(plain.to_string()), json!((lo_d + (hi_d << 32)).to_string()));
                    }
                    // decrypt_amount recombines the chunks itself: the carry of the low chunk sum must reach the high part
                    let whole = decrypt_amount(&table, &sk, &enc).micro_ccd() as u128;
                    if whole != plain {
                        return fail(here("decrypt_amount of the aggregate is the sum of the deposits"), json!(plain.to_string()), json!(whole.to_string()));
                    }
                }
                continue;
            }
            let input = AggregatedDecryptedAmount { agg_encrypted_amount: enc.clone(), agg_amount: Amount::from_micro_ccd(plain as u64), agg_index: index.into() };
            let possible = a as u128 <= plain;
            if single && op["ok"].as_bool() != Some(possible) {
                return fail(here("the specification's verdict (amount <= balance) for a balance that is one embedded amount"), op["ok"].clone(), json!(possible));
            }
            if name == "transfer" {
                let data = make_transfer_data(&ctx, &pk_r, &sk, &input, Amount::from_micro_ccd(a), &mut rng);
                *stats.entry(format!("transfer:{}", possible)).or_default() += 1;
                if data.is_some() != possible {
                    return fail(here("a transfer can be produced iff amount <= balance"), json!(possible), json!(data.is_some()));
                }
                let data = match data {
                    Some(d) => d,
                    None => continue,
                };
                if !verify_transfer_data(&ctx, &pk_r, &pk, &enc, &data) {
                    return fail(here("transfer made from the balance verifies"), json!(true), json!(false));
                }
                let rem = decrypt_amount(&table, &sk, &data.remaining_amount).micro_ccd() as u128;
                let tr = decrypt_amount(&table, &sk_r, &data.transfer_amount).micro_ccd() as u128;
                if tr != a as u128 || rem + tr != plain {
                    return fail(here("remaining + transferred = balance and transferred = amount"), json!([(plain - a as u128).to_string(), a]), json!([rem.to_string(), tr.to_string()]));
                }
                if data.index.index != index {
                    return fail(here("index of the balance used"), json!(index), json!(data.index.index));
                }
                for f in v["fields"].as_array().unwrap() {
                    let f = f.as_str().unwrap();
                    if f == "none" {
                        continue;
                    }
                    let mut d2: EncryptedAmountTransferData<C> = data.clone();
                    let (mut pk_s2, mut pk_r2, mut bal2) = (pk.clone(), pk_r.clone(), enc.clone());
                    let bump = |e: &mut EncryptedAmount<C>, i: usize| e.encryptions[i].1 = e.encryptions[i].1.plus_point(ctx.encryption_in_exponent_generator());
                    match f {
                        "remaining_lo" => bump(&mut d2.remaining_amount, 0),
                        "remaining_hi" => bump(&mut d2.remaining_amount, 1),
                        "transferred_lo" => bump(&mut d2.transfer_amount, 0),
                        "transferred_hi" => bump(&mut d2.transfer_amount, 1),
                        // the index selects which incoming amounts are aggregated into the balance the proof is checked against
                        // (the proof itself does not mention it): a different index means a different balance for the verifier
                        "index" => {
                            d2.index = (index + 1).into();
                            bal2 = aggregate(&bal2, &encrypt_amount_with_fixed_randomness(&ctx, Amount::from_micro_ccd(1)));
                        }
                        "sender_key" => pk_s2 = pk_o.clone(),
                        "receiver_key" => pk_r2 = pk_o.clone(),
                        "balance" => bump(&mut bal2, 0),
                        "proof" => {
                            let mut b = to_bytes(&d2.proof);
                            let k = b.len() / 2;
                            b[k] ^= 1;
                            match reparse(&b) {
                                Some(p) => d2.proof = p,
                                None => continue,
                            }
                        }
                        "proof_surplus_response" => {
                            // the accounting proof is challenge (32) ++ common response (32) ++ u32 count ++ responses (64 each) ++ u32 count ++ responses;
                            // one more response for the remaining amount than there are chunks must not go unnoticed
                            let mut b = to_bytes(&d2.proof);
                            if b[64..68] != [0, 0, 0, 2] || b[196..200] != [0, 0, 0, 2] {
                                return fail("harness: unexpected layout of the accounting proof".into(), J::Null, J::Null);
                            }
                            b[199] = 3;
                            let extra = b[200..264].to_vec();
                            b.splice(328..328, extra);
                            match reparse(&b) {
                                Some(p) => d2.proof = p,
                                None => continue,
                            }
                        }
                        o => return fail(format!("unknown tamper field {}", o), J::Null, J::Null),
                    }
                    *stats.entry("transfer_tamper".into()).or_default() += 1;
                    if verify_transfer_data(&ctx, &pk_r2, &pk_s2, &bal2, &d2) {
                        return fail(here(&format!("transfer with altered {} verifies", f)), json!(false), json!(true));
                    }
                }
                single = false;
                enc = data.remaining_amount.clone();
                plain -= a as u128;
                lo = plain & 0xffff_ffff;
                hi = plain >> 32;
            } else {
                let data = make_sec_to_pub_transfer_data(&ctx, &sk, &input, Amount::from_micro_ccd(a), &mut rng);
                *stats.entry(format!("sec_to_pub:{}", possible)).or_default() += 1;
                if data.is_some() != possible {
                    return fail(here("a transfer to public can be produced iff amount <= balance"), json!(possible), json!(data.is_some()));
                }
                let data = match data {
                    Some(d) => d,
                    None => continue,
                };
                if !verify_sec_to_pub_transfer_data(&ctx, &pk, &enc, &data) {
                    return fail(here("transfer to public made from the balance verifies"), json!(true), json!(false));
                }
                let rem = decrypt_amount(&table, &sk, &data.remaining_amount).micro_ccd() as u128;
                if data.transfer_amount.micro_ccd() != a || rem + a as u128 != plain {
                    return fail(here("remaining + public amount = balance"), json!((plain - a as u128).to_string()), json!(rem.to_string()));
                }
                for f in v["s2p_fields"].as_array().unwrap() {
                    let f = f.as_str().unwrap();
                    if f == "none" {
                        continue;
                    }
                    let mut d2: SecToPubAmountTransferData<C> = data.clone();
                    let (mut pk2, mut bal2) = (pk.clone(), enc.clone());
                    let bump = |e: &mut EncryptedAmount<C>, i: usize| e.encryptions[i].1 = e.encryptions[i].1.plus_point(ctx.encryption_in_exponent_generator());
                    match f {
                        "remaining_lo" => bump(&mut d2.remaining_amount, 0),
                        "remaining_hi" => bump(&mut d2.remaining_amount, 1),
                        "amount" => d2.transfer_amount = Amount::from_micro_ccd(a ^ 1),
                        "index" => {
                            d2.index = (index + 1).into();
                            bal2 = aggregate(&bal2, &encrypt_amount_with_fixed_randomness(&ctx, Amount::from_micro_ccd(1)));
                        }
                        "key" => pk2 = pk_o.clone(),
                        "balance" => bump(&mut bal2, 1),
                        "proof" => {
                            let mut b = to_bytes(&d2.proof);
                            let k = b.len() / 2;
                            b[k] ^= 1;
                            match reparse(&b) {
                                Some(p) => d2.proof = p,
                                None => continue,
                            }
                        }
                        o => return fail(format!("unknown tamper field {}", o), J::Null, J::Null),
                    }
                    *stats.entry("sec_to_pub_tamper".into()).or_default() += 1;
                    if verify_sec_to_pub_transfer_data(&ctx, &pk2, &bal2, &d2) {
                        return fail(here(&format!("transfer to public with altered {} verifies", f)), json!(false), json!(true));
                    }
                }
                single = false;
                enc = data.remaining_amount.clone();
                plain -= a as u128;
                lo = plain & 0xffff_ffff;
                hi = plain >> 32;
            }
        }
        Ok(())
    })
}
