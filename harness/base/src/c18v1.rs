//! C18 (V1 format): PresentationV1.tla rows on web3id::v1 - a request is anchored, a presentation is proved for
//! (a possibly different) context and claims about an account based or identity based credential, possibly altered,
//! and verified with `verify_presentation_with_request_anchor`; the verdict is compared with the pipeline of the spec.
#![allow(deprecated)]
use crate::util::*;
use concordium_base::{
    base::CredentialRegistrationID,
    curve_arithmetic::Curve,
    hashes::{BlockHash, TransactionHash},
    id::{
        account_holder::generate_pio_v1_with_rng,
        constants::{ArCurve, AttributeKind, IpPairing},
        id_proof_types::{AttributeInRangeStatement, AttributeInSetStatement, AttributeNotInSetStatement, AttributeValueStatement, RevealAttributeStatement},
        identity_provider::verify_credentials_v1,
        secret_sharing::Threshold,
        test::{test_create_ars, test_create_id_use_data, test_create_ip_info},
        types::{ArInfos, Attribute, AttributeList, AttributeTag, CredentialValidity, GlobalContext, IdentityObjectV1, IpContext, IpContextOnly, IpData, IpIdentity, YearMonth},
    },
    pedersen_commitment::Value,
    web3id::{
        did::Network,
        v1::{
            anchor::{
                verify_presentation_with_request_anchor, ContextLabel, CredentialValidityType, IdentityCredentialType, IdentityProviderDid, LabeledContextProperty, PresentationVerificationResult,
                RequestedIdentitySubjectClaims, RequestedStatement, VerificationAuditAnchor, VerificationAuditRecord, VerificationRequestAnchor, RequestedSubjectClaims, UnfilledContextInformation, VerifiablePresentationRequestV1, VerifiablePresentationV1, VerificationContext,
                VerificationMaterialWithValidity, VerificationRequest, VerificationRequestAnchorAndBlockHash, VerificationRequestData,
            },
            AccountBasedSubjectClaims, AccountCredentialVerificationMaterial, AtomicStatementV1, ContextInformation, ContextProperty, CredentialV1, CredentialVerificationMaterial,
            AccountCredentialProofPrivateInputs, CredentialProofPrivateInputs, IdentityBasedSubjectClaims, IdentityCredentialProofPrivateInputs, IdentityCredentialVerificationMaterial, SubjectClaims,
        },
        Web3IdAttribute,
    },
};
use rand::{rngs::StdRng, SeedableRng};
use serde_json::{json, Value as J};
use std::collections::{BTreeMap, BTreeSet, HashMap};

type G = ArCurve;
type Stmt = AtomicStatementV1<G, AttributeTag, Web3IdAttribute>;
type IdObj = IdentityObjectV1<IpPairing, G, Web3IdAttribute>;
fn fail<T>(what: String, exp: J, got: J) -> Result<T, (String, J, J)> { Err((what, exp, got)) }

fn token(t: &str) -> String {
    let rep = |b: &str| b.repeat(32);
    match t {
        "n1" => rep("01"),
        "n2" => rep("03"),
        "h1" => rep("02"),
        "h2" => rep("04"),
        "p1" => rep("05"),
        o => o.to_string(),
    }
}
fn net(t: &J) -> Network { if t == "T" { Network::Testnet } else { Network::Mainnet } }
fn time_of(t: &str) -> chrono::DateTime<chrono::Utc> {
    let s = match t {
        "before" => "2020-04-30T23:59:59Z",
        "start" => "2020-05-01T00:00:00Z",
        "last" => "2030-05-31T23:59:59Z",
        "end" => "2030-06-01T00:00:00Z",
        "after" => "2031-01-01T00:00:00Z",
        _ => "2023-08-28T23:12:15Z",
    };
    chrono::DateTime::parse_from_rfc3339(s).unwrap().with_timezone(&chrono::Utc)
}

pub fn main(args: &[String]) -> i32 {
    let global = GlobalContext::<G>::generate(String::from("vh-base C18 v1"));
    let key = global.on_chain_commitment_key;
    let mut rng0 = StdRng::seed_from_u64(1801);
    let IpData { public_ip_info: mut ip_info, ip_secret_key, .. } = test_create_ip_info(&mut rng0, 3, 10);
    ip_info.ip_identity = IpIdentity::from(17u32);
    let IpData { public_ip_info: mut ip_info_other, .. } = test_create_ip_info(&mut rng0, 3, 10);
    ip_info_other.ip_identity = IpIdentity::from(17u32);
    let (ars, _) = test_create_ars(&global.on_chain_commitment_key.g, 3, &mut rng0);
    let ars_infos = ArInfos { anonymity_revokers: ars };
    let id_use_data = test_create_id_use_data(&mut rng0);
    let created_at = YearMonth::new(2020, 5).unwrap();
    let valid_to = YearMonth::new(2030, 5).unwrap();
    let mut id_objects: HashMap<(u64, u64), Option<IdObj>> = HashMap::new();
    drive(args, "c18v1-replay", |v, stats| {
        let idx = v["idx"].as_u64().unwrap_or(0);
        let mut rng = StdRng::seed_from_u64(idx + 18100);
        let strvals: Vec<String> = v["strvals"].as_array().unwrap().iter().map(|s| s.as_str().unwrap().to_string()).collect();
        let numvals: Vec<u64> = v["numvals"].as_array().unwrap().iter().map(|s| s.as_str().unwrap().parse().unwrap()).collect();
        let timevals: Vec<chrono::DateTime<chrono::Utc>> = v["timevals"]
            .as_array()
            .unwrap()
            .iter()
            .map(|s| match s.as_str().unwrap() {
                "MIN" => chrono::DateTime::<chrono::Utc>::MIN_UTC,
                // the latest instant, at the millisecond resolution of timestamp attributes
                "MAX" => chrono::DateTime::<chrono::Utc>::from_timestamp_millis(chrono::DateTime::<chrono::Utc>::MAX_UTC.timestamp_millis()).unwrap(),
                t => chrono::DateTime::parse_from_rfc3339(t).unwrap().with_timezone(&chrono::Utc),
            })
            .collect();
        // tag 8 is numeric, tag 3 a point in time, every other tag a string
        let attr = |tag: u64, i: &J| -> Web3IdAttribute {
            let i = i.as_u64().unwrap() as usize;
            if tag == 8 {
                Web3IdAttribute::Numeric(numvals[i - 1])
            } else if tag == 3 {
                Web3IdAttribute::try_from(timevals[(i - 1).min(timevals.len() - 1)]).expect("every date-time has an attribute value")
            } else {
                Web3IdAttribute::String(AttributeKind::try_new(strvals[(i - 1).min(strvals.len() - 1)].clone()).unwrap())
            }
        };
        let atom = |a: &J| -> Stmt {
            let t = a["tag"].as_u64().unwrap();
            let tag = AttributeTag(t as u8);
            let set = || -> BTreeSet<Web3IdAttribute> { a["set"].as_array().unwrap().iter().map(|x| attr(t, x)).collect() };
            match a["k"].as_str().unwrap() {
                "equals" => AtomicStatementV1::AttributeValue(AttributeValueStatement { attribute_tag: tag, attribute_value: attr(t, &a["v"]), _phantom: Default::default() }),
                "in_range" => AtomicStatementV1::AttributeInRange(AttributeInRangeStatement { attribute_tag: tag, lower: attr(t, &a["lo"]), upper: attr(t, &a["hi"]), _phantom: Default::default() }),
                "in_set" => AtomicStatementV1::AttributeInSet(AttributeInSetStatement { attribute_tag: tag, set: set(), _phantom: Default::default() }),
                _ => AtomicStatementV1::AttributeNotInSet(AttributeNotInSetStatement { attribute_tag: tag, set: set(), _phantom: Default::default() }),
            }
        };
        let requested = |a: &J| -> RequestedStatement<AttributeTag> {
            let t = a["tag"].as_u64().unwrap();
            let tag = AttributeTag(t as u8);
            let set = || -> BTreeSet<Web3IdAttribute> { a["set"].as_array().unwrap().iter().map(|x| attr(t, x)).collect() };
            match a["k"].as_str().unwrap() {
                "reveal" | "equals" => RequestedStatement::RevealAttribute(RevealAttributeStatement { attribute_tag: tag }),
                "in_range" => RequestedStatement::AttributeInRange(AttributeInRangeStatement { attribute_tag: tag, lower: attr(t, &a["lo"]), upper: attr(t, &a["hi"]), _phantom: Default::default() }),
                "in_set" => RequestedStatement::AttributeInSet(AttributeInSetStatement { attribute_tag: tag, set: set(), _phantom: Default::default() }),
                _ => RequestedStatement::AttributeNotInSet(AttributeNotInSetStatement { attribute_tag: tag, set: set(), _phantom: Default::default() }),
            }
        };
        let stmts = |s: &J| -> Vec<Stmt> { s.as_array().unwrap().iter().map(&atom).collect() };
        let sc = &v["sc"];
        let f = |name: &str| sc[name].as_str().unwrap();
        let kind = v["kind"].as_str().unwrap();
        let provable = v["provable"].as_bool().unwrap();
        let expected = v["expected"].as_str().unwrap();
        let failing: Vec<String> = v["failing"].as_array().unwrap().iter().map(|x| x.as_str().unwrap().to_string()).collect();
        let (np, nr) = (v["np"].as_u64().unwrap(), v["nr"].as_u64().unwrap());
        let what = |s: &str| format!("{} credential, statement {} over attributes ({}, {}), scenario {}: {}", kind, v["stmt"], v["a0"], v["a8"], sc, s);

        // ---- the credential: attribute values, commitments (account) / identity object (identity)
        let mut values = BTreeMap::new();
        values.insert(AttributeTag(0), attr(0, &v["a0"]));
        values.insert(AttributeTag(8), attr(8, &v["a8"]));
        values.insert(AttributeTag(3), attr(3, &v["a3"]));
        // date-times and their attribute values: the conversion is invertible and keeps the order
        if idx % 16 == 0 {
            let mut prev: Option<Web3IdAttribute> = None;
            for t in timevals.iter() {
                let a = Web3IdAttribute::try_from(*t).map_err(|e| (format!("date-time {} has an attribute value", t), J::Null, json!(e.to_string())))?;
                match chrono::DateTime::<chrono::Utc>::try_from(&a) {
                    Ok(back) if back == *t => {}
                    other => return fail(format!("attribute value of date-time {} converts back to it", t), json!(t.to_string()), json!(format!("{:?}", other))),
                }
                if let Some(p) = &prev {
                    use concordium_base::curve_arithmetic::Field;
                    let _ = <G as Curve>::Scalar::zero();
                    let (x, y) = match (p, &a) {
                        (Web3IdAttribute::Timestamp(x), Web3IdAttribute::Timestamp(y)) => (x.timestamp_millis(), y.timestamp_millis()),
                        _ => return fail("date-times become timestamp attributes".into(), J::Null, J::Null),
                    };
                    if x >= y {
                        return fail(format!("attribute values of date-times keep their order (before {})", t), json!("increasing"), json!([x, y]));
                    }
                }
                let js = serde_json::to_value(&a).map_err(|e| (format!("attribute value of {} has a JSON form", t), J::Null, json!(e.to_string())))?;
                match Web3IdAttribute::try_from(js) {
                    Ok(b) if b == a => {}
                    other => return fail(format!("JSON form of the attribute value of {} reads back", t), J::Null, json!(format!("{:?}", other.map(|x| x.to_string())))),
                }
                prev = Some(a);
            }
            *stats.entry("timevals".into()).or_default() += 1;
        }
        let mut randomness = BTreeMap::new();
        let mut commitments = BTreeMap::new();
        for (t, a) in values.iter() {
            let (c, r) = key.commit(&Value::<G>::new(a.to_field_element()), &mut rng);
            randomness.insert(*t, r);
            commitments.insert(*t, c);
        }
        let issuer = IpIdentity::from(17u32);
        let account_inputs = || CredentialProofPrivateInputs::<IpPairing, G, Web3IdAttribute>::Account(AccountCredentialProofPrivateInputs { issuer, attribute_values: &values, attribute_randomness: &randomness });
        let account_material = |c: &BTreeMap<AttributeTag, _>, i: IpIdentity| CredentialVerificationMaterial::<IpPairing, G>::Account(AccountCredentialVerificationMaterial { issuer: i, attribute_commitments: c.clone() });
        let identity_material = |ip: &concordium_base::id::types::IpInfo<IpPairing>| CredentialVerificationMaterial::<IpPairing, G>::Identity(IdentityCredentialVerificationMaterial { ip_info: ip.clone(), ars_infos: ars_infos.clone() });
        let first_inputs = if kind == "account" {
            account_inputs()
        } else {
            let k = (v["a0"].as_u64().unwrap() * 100 + v["a3"].as_u64().unwrap(), v["a8"].as_u64().unwrap());
            let obj = id_objects.entry(k).or_insert_with(|| {
                let mut r = StdRng::seed_from_u64(k.0 * 100 + k.1);
                let context = IpContext::new(&ip_info, &ars_infos.anonymity_revokers, &global);
                let (pio, _) = generate_pio_v1_with_rng(&context, Threshold::try_new(2).unwrap(), &id_use_data, &mut r)?;
                let alist: AttributeList<<G as Curve>::Scalar, Web3IdAttribute> = AttributeList { valid_to, created_at, max_accounts: 10, alist: values.clone(), _phantom: Default::default() };
                let sig = verify_credentials_v1(&pio, context, &alist, &ip_secret_key).ok()?;
                Some(IdentityObjectV1 { pre_identity_object: pio, alist, signature: sig })
            });
            match obj {
                Some(o) => CredentialProofPrivateInputs::Identity(IdentityCredentialProofPrivateInputs {
                    ip_context: IpContextOnly { ip_info: &ip_info, ars_infos: &ars_infos.anonymity_revokers },
                    id_object: &*o,
                    id_object_use_data: &id_use_data,
                }),
                None => return fail(what("harness: identity object cannot be issued"), J::Null, J::Null),
            }
        };
        let cred_id = CredentialRegistrationID::from_exponent(&global, G::scalar_from_u64(4711));

        // ---- the verifier's request and its anchor
        let labeled = |p: &J| -> Result<LabeledContextProperty, (String, J, J)> {
            let label: ContextLabel = p[0].as_str().unwrap().parse().map_err(|_| (what("harness: request label"), J::Null, J::Null))?;
            LabeledContextProperty::try_from_label_and_value_str(label, &token(p[1].as_str().unwrap())).map_err(|_| (what("harness: request value"), J::Null, J::Null))
        };
        let mut given = vec![];
        for p in v["req_given"].as_array().unwrap() {
            given.push(labeled(p)?);
        }
        let req_labels: Vec<ContextLabel> = v["req_requested"].as_array().unwrap().iter().map(|l| l.as_str().unwrap().parse().unwrap()).collect();
        let req_context = UnfilledContextInformation { given, requested: req_labels };
        let issuers: Vec<IdentityProviderDid> = v["issuers"].as_array().unwrap().iter().map(|p| IdentityProviderDid::new(p[0].as_u64().unwrap() as u32, net(&p[1]))).collect();
        let source_of = |s: &J| if s == "account" { IdentityCredentialType::AccountCredential } else { IdentityCredentialType::IdentityCredential };
        let sources: Vec<IdentityCredentialType> = v["sources"].as_array().unwrap().iter().map(source_of).collect();
        let mut subject_claims = vec![];
        if nr >= 1 {
            subject_claims.push(RequestedSubjectClaims::Identity(RequestedIdentitySubjectClaims {
                statements: v["req_stmt"].as_array().unwrap().iter().map(&requested).collect(),
                issuers: issuers.clone(),
                source: sources.clone(),
            }));
        }
        if nr >= 2 {
            subject_claims.push(RequestedSubjectClaims::Identity(RequestedIdentitySubjectClaims {
                statements: v["second_req_stmt"].as_array().unwrap().iter().map(&requested).collect(),
                issuers: issuers.clone(),
                source: vec![IdentityCredentialType::IdentityCredential, IdentityCredentialType::AccountCredential],
            }));
        }
        let request = VerificationRequest { context: req_context.clone(), subject_claims: subject_claims.clone(), anchor_transaction_hash: TransactionHash::from([5u8; 32]) };
        // what was anchored: the request, or a request differing in one part
        let mut anchored = VerificationRequestData { context: req_context.clone(), subject_claims: subject_claims.clone() };
        let extra_claim = RequestedSubjectClaims::Identity(RequestedIdentitySubjectClaims { statements: vec![], issuers: vec![], source: vec![] });
        match f("anchor") {
            "ok" => {}
            "given" => anchored.context.given[1] = LabeledContextProperty::ConnectionId("another connection".into()),
            "requested" => anchored.context.requested.push(ContextLabel::ResourceId),
            part => match anchored.subject_claims.first_mut() {
                None => anchored.subject_claims.push(extra_claim),
                Some(RequestedSubjectClaims::Identity(c)) => match part {
                    "statements" => c.statements.push(RequestedStatement::RevealAttribute(RevealAttributeStatement { attribute_tag: AttributeTag(5) })),
                    "issuers" => c.issuers.push(IdentityProviderDid::new(99, Network::Testnet)),
                    _ => {
                        if c.source.pop().is_none() {
                            c.source.push(IdentityCredentialType::AccountCredential)
                        }
                    }
                },
            },
        }
        let anchor = VerificationRequestAnchorAndBlockHash { verification_request_anchor: anchored.to_anchor(None), block_hash: BlockHash::from([2u8; 32]) };

        // ---- the holder's presentation
        let props = |s: &J| -> Vec<ContextProperty> { s.as_array().unwrap().iter().map(|p| ContextProperty { label: p[0].as_str().unwrap().to_string(), context: token(p[1].as_str().unwrap()) }).collect() };
        let pres_context = ContextInformation { given: props(&v["pres_given"]), requested: props(&v["pres_requested"]) };
        let cred_net = net(&sc["cred_net"]);
        let mut claims = vec![if kind == "account" {
            SubjectClaims::Account(AccountBasedSubjectClaims { network: cred_net, issuer, cred_id, statements: stmts(&v["stmt"]) })
        } else {
            SubjectClaims::Identity(IdentityBasedSubjectClaims { network: cred_net, issuer, statements: stmts(&v["stmt"]) })
        }];
        let mut inputs = vec![first_inputs];
        if np == 2 {
            claims.push(SubjectClaims::Account(AccountBasedSubjectClaims { network: cred_net, issuer, cred_id, statements: stmts(&v["second_stmt"]) }));
            inputs.push(account_inputs());
        }
        let pres_request = VerifiablePresentationRequestV1 { context: pres_context, subject_claims: claims };
        let now = time_of("inside");
        *stats.entry(format!("{}:{}", kind, if !provable { "false" } else if expected == "Verified" { "verified" } else { expected })).or_default() += 1;
        let mut pres: VerifiablePresentationV1 = match pres_request.clone().prove_with_rng(&global, inputs.into_iter(), &mut rng, now) {
            Ok(p) => p,
            Err(e) => {
                if provable {
                    return fail(what("a presentation is produced for a true statement"), json!("presentation"), json!(format!("{}", e)));
                }
                return Ok(());
            }
        };
        let mut materials: Vec<CredentialVerificationMaterial<IpPairing, G>> = vec![if kind == "account" { account_material(&commitments, issuer) } else { identity_material(&ip_info) }];
        if np == 2 {
            materials.push(account_material(&commitments, issuer));
        }

        // ---- alterations after proving
        let crypto = f("crypto");
        {
            let first = &mut pres.verifiable_credentials[0];
            match crypto {
                "none" => {}
                "statement_swapped" => {
                    let altered = stmts(&v["altered_stmt"]);
                    match first {
                        CredentialV1::Account(c) => c.subject.statements = altered,
                        CredentialV1::Identity(c) => c.subject.statements = altered,
                    }
                }
                "proof_truncated" => match first {
                    CredentialV1::Account(c) => {
                        c.proof.proof_value.statement_proofs.pop();
                    }
                    CredentialV1::Identity(c) => {
                        c.proof.proof_value.statement_proofs.pop();
                    }
                },
                "pair_truncated" => match first {
                    CredentialV1::Account(c) => {
                        c.proof.proof_value.statement_proofs.pop();
                        c.subject.statements.pop();
                    }
                    CredentialV1::Identity(c) => {
                        c.proof.proof_value.statement_proofs.pop();
                        c.subject.statements.pop();
                    }
                },
                "network_after" => {
                    let other = if cred_net == Network::Testnet { Network::Mainnet } else { Network::Testnet };
                    match first {
                        CredentialV1::Account(c) => c.subject.network = other,
                        CredentialV1::Identity(c) => c.subject.network = other,
                    }
                }
                "created_after" => match first {
                    CredentialV1::Account(c) => c.proof.created_at += chrono::TimeDelta::seconds(1),
                    CredentialV1::Identity(c) => c.proof.created_at += chrono::TimeDelta::seconds(1),
                },
                "issuer_after" => match first {
                    CredentialV1::Account(c) => c.issuer = IpIdentity::from(18u32),
                    CredentialV1::Identity(c) => c.issuer = IpIdentity::from(18u32),
                },
                "cred_id_after" => match first {
                    CredentialV1::Account(c) => c.subject.cred_id = CredentialRegistrationID::from_exponent(&global, G::scalar_from_u64(4712)),
                    CredentialV1::Identity(c) => {
                        let k = c.subject.cred_id.0.len() - 1;
                        c.subject.cred_id.0[k] ^= 1;
                    }
                },
                "validity_after" => match first {
                    CredentialV1::Identity(c) => c.validity = CredentialValidity { created_at, valid_to: YearMonth::new(2031, 5).unwrap() },
                    _ => return fail(what("harness: validity_after on an account credential"), J::Null, J::Null),
                },
                "context_after" => {}
                "revealed_marker" | "revealed_marker_forged" => {
                    use concordium_base::web3id::v1::AtomicProofV1;
                    let forged = crypto == "revealed_marker_forged";
                    let other = Web3IdAttribute::String(AttributeKind::try_new("forgedvalue".into()).unwrap());
                    match first {
                        CredentialV1::Account(c) => {
                            let k = c.subject.statements.len() - 1;
                            c.proof.proof_value.statement_proofs[k] = AtomicProofV1::AttributeValueAlreadyRevealed;
                            if let (true, AtomicStatementV1::AttributeValue(st)) = (forged, &mut c.subject.statements[k]) {
                                st.attribute_value = other;
                            }
                        }
                        CredentialV1::Identity(c) => {
                            let k = c.subject.statements.len() - 1;
                            c.proof.proof_value.statement_proofs[k] = AtomicProofV1::AttributeValueAlreadyRevealed;
                            if let (true, AtomicStatementV1::AttributeValue(st)) = (forged, &mut c.subject.statements[k]) {
                                st.attribute_value = other;
                            }
                        }
                    }
                }
                "extra_sharing_coeff" => match first {
                    CredentialV1::Identity(c) => c
                        .proof
                        .proof_value
                        .identity_attributes_proofs
                        .cmm_id_cred_sec_sharing_coeff
                        .push(concordium_base::pedersen_commitment::Commitment(<G as Curve>::zero_point())),
                    _ => return fail(what("harness: extra_sharing_coeff on an account credential"), J::Null, J::Null),
                },
                "material_other" => {
                    materials[0] = if kind == "account" {
                        let mut c = commitments.clone();
                        for x in c.values_mut() {
                            x.0 = x.0.plus_point(&key.g);
                        }
                        account_material(&c, issuer)
                    } else {
                        identity_material(&ip_info_other)
                    }
                }
                "material_kind" => materials[0] = if kind == "account" { identity_material(&ip_info) } else { account_material(&commitments, issuer) },
                "material_count" => materials.push(account_material(&commitments, issuer)),
                "material_issuer" => materials[0] = account_material(&commitments, IpIdentity::from(18u32)),
                o => return fail(format!("unknown alteration {}", o), J::Null, J::Null),
            }
        }
        if crypto == "context_after" {
            let n = &mut pres.presentation_context.given[0].context;
            *n = if *n == token("n1") { token("n2") } else { token("n1") };
        }

        // ---- verification
        let validity = CredentialValidityType::ValidityPeriod(CredentialValidity { created_at, valid_to });
        let with_validity: Vec<VerificationMaterialWithValidity> = materials.iter().map(|m| VerificationMaterialWithValidity { verification_material: m.clone(), validity: validity.clone() }).collect();
        let vctx = VerificationContext { network: net(&sc["ctx_net"]), validity_time: time_of(f("time")) };
        let got = match verify_presentation_with_request_anchor(&global, &vctx, &request, &pres, &anchor, &with_validity) {
            PresentationVerificationResult::Verified => "Verified".to_string(),
            PresentationVerificationResult::Failed(k) => format!("{:?}", k),
        };
        if (got == "Verified") != (expected == "Verified") {
            return fail(what("the presentation verifies against the anchored request exactly when the statements are true and nothing deviates"), json!(expected), json!(got));
        }
        if failing.len() == 1 && got != expected {
            return fail(what("the failure names the one check that fails"), json!(expected), json!(got));
        }
        if failing.len() > 1 && !failing.contains(&got) {
            return fail(what("the failure names one of the checks that fail"), json!(failing), json!(got));
        }
        // the cryptographic verification alone returns the request the presentation was made for
        if crypto == "none" && provable {
            match pres.verify(&global, materials.iter()) {
                Ok(r) if r == pres_request => {}
                Ok(_) => return fail(what("verification returns the request the presentation was made for"), J::Null, J::Null),
                Err(e) => return fail(what("an unaltered presentation of true statements verifies"), json!("ok"), json!(format!("{}", e))),
            }
            // a presentation survives its JSON and binary encodings
            if idx % 3 == 0 {
                let js = serde_json::to_string(&pres).map_err(|e| (what("presentation has a JSON encoding"), J::Null, json!(e.to_string())))?;
                match serde_json::from_str::<VerifiablePresentationV1>(&js) {
                    Ok(p) if p == pres => {}
                    Ok(_) => return fail(what("JSON decoding of an encoded presentation gives the presentation"), J::Null, J::Null),
                    Err(e) => return fail(what("JSON encoding of a presentation decodes"), J::Null, json!(e.to_string())),
                }
                let bytes = concordium_base::common::to_bytes(&pres);
                match concordium_base::common::from_bytes::<VerifiablePresentationV1, _>(&mut std::io::Cursor::new(&bytes)) {
                    Ok(p) if p == pres => {}
                    Ok(_) => return fail(what("binary decoding of an encoded presentation gives the presentation"), J::Null, J::Null),
                    Err(e) => return fail(what("binary encoding of a presentation decodes"), J::Null, json!(e.to_string())),
                }
                *stats.entry("roundtrip".into()).or_default() += 1;
            }
            // the audit record of a verified exchange: its anchor names exactly (id, request, presentation) - PresentationV1!AuditParts
            if got == "Verified" && idx % 4 == 0 {
                use concordium_base::common::cbor::{cbor_decode, cbor_encode};
                let record = VerificationAuditRecord::new("exchange-1".to_string(), request.clone(), pres.clone());
                let h = record.to_anchor(None).hash;
                let mut other_request = request.clone();
                other_request.anchor_transaction_hash = TransactionHash::from([6u8; 32]);
                let mut other_pres = pres.clone();
                other_pres.linking_proof.created_at += chrono::TimeDelta::seconds(1);
                let variants = [
                    ("id", VerificationAuditRecord::new("exchange-2".to_string(), request.clone(), pres.clone())),
                    ("request", VerificationAuditRecord::new("exchange-1".to_string(), other_request, pres.clone())),
                    ("presentation", VerificationAuditRecord::new("exchange-1".to_string(), request.clone(), other_pres)),
                ];
                for (part, r2) in variants.iter() {
                    if r2.hash() == h {
                        return fail(what(&format!("audit records differing in their {} have different anchors", part)), J::Null, J::Null);
                    }
                }
                if VerificationAuditRecord::new("exchange-1".to_string(), request.clone(), pres.clone()).hash() != h {
                    return fail(what("the audit anchor is a function of the record"), J::Null, J::Null);
                }
                let a = record.to_anchor(None);
                match cbor_encode(&a).ok().and_then(|b| cbor_decode::<VerificationAuditAnchor>(&b).ok()) {
                    Some(a2) if a2 == a => {}
                    _ => return fail(what("the audit anchor survives its CBOR encoding"), J::Null, J::Null),
                }
                let ra = &anchor.verification_request_anchor;
                match cbor_encode(ra).ok().and_then(|b| cbor_decode::<VerificationRequestAnchor>(&b).ok()) {
                    Some(a2) if a2 == *ra => {}
                    _ => return fail(what("the request anchor survives its CBOR encoding"), J::Null, J::Null),
                }
                match serde_json::to_string(&record).ok().and_then(|js| serde_json::from_str::<VerificationAuditRecord>(&js).ok()) {
                    Some(r2) if r2 == record => {}
                    _ => return fail(what("the audit record survives its JSON encoding"), J::Null, J::Null),
                }
                match serde_json::to_string(&request).ok().and_then(|js| serde_json::from_str::<VerificationRequest>(&js).ok()) {
                    Some(r2) if r2 == request => {}
                    _ => return fail(what("the verification request survives its JSON encoding"), J::Null, J::Null),
                }
                let rb = concordium_base::common::to_bytes(&request);
                match concordium_base::common::from_bytes::<VerificationRequest, _>(&mut std::io::Cursor::new(&rb)) {
                    Ok(r2) if r2 == request => {}
                    _ => return fail(what("the verification request survives its binary encoding"), J::Null, J::Null),
                }
                *stats.entry("audit".into()).or_default() += 1;
            }
        }
        Ok(())
    })
}
