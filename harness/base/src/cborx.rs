//! C17: Cbor.tla vectors (generic data model + protocol-level-token schemas from the CDDL) on the
//! real CBOR codec.
use crate::util::*;
use concordium_base::{
    common::cbor::{cbor_decode_with_options, cbor_encode, value::Value as CValue, CborDeserialize, CborSerialize, SerializationOptions, UnknownMapKeys},
    protocol_level_tokens::{CborHolderAccount, MetadataUrl, TokenAmount, TokenModuleAccountState, TokenModuleState, TokenOperation, TokenOperations},
};
use serde_json::{json, Value};

pub fn eval_cbor_term(t: &Value) -> Vec<u8> {
    let mut out = Vec::new();
    for p in t.as_array().cloned().unwrap_or_default() {
        match p[0].as_str().unwrap_or("") {
            "b" => out.extend(bytes_of(&p[1])),
            "r" => out.extend(std::iter::repeat(p[1].as_u64().unwrap() as u8).take(p[2].as_u64().unwrap() as usize)),
            "be" => {
                let w = p[1].as_u64().unwrap() as usize;
                let hi = p[2].as_u64().unwrap();
                let lo = p[3].as_i64().unwrap();
                let lo = if lo < 0 { (1i64 << 32) + lo } else { lo } as u64;
                let v = (hi << 32) | lo;
                out.extend_from_slice(&v.to_be_bytes()[8 - w..]);
            }
            _ => panic!("bad term"),
        }
    }
    out
}

struct D {
    reenc:  Option<Vec<u8>>,
    stable: bool,
    fields: Value,
}

fn dec<T: CborDeserialize + CborSerialize + PartialEq>(b: &[u8], opts: SerializationOptions, fields: impl Fn(&T) -> Value) -> Option<D> { dec_eq(b, opts, fields, |a: &T, b: &T| a == b) }

/// `same` decides whether two decoded values are the same value (generic CBOR maps are sequences of entries in
/// the data model of the library and are re-encoded in deterministic key order, so they are compared by encoding only).
fn dec_eq<T: CborDeserialize + CborSerialize>(b: &[u8], opts: SerializationOptions, fields: impl Fn(&T) -> Value, same: impl Fn(&T, &T) -> bool) -> Option<D> {
    let v: T = cbor_decode_with_options(b, opts).ok()?;
    let reenc = cbor_encode(&v).ok();
    // decode . encode . decode is stable, and encoding is deterministic
    let stable = match &reenc {
        Some(y) => match cbor_decode_with_options::<T>(y, opts) {
            // ... and decoding the encoding yields the same value again
            Ok(v2) => same(&v2, &v) && cbor_encode(&v2).ok().as_ref() == Some(y) && cbor_encode(&v).ok().as_ref() == Some(y),
            Err(_) => false,
        },
        None => false,
    };
    Some(D { reenc, stable, fields: fields(&v) })
}

pub fn main(args: &[String]) -> i32 {
    drive(args, "cbor-replay", |v, stats| {
        let ty = v["ty"].as_str().unwrap();
        let bytes = eval_cbor_term(&v["bytes"]);
        let expect = v["expect"].as_str().unwrap_or("accept");
        *stats.entry(format!("{}:{}", ty, expect)).or_default() += 1;
        let opts = if v["opts"] == "fail_unknown" { SerializationOptions::default().unknown_map_keys(UnknownMapKeys::Fail) } else { SerializationOptions::default() };
        if ty == "TokenAmountText" {
            // value * 10^(-decimals) across the binary (CBOR), decimal-string and JSON forms
            use concordium_base::protocol_level_tokens::ConversionRule;
            let val = v["value"].as_u64().unwrap();
            let dec_n = v["decimals"].as_u64().unwrap() as u8;
            let text: String = v["text"].as_array().unwrap().iter().map(|c| c.as_str().unwrap()).collect();
            let a = TokenAmount::from_raw(val, dec_n);
            if a.to_string() != text {
                return Err(("TokenAmount decimal string".into(), json!(text), json!(a.to_string())));
            }
            match TokenAmount::from_str(&text, dec_n, ConversionRule::Exact) {
                Ok(b) if b == a => {}
                other => return Err((format!("TokenAmount::from_str({:?}, {})", text, dec_n), json!([val, dec_n]), json!(format!("{:?}", other)))),
            }
            if cbor_encode(&a).ok() != Some(bytes.clone()) {
                return Err(("TokenAmount CBOR form (decimal fraction, tag 4)".into(), json!(hex::encode(&bytes)), json!(cbor_encode(&a).ok().map(hex::encode))));
            }
            let j = serde_json::to_value(a).unwrap_or(Value::Null);
            if j != json!({"value": val.to_string(), "decimals": dec_n}) || serde_json::from_value::<TokenAmount>(j.clone()).ok() != Some(a) {
                return Err(("TokenAmount JSON form".into(), json!({"value": val.to_string(), "decimals": dec_n}), j));
            }
            // one more fractional digit than the token has cannot be represented exactly
            if dec_n < 28 {
                let finer = format!("{}{}1", text, if dec_n == 0 { "." } else { "" });
                if TokenAmount::from_str(&finer, dec_n, ConversionRule::Exact).is_ok() {
                    return Err((format!("TokenAmount::from_str({:?}, {}) with the Exact rule must fail (loss of precision)", finer, dec_n), json!("error"), json!("ok")));
                }
            }
            return Ok(());
        }
        if ty == "TokenAmountBadText" {
            use concordium_base::protocol_level_tokens::ConversionRule;
            let dec_n = v["decimals"].as_u64().unwrap() as u8;
            let text: String = v["text"].as_array().unwrap().iter().map(|c| c.as_str().unwrap()).collect();
            // with rounding allowed a tiny negative fraction may round to zero; whole negative numbers and non-numbers never denote an amount
            let rules = if text.contains('.') && text.starts_with('-') { vec![ConversionRule::Exact] } else { vec![ConversionRule::Exact, ConversionRule::AllowRounding] };
            for rule in rules {
                if let Ok(a) = TokenAmount::from_str(&text, dec_n, rule) {
                    return Err((format!("TokenAmount::from_str({:?}, {}) accepts a string that denotes no amount", text, dec_n), json!("error"), json!(a.to_string())));
                }
            }
            return Ok(());
        }
        let base = crate::alloc::reset();
        let d = match ty {
            "TokenModuleState" => dec::<TokenModuleState>(&bytes, opts, |s| json!({"additional": s.additional.len()})),
            "TokenModuleAccountState" => dec::<TokenModuleAccountState>(&bytes, opts, |s| json!({"additional": s.additional.len(), "allow_list": s.allow_list})),
            "MetadataUrl" => dec::<MetadataUrl>(&bytes, opts, |s| json!({"additional": s.additional.len()})),
            "OptionU64" => dec::<Option<u64>>(&bytes, opts, |_| Value::Null),
            "Value" => dec_eq::<CValue>(&bytes, opts, |_| Value::Null, |_, _| true),
            "TokenAmount" => dec::<TokenAmount>(&bytes, opts, |a| json!({"value": a.value().to_string(), "decimals": a.decimals()})),
            "TokenOperations" => dec::<Vec<TokenOperation>>(&bytes, opts, |_| Value::Null),
            "TokenOperationsUpward" => dec::<TokenOperations>(&bytes, opts, |o| json!({"n": o.operations.len()})),
            "CborHolderAccount" => dec::<CborHolderAccount>(&bytes, opts, |_| Value::Null),
            other => return Err((format!("unknown type {}", other), Value::Null, Value::Null)),
        };
        let (peak, largest) = crate::alloc::measure(base);
        if peak > (1 << 16) + 64 * bytes.len() {
            return Err((format!("{}: decoding {} input bytes allocated {} bytes (largest request {})", ty, bytes.len(), peak, largest), json!((1 << 16) + 64 * bytes.len()), json!(peak)));
        }
        match (expect, d) {
            ("reject", Some(_)) => Err((format!("{}: input of class '{}' must be rejected but was accepted", ty, v["class"].as_str().unwrap_or("?")), json!("reject"), json!(hex::encode(&bytes)))),
            ("reject", None) => Ok(()),
            ("accept", None) | ("accept_any_order", None) => Err((format!("{}: valid encoding of the spec rejected", ty), json!("accept"), json!(hex::encode(&bytes)))),
            (_, None) => Ok(()),
            (e, Some(d)) => {
                if !d.stable {
                    return Err((format!("{}: decode . encode . decode is not stable or encoding is not deterministic", ty), Value::Null, json!(hex::encode(&bytes))));
                }
                if e == "accept" || e == "accept_any_order" {
                    if e == "accept" && d.reenc.as_deref() != Some(&bytes[..]) {
                        return Err((format!("{}: decoded value does not re-encode to the deterministic encoding", ty), json!(hex::encode(&bytes)), json!(d.reenc.map(hex::encode))));
                    }
                    if let Some(fields) = v["fields"].as_object() {
                        for (k, exp) in fields {
                            if &d.fields[k] != exp {
                                return Err((format!("{}: decoded field {}", ty, k), exp.clone(), d.fields[k].clone()));
                            }
                        }
                    }
                }
                Ok(())
            }
        }
    })
}
