//! C11: RangeStmt.tla rows (range, less-or-equal, interval, set membership and non-membership statements at
//! boundary values, with perturbations) on the bulletproofs of concordium_base over BLS12-381 G1.
#![allow(deprecated)]
use crate::util::*;
use concordium_base::{
    bulletproofs::{range_proof, set_membership_proof, set_non_membership_proof, utils::Generators},
    common::{to_bytes, Deserial},
    curve_arithmetic::Curve,
    id::{constants::ArCurve, id_proof_types::ProofVersion, types::GlobalContext},
    pedersen_commitment::{Commitment, CommitmentKey, Randomness, Value},
    random_oracle::RandomOracle,
};
use rand::{rngs::StdRng, SeedableRng};
use serde_json::{json, Value as J};
use std::io::Cursor;

type G = ArCurve;
type Fr = <G as Curve>::Scalar;
type Res = Result<(), (String, J, J)>;
fn fail<T>(what: String, exp: J, got: J) -> Result<T, (String, J, J)> { Err((what, exp, got)) }

fn val(tok: &str) -> u64 {
    match tok {
        "0" => 0,
        "1" => 1,
        "2" => 2,
        "2^8-1" => 255,
        "2^8" => 256,
        "2^16" => 1 << 16,
        "2^32-1" => u32::MAX as u64,
        "2^32" => 1 << 32,
        "2^63" => 1 << 63,
        "2^64-2" => u64::MAX - 1,
        _ => u64::MAX,
    }
}
fn reparse<T: Deserial>(bytes: &[u8]) -> Option<T> { T::deserial(&mut Cursor::new(bytes)).ok() }
/// A token as a field element (the last tokens are "negative": r - k).
fn scalar_of(tok: &str) -> Fr {
    use concordium_base::curve_arithmetic::Field;
    match tok {
        "r-1" | "r-5" => {
            let mut z = Fr::zero();
            z.sub_assign(&G::scalar_from_u64(if tok == "r-1" { 1 } else { 5 }));
            z
        }
        t => G::scalar_from_u64(val(t)),
    }
}
/// A range proof is A, S, T1, T2 (48 bytes each), tx, tx_tilde, e_tilde (32 each), then the inner-product argument: u32 count of (L, R) pairs of 96 bytes, a, b.
fn surplus(p: &range_proof::RangeProof<G>) -> Option<range_proof::RangeProof<G>> {
    let mut b = to_bytes(p);
    let at = 4 * 48 + 3 * 32;
    let n = u32::from_be_bytes([b[at], b[at + 1], b[at + 2], b[at + 3]]) as usize;
    if b.len() != at + 4 + 96 * n + 64 || n == 0 {
        return None;
    }
    b[at..at + 4].copy_from_slice(&((n + 1) as u32).to_be_bytes());
    let extra = b[at + 4..at + 4 + 96].to_vec();
    let end = at + 4 + 96 * n;
    b.splice(end..end, extra);
    reparse(&b)
}
fn flip<T: Deserial + concordium_base::common::Serial>(p: &T) -> Option<T> {
    let mut b = to_bytes(p);
    let k = b.len() - 5;
    b[k] ^= 1;
    reparse(&b)
}

pub fn main(args: &[String]) -> i32 {
    let ctx = GlobalContext::<G>::generate(String::from("vh-base C11"));
    let gens: Generators<G> = ctx.bulletproof_generators().clone();
    let key: CommitmentKey<G> = ctx.on_chain_commitment_key;
    // other generators / key for the perturbations
    let mut gens2 = gens.clone();
    gens2.G_H.swap(0, 1);
    let key2 = CommitmentKey::<G>::new(key.h, key.g);
    drive(args, "c11-replay", |v, stats| {
        let row = &v["row"];
        let toks: Vec<String> = v["tokens"].as_array().unwrap().iter().map(|t| t.as_str().unwrap().to_string()).collect();
        let num = |i: &J| val(&toks[i.as_u64().unwrap() as usize - 1]);
        let accept = v["accept"].as_bool().unwrap();
        let truth = v["truth"].as_bool().unwrap();
        let kind = row["kind"].as_str().unwrap();
        let perturb = row["perturb"].as_str().unwrap();
        let idx = v["idx"].as_u64().unwrap_or(0);
        let mut rng = StdRng::seed_from_u64(idx + 11);
        let version = if idx % 2 == 0 { ProofVersion::Version1 } else { ProofVersion::Version2 };
        *stats.entry(format!("{}:{}", kind, if accept { "accept" } else if truth { "perturbed" } else { "false" })).or_default() += 1;
        let ro = |c: &str| RandomOracle::domain(c);
        let tctx = if perturb == "transcript" { "other" } else { "c11" };
        let what = |s: &str| format!("{} row {} ({:?}): {}", kind, row, version, s);
        let verdict: bool = match kind {
            "range" => {
                let n = row["n"].as_u64().unwrap() as u8;
                let vs: Vec<u64> = row["vs"].as_array().unwrap().iter().map(num).collect();
                let rands: Vec<Randomness<G>> = vs.iter().map(|_| Randomness::generate(&mut rng)).collect();
                let mut cmms: Vec<Commitment<G>> = vs.iter().zip(rands.iter()).map(|(x, r)| key.hide(&Value::<G>::new(G::scalar_from_u64(*x)), r)).collect();
                let proof = range_proof::prove(version, &mut ro("c11"), &mut rng, n, vs.len() as u8, &vs, &gens, &key, &rands);
                match proof {
                    None => false,
                    Some(mut p) => {
                        let mut n2 = n;
                        let (mut g2, mut k2) = (&gens, &key);
                        match perturb {
                            "commitment" => cmms[0] = Commitment(cmms[0].0.plus_point(&key.g)),
                            "n" => n2 = if n == 64 { 32 } else { n * 2 },
                            "generators" => g2 = &gens2,
                            "key" => k2 = &key2,
                            "proof" => match flip(&p) {
                                Some(q) => p = q,
                                None => return Ok(()),
                            },
                            "proof_surplus" => match surplus(&p) {
                                Some(q) => p = q,
                                None => return fail(what("harness: cannot append a pair to the inner-product argument"), J::Null, J::Null),
                            },
                            _ => {}
                        }
                        range_proof::verify_efficient(version, &mut ro(tctx), n2, &cmms, &p, g2, k2).is_ok()
                    }
                }
            }
            "leq" => {
                let n = row["n"].as_u64().unwrap() as u8;
                let (a, b) = (num(&row["a"]), num(&row["b"]));
                let (ra, rb) = (Randomness::<G>::generate(&mut rng), Randomness::<G>::generate(&mut rng));
                let (mut ca, mut cb) = (key.hide(&Value::<G>::new(G::scalar_from_u64(a)), &ra), key.hide(&Value::<G>::new(G::scalar_from_u64(b)), &rb));
                // the prover subtracts in u64: with a > b it has no number to prove about
                let proof = if a > b { None } else { range_proof::prove_less_than_or_equal(&mut ro("c11"), &mut rng, n, a, b, &gens, &key, &ra, &rb) };
                match proof {
                    None => false,
                    Some(mut p) => {
                        match perturb {
                            "commitment" => ca = Commitment(ca.0.plus_point(&key.g)),
                            "swap" => std::mem::swap(&mut ca, &mut cb),
                            "proof" => match flip(&p) {
                                Some(q) => p = q,
                                None => return Ok(()),
                            },
                            "proof_surplus" => match surplus(&p) {
                                Some(q) => p = q,
                                None => return fail(what("harness: cannot append a pair to the inner-product argument"), J::Null, J::Null),
                            },
                            _ => {}
                        }
                        range_proof::verify_less_than_or_equal(&mut ro(tctx), n, &ca, &cb, &p, &gens, &key)
                    }
                }
            }
            "interval" => {
                let tok = |i: &J| toks[i.as_u64().unwrap() as usize - 1].clone();
                let (a, b) = (num(&row["a"]), num(&row["b"]));
                let xs = scalar_of(&tok(&row["v"]));
                let r = Randomness::<G>::generate(&mut rng);
                let mut c = key.hide(&Value::<G>::new(xs), &r);
                let proof = range_proof::prove_in_range(version, &mut ro("c11"), &mut rng, &gens, &key, xs, G::scalar_from_u64(a), G::scalar_from_u64(b), &r);
                match proof {
                    None => false,
                    Some(mut p) => {
                        let (mut a2, b2) = (a, b);
                        match perturb {
                            "commitment" => c = Commitment(c.0.plus_point(&key.g)),
                            "bounds" => a2 = a + 1,
                            "proof" => match flip(&p) {
                                Some(q) => p = q,
                                None => return Ok(()),
                            },
                            _ => {}
                        }
                        range_proof::verify_in_range(version, &mut ro(tctx), &key, &gens, G::scalar_from_u64(a2), G::scalar_from_u64(b2), &c, &p).is_ok()
                    }
                }
            }
            "in_set" | "not_in_set" => {
                let x = num(&row["v"]);
                let set: Vec<Fr> = row["set"].as_array().unwrap().iter().map(|t| G::scalar_from_u64(num(t))).collect();
                let r = Randomness::<G>::generate(&mut rng);
                let mut c = key.hide(&Value::<G>::new(G::scalar_from_u64(x)), &r);
                let mut set2 = set.clone();
                if perturb == "set" {
                    set2[0] = G::scalar_from_u64(77);
                }
                if perturb == "commitment" {
                    c = Commitment(c.0.plus_point(&key.g));
                }
                if kind == "in_set" {
                    match set_membership_proof::prove(version, &mut ro("c11"), &mut rng, &set, G::scalar_from_u64(x), &gens, &key, &r) {
                        Err(_) => false,
                        Ok(mut p) => {
                            if perturb == "proof" {
                                match flip(&p) {
                                    Some(q) => p = q,
                                    None => return Ok(()),
                                }
                            }
                            set_membership_proof::verify(version, &mut ro(tctx), &set2, &c, &p, &gens, &key).is_ok()
                        }
                    }
                } else {
                    match set_non_membership_proof::prove(version, &mut ro("c11"), &mut rng, &set, G::scalar_from_u64(x), &gens, &key, &r) {
                        Err(_) => false,
                        Ok(mut p) => {
                            if perturb == "proof" {
                                match flip(&p) {
                                    Some(q) => p = q,
                                    None => return Ok(()),
                                }
                            }
                            set_non_membership_proof::verify(version, &mut ro(tctx), &set2, &c, &p, &gens, &key).is_ok()
                        }
                    }
                }
            }
            o => return fail(format!("unknown row kind {}", o), J::Null, J::Null),
        };
        if verdict != accept {
            return fail(what("a proof is produced and verifies exactly when the statement is true, supported and unperturbed"), json!(accept), json!(verdict));
        }
        Ok(())
    })
}
