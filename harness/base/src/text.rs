//! C16 (text forms, validators, checked arithmetic): TextForms.tla vectors on concordium-contracts-common.
use crate::util::*;
use concordium_contracts_common::{
    is_valid_entrypoint_name, Amount, ContractAddress, ContractName, Duration, EntrypointName, OwnedContractName, OwnedReceiveName, ReceiveName, Timestamp,
};
use serde_json::{json, Value};
use std::str::FromStr;

fn join(v: &Value) -> String {
    v.as_array()
        .map(|a| {
            a.iter()
                .map(|c| match c.as_str().unwrap_or("") {
                    "NONASCII" => "\u{e9}",
                    "TAB" => "\t",
                    other => other,
                })
                .collect::<String>()
        })
        .unwrap_or_default()
}

fn sym(v: &Value) -> u64 {
    let k = v[1].as_u64().unwrap_or(0);
    match v[0].as_str().unwrap_or("") {
        "n" => k,
        "max" => u64::MAX - k,
        "p63" => (1u64 << 63) + k,
        "p63m" => (1u64 << 63) - k,
        other => panic!("bad symbolic value {}", other),
    }
}

fn sym_result(v: &Value) -> Option<Option<u64>> {
    match v[0].as_str().unwrap_or("") {
        "none" => Some(None),
        "skip" => None,
        _ => Some(Some(sym(v))),
    }
}

fn roundtrip_timestamp(v: u64) -> Result<(), (String, Value, Value)> {
    let t = Timestamp::from_timestamp_millis(v);
    let printed = t.to_string();
    match Timestamp::from_str(&printed) {
        Ok(back) if back == t => {}
        other => {
            return Err((format!("timestamp {} ms prints as {:?} which does not parse back to it", v, printed), json!(v),
                        json!(other.map(|x| x.timestamp_millis()).map_err(|e| e.to_string()))));
        }
    }
    // the JSON form is the printed form
    let j = serde_json::to_value(t).map_err(|e| (format!("timestamp to json: {}", e), Value::Null, Value::Null))?;
    match serde_json::from_value::<Timestamp>(j.clone()) {
        Ok(back) if back == t => Ok(()),
        other => Err((format!("timestamp {} ms: JSON form {} does not read back", v, j), json!(v), json!(other.map(|x| x.timestamp_millis()).map_err(|e| e.to_string())))),
    }
}

pub fn main(args: &[String]) -> i32 {
    drive(args, "text-replay", |v, stats| {
        let kind = v["kind"].as_str().unwrap();
        *stats.entry(kind.to_string()).or_default() += 1;
        match kind {
            "amount" => {
                let s = join(&v["s"]);
                let exp_ok = v["ok"].as_bool().unwrap();
                let got = Amount::from_str(&s);
                if got.is_ok() != exp_ok {
                    return Err((format!("Amount::from_str({:?})", s), json!(exp_ok), json!(got.is_ok())));
                }
                if let Ok(a) = got {
                    let want = v["ccd"].as_u64().unwrap() * 1_000_000 + v["micro"].as_u64().unwrap();
                    if a.micro_ccd() != want {
                        return Err((format!("value of amount {:?}", s), json!(want), json!(a.micro_ccd())));
                    }
                    let printed = a.to_string();
                    if Amount::from_str(&printed).ok() != Some(a) {
                        return Err((format!("amount prints as {:?} which does not parse back", printed), json!(want), Value::Null));
                    }
                    let j = serde_json::to_value(a).unwrap();
                    if serde_json::from_value::<Amount>(j.clone()).ok() != Some(a) {
                        return Err((format!("amount JSON {} does not read back", j), json!(want), Value::Null));
                    }
                }
            }
            "contract_name" | "receive_name" | "entrypoint_name" => {
                let name = join(&v["body"]) + &"a".repeat(v["pad"].as_u64().unwrap() as usize);
                let exp_ok = v["ok"].as_bool().unwrap();
                *stats.entry(format!("{}:{}", kind, exp_ok)).or_default() += 1;
                let (a, b, c) = match kind {
                    "contract_name" => (ContractName::is_valid_contract_name(&name).is_ok(), ContractName::new(&name).is_ok(), OwnedContractName::new(name.clone()).is_ok()),
                    "receive_name" => (ReceiveName::is_valid_receive_name(&name).is_ok(), ReceiveName::new(&name).is_ok(), OwnedReceiveName::new(name.clone()).is_ok()),
                    _ => (is_valid_entrypoint_name(&name).is_ok(), EntrypointName::new(&name).is_ok(), EntrypointName::new(&name).is_ok()),
                };
                if a != exp_ok || b != exp_ok || c != exp_ok {
                    return Err((format!("{} validator on {:?} (length {})", kind, name, name.len()), json!(exp_ok), json!([a, b, c])));
                }
            }
            "timestamp" => {
                let val = v["days"].as_u64().unwrap() * 86_400_000 + v["ms"].as_u64().unwrap();
                roundtrip_timestamp(val)?;
                let p = &v["parts"];
                if p["y"].as_u64().unwrap() <= 9999 {
                    let base = format!("{:04}-{:02}-{:02}T{:02}:{:02}:{:02}", p["y"].as_u64().unwrap(), p["mo"].as_u64().unwrap(), p["d"].as_u64().unwrap(),
                                       p["h"].as_u64().unwrap(), p["mi"].as_u64().unwrap(), p["s"].as_u64().unwrap());
                    let frac = if p["ms"].as_u64().unwrap() == 0 { String::new() } else { format!(".{:03}", p["ms"].as_u64().unwrap()) };
                    for (suffix, shift) in [("Z", 0i64), ("+00:00", 0), ("+01:00", -3_600_000), ("-02:30", 9_000_000)] {
                        let s = format!("{}{}{}", base, frac, suffix);
                        let want = val as i64 + shift;
                        let got = Timestamp::from_str(&s);
                        if want >= 0 {
                            if got.as_ref().ok().map(|t| t.timestamp_millis()) != Some(want as u64) {
                                return Err((format!("Timestamp::from_str({:?})", s), json!(want), json!(got.map(|t| t.timestamp_millis()).map_err(|e| e.to_string()))));
                            }
                        } else if got.is_ok() {
                            return Err((format!("Timestamp::from_str({:?}) denotes a time before the epoch", s), json!("error"), json!(got.unwrap().timestamp_millis())));
                        }
                    }
                }
                // durations: the canonical print parses back, and unit arithmetic
                let d = Duration::from_millis(val);
                if Duration::from_str(&d.to_string()).ok() != Some(d) {
                    return Err((format!("duration {} ms prints as {:?} which does not parse back", val, d.to_string()), json!(val), Value::Null));
                }
                let days = v["days"].as_u64().unwrap();
                let ms = v["ms"].as_u64().unwrap();
                let s = format!("{}ms {}d", ms, days);
                if Duration::from_str(&s).ok().map(|x| x.millis()) != Some(val) {
                    return Err((format!("Duration::from_str({:?})", s), json!(val), Value::Null));
                }
            }
            "timestamp_sym" => roundtrip_timestamp(sym(&v["v"]))?,
            "contract_address" => {
                let c = ContractAddress::new(sym(&v["i"]), sym(&v["sub"]));
                let s = c.to_string();
                if s != format!("<{},{}>", sym(&v["i"]), sym(&v["sub"])) || ContractAddress::from_str(&s).ok() != Some(c) {
                    return Err((format!("contract address prints as {:?}", s), Value::Null, Value::Null));
                }
            }
            "checked_add" | "checked_sub" => {
                let a = sym(&v["a"]);
                let b = sym(&v["b"]);
                if let Some(exp) = sym_result(&v["r"]) {
                    let add = kind == "checked_add";
                    let am = if add { Amount::from_micro_ccd(a).checked_add(Amount::from_micro_ccd(b)) } else { Amount::from_micro_ccd(a).checked_sub(Amount::from_micro_ccd(b)) };
                    let du = if add { Duration::from_millis(a).checked_add(Duration::from_millis(b)) } else { Duration::from_millis(a).checked_sub(Duration::from_millis(b)) };
                    let ts = if add { Timestamp::from_timestamp_millis(a).checked_add(Duration::from_millis(b)) } else { Timestamp::from_timestamp_millis(a).checked_sub(Duration::from_millis(b)) };
                    let got = [am.map(|x| x.micro_ccd()), du.map(|x| x.millis()), ts.map(|x| x.timestamp_millis())];
                    for (what, g) in ["Amount", "Duration", "Timestamp"].iter().zip(got.iter()) {
                        if *g != exp {
                            return Err((format!("{}::{}({}, {})", what, kind, a, b), json!(exp), json!(g)));
                        }
                    }
                    if !add {
                        let ds = Timestamp::from_timestamp_millis(a).duration_since(Timestamp::from_timestamp_millis(b)).map(|x| x.millis());
                        if ds != exp {
                            return Err((format!("Timestamp::duration_since({}, {})", a, b), json!(exp), json!(ds)));
                        }
                    }
                }
            }
            other => return Err((format!("unknown kind {}", other), Value::Null, Value::Null)),
        }
        Ok(())
    })
}
