//! C05: wire-format vectors from Wire.tla against the real Serial/Deserial implementations.
//! For each vector: decode the spec's bytes with the real decoder; accepted values must re-encode to
//! exactly the consumed bytes; selected fields of the decoded value (through its serde JSON form)
//! must equal the spec's abstract value; rejected classes must be rejected.
use crate::{envelope::eval_term, util::*};
use concordium_base::common::{to_bytes, Deserial, Serial};
use serde_json::{json, Value};
use std::io::Cursor;

struct Decoded {
    consumed: usize,
    reenc:    Vec<u8>,
    json:     Value,
}

fn decode_as<T: Deserial + Serial + serde::Serialize>(bytes: &[u8]) -> Option<Decoded> {
    let mut c = Cursor::new(bytes);
    let v: T = T::deserial(&mut c).ok()?;
    Some(Decoded { consumed: c.position() as usize, reenc: to_bytes(&v), json: serde_json::to_value(&v).unwrap_or(Value::Null) })
}

fn decode_nojson<T: Deserial + Serial>(bytes: &[u8]) -> Option<Decoded> {
    let mut c = Cursor::new(bytes);
    let v: T = T::deserial(&mut c).ok()?;
    Some(Decoded { consumed: c.position() as usize, reenc: to_bytes(&v), json: Value::Null })
}

pub fn decode(ty: &str, bytes: &[u8]) -> Result<Option<Decoded>, String> {
    use concordium_base::{base, common::types, id, transactions as tx, updates};
    Ok(match ty {
        "TransactionHeader" => decode_as::<tx::TransactionHeader>(bytes),
        "TransactionHeaderV1" => decode_as::<tx::TransactionHeaderV1>(bytes),
        "TransactionSignature" => decode_as::<types::TransactionSignature>(bytes),
        "TransactionSignaturesV1" => decode_nojson::<types::TransactionSignaturesV1>(bytes),
        "Payload" => decode_as::<tx::Payload>(bytes),
        "CredentialPublicKeys" => decode_as::<id::types::CredentialPublicKeys>(bytes),
        "UpdateAccessStructure" => decode_as::<updates::AccessStructure>(bytes),
        "ExchangeRate" => decode_as::<base::ExchangeRate>(bytes),
        "AccountTransaction" => decode_nojson::<tx::AccountTransaction<tx::EncodedPayload>>(bytes),
        "BlockItem" => decode_nojson::<tx::BlockItem<tx::EncodedPayload>>(bytes),
        "UpdateHeader" => decode_nojson::<updates::UpdateHeader>(bytes),
        "AmountFraction" => decode_as::<base::AmountFraction>(bytes),
        "ProtocolUpdate" => decode_nojson::<updates::ProtocolUpdate>(bytes),
        "UpdatePayload" => decode_nojson::<updates::UpdatePayload>(bytes),
        "UpdateInstruction" => decode_nojson::<updates::UpdateInstruction>(bytes),
        "WasmModule" => decode_nojson::<concordium_base::smart_contracts::WasmModule>(bytes),
        other => return Err(format!("unknown type {}", other)),
    })
}

fn lookup<'a>(v: &'a Value, path: &str) -> &'a Value {
    let mut cur = v;
    for p in path.split('.') {
        cur = match p.parse::<usize>() {
            Ok(i) if cur.is_array() => &cur[i],
            _ => &cur[p],
        };
    }
    cur
}

pub fn main(args: &[String]) -> i32 {
    if args.first().map(|s| s.as_str()) == Some("--dump") {
        // wire-replay --dump <type> <hex>
        let b = hex::decode(&args[2]).unwrap();
        match decode(&args[1], &b) {
            Ok(Some(d)) => println!("consumed {} json {}", d.consumed, d.json),
            Ok(None) => println!("rejected"),
            Err(e) => println!("{}", e),
        }
        return 0;
    }
    if args.first().map(|s| s.as_str()) == Some("--alloc") {
        // wire-replay --alloc <type> <hex>: one decode, reporting the peak heap allocation (run under an
        // address-space limit by the driver; a decoder that trusts a hostile length dies here)
        let b = hex::decode(&args[2]).unwrap();
        let base = crate::alloc::reset();
        let r = decode(&args[1], &b);
        let (peak, largest) = crate::alloc::measure(base);
        println!("{}", json!({"accepted": matches!(r, Ok(Some(_))), "peak": peak, "largest": largest, "len": b.len()}));
        return 0;
    }
    drive(args, "wire-replay", |v, stats| {
        let ty = v["ty"].as_str().unwrap();
        let bytes = eval_term(&v["bytes"]);
        let expect = v["expect"].as_str().unwrap_or("accept");
        *stats.entry(format!("{}:{}", ty, expect)).or_default() += 1;
        let base = crate::alloc::reset();
        let d = decode(ty, &bytes).map_err(|e| (e, Value::Null, Value::Null))?;
        let (peak, largest) = crate::alloc::measure(base);
        // decoding never allocates more than a small constant beyond what the input can justify
        if peak > (1 << 20) + 64 * bytes.len() {
            return Err((format!("{}: decoding {} input bytes allocated {} bytes (largest single request {})", ty, bytes.len(), peak, largest),
                        json!((1 << 20) + 64 * bytes.len()), json!(peak)));
        }
        match (expect, d) {
            ("reject", Some(d)) => Err((format!("{}: input of class '{}' must be rejected but was accepted", ty, v["class"].as_str().unwrap_or("?")),
                                        json!("reject"), json!({"consumed": d.consumed, "reencoded": hex::encode(&d.reenc), "input": hex::encode(&bytes)}))),
            ("reject", None) => Ok(()),
            ("accept", None) => Err((format!("{}: canonical encoding of the spec rejected", ty), json!("accept"), json!(hex::encode(&bytes)))),
            (_, None) => Ok(()),
            (e, Some(d)) => {
                // whatever is accepted re-encodes to exactly what was consumed
                if d.reenc[..] != bytes[..d.consumed] {
                    return Err((format!("{}: accepted input does not re-encode to the consumed bytes (a second accepted encoding exists)", ty),
                                json!(hex::encode(&bytes[..d.consumed])), json!(hex::encode(&d.reenc))));
                }
                if e == "accept" {
                    let want = v["consumed"].as_u64().map(|x| x as usize).unwrap_or(bytes.len());
                    if d.consumed != want {
                        return Err((format!("{}: consumed {} bytes, the encoding has {}", ty, d.consumed, want), json!(want), json!(d.consumed)));
                    }
                    if let Some(fields) = v["fields"].as_object() {
                        for (path, exp) in fields {
                            let got = lookup(&d.json, path);
                            if got != exp {
                                return Err((format!("{}: decoded field {}", ty, path), exp.clone(), got.clone()));
                            }
                        }
                    }
                }
                Ok(())
            }
        }
    })
}
