//! Counting global allocator: tracks the live and peak number of heap bytes, so that decoders can
//! be checked for "never pre-allocates more than a small constant beyond what the input justifies".
use std::{
    alloc::{GlobalAlloc, Layout, System},
    sync::atomic::{AtomicUsize, Ordering},
};

pub struct Counting;

static LIVE: AtomicUsize = AtomicUsize::new(0);
static PEAK: AtomicUsize = AtomicUsize::new(0);
static LARGEST: AtomicUsize = AtomicUsize::new(0);

unsafe impl GlobalAlloc for Counting {
    unsafe fn alloc(&self, layout: Layout) -> *mut u8 {
        let p = System.alloc(layout);
        if !p.is_null() {
            let live = LIVE.fetch_add(layout.size(), Ordering::Relaxed) + layout.size();
            PEAK.fetch_max(live, Ordering::Relaxed);
            LARGEST.fetch_max(layout.size(), Ordering::Relaxed);
        }
        p
    }

    unsafe fn dealloc(&self, ptr: *mut u8, layout: Layout) {
        System.dealloc(ptr, layout);
        LIVE.fetch_sub(layout.size(), Ordering::Relaxed);
    }

    unsafe fn alloc_zeroed(&self, layout: Layout) -> *mut u8 {
        let p = System.alloc_zeroed(layout);
        if !p.is_null() {
            let live = LIVE.fetch_add(layout.size(), Ordering::Relaxed) + layout.size();
            PEAK.fetch_max(live, Ordering::Relaxed);
            LARGEST.fetch_max(layout.size(), Ordering::Relaxed);
        }
        p
    }

    unsafe fn realloc(&self, ptr: *mut u8, layout: Layout, new_size: usize) -> *mut u8 {
        let p = System.realloc(ptr, layout, new_size);
        if !p.is_null() {
            if new_size >= layout.size() {
                let live = LIVE.fetch_add(new_size - layout.size(), Ordering::Relaxed) + (new_size - layout.size());
                PEAK.fetch_max(live, Ordering::Relaxed);
            } else {
                LIVE.fetch_sub(layout.size() - new_size, Ordering::Relaxed);
            }
            LARGEST.fetch_max(new_size, Ordering::Relaxed);
        }
        p
    }
}

/// Start a measurement: peak := live.  Returns the baseline.
pub fn reset() -> usize {
    let live = LIVE.load(Ordering::Relaxed);
    PEAK.store(live, Ordering::Relaxed);
    LARGEST.store(0, Ordering::Relaxed);
    live
}

/// Bytes allocated above the baseline at the peak since `reset`, and the largest single request.
pub fn measure(baseline: usize) -> (usize, usize) {
    (PEAK.load(Ordering::Relaxed).saturating_sub(baseline), LARGEST.load(Ordering::Relaxed))
}
