//! C16 (binary part): ContractsCommon.tla vectors on concordium-contracts-common's Serial/Deserial.
use crate::util::*;
use concordium_contracts_common::{self as cc, Deserial, Get, Serial};
use serde_json::{json, Value};
use std::collections::{BTreeMap, BTreeSet};

pub fn eval_le(t: &Value) -> Vec<u8> {
    let mut out = Vec::new();
    for p in t.as_array().cloned().unwrap_or_default() {
        match p[0].as_str().unwrap_or("") {
            "b" => out.extend(bytes_of(&p[1])),
            "r" => out.extend(std::iter::repeat(p[1].as_u64().unwrap() as u8).take(p[2].as_u64().unwrap() as usize)),
            "le64" => out.extend_from_slice(&((p[1].as_u64().unwrap() << 32) | p[2].as_u64().unwrap()).to_le_bytes()),
            "le32" => out.extend_from_slice(&(p[1].as_u64().unwrap() as u32).to_le_bytes()),
            "le16" => out.extend_from_slice(&(p[1].as_u64().unwrap() as u16).to_le_bytes()),
            _ => panic!("bad term"),
        }
    }
    out
}

struct D {
    consumed: usize,
    reenc:    Vec<u8>,
    json:     Value,
}

fn dec<T: Deserial + Serial>(bytes: &[u8], js: impl Fn(&T) -> Value) -> Option<D> {
    let mut c = cc::Cursor::new(bytes);
    let v: T = T::deserial(&mut c).ok()?;
    Some(D { consumed: c.offset, reenc: cc::to_bytes(&v), json: js(&v) })
}

fn serde<T: serde::Serialize>(v: &T) -> Value { serde_json::to_value(v).unwrap_or(Value::Null) }

struct OrderedSet(BTreeSet<u8>);
impl Deserial for OrderedSet {
    fn deserial<R: cc::Read>(source: &mut R) -> cc::ParseResult<Self> {
        let len: u32 = source.get()?;
        Ok(OrderedSet(cc::deserial_set_no_length(source, len as usize)?))
    }
}
impl Serial for OrderedSet {
    fn serial<W: cc::Write>(&self, out: &mut W) -> Result<(), W::Err> { self.0.serial(out) }
}
struct OrderedMap(BTreeMap<u8, u16>);
impl Deserial for OrderedMap {
    fn deserial<R: cc::Read>(source: &mut R) -> cc::ParseResult<Self> {
        let len: u32 = source.get()?;
        Ok(OrderedMap(cc::deserial_map_no_length(source, len as usize)?))
    }
}
impl Serial for OrderedMap {
    fn serial<W: cc::Write>(&self, out: &mut W) -> Result<(), W::Err> { self.0.serial(out) }
}

fn decode(ty: &str, b: &[u8]) -> Result<Option<D>, String> {
    Ok(match ty {
        "u8" => dec::<u8>(b, |v| json!(v)),
        "u16" => dec::<u16>(b, |v| json!(v)),
        "u32" => dec::<u32>(b, |v| json!(v)),
        "u64" => dec::<u64>(b, |v| json!(v)),
        "i8" => dec::<i8>(b, |v| json!(v)),
        "i16" => dec::<i16>(b, |v| json!(v)),
        "i32" => dec::<i32>(b, |v| json!(v)),
        "i64" => dec::<i64>(b, |v| json!(v)),
        "bool" => dec::<bool>(b, |v| json!(v)),
        "OptionU16" => dec::<Option<u16>>(b, |v| v.map(|x| json!(x)).unwrap_or(json!("null"))),
        "TupleU8U16" => dec::<(u8, u16)>(b, |v| json!([v.0, v.1])),
        "ArrayU8x4" => dec::<[u8; 4]>(b, |v| json!(v)),
        "VecU16" => dec::<Vec<u16>>(b, |v| json!(v)),
        "String" => dec::<String>(b, |v| json!(v)),
        "SetU8" => dec::<BTreeSet<u8>>(b, |v| json!(v.iter().collect::<Vec<_>>())),
        "SetU8Ordered" => dec::<OrderedSet>(b, |v| json!(v.0.iter().collect::<Vec<_>>())),
        "MapU8U16" => dec::<BTreeMap<u8, u16>>(b, |v| json!(v.iter().map(|(k, x)| json!([k, x])).collect::<Vec<_>>())),
        "MapU8U16Ordered" => dec::<OrderedMap>(b, |v| json!(v.0.iter().map(|(k, x)| json!([k, x])).collect::<Vec<_>>())),
        "ContractAddress" => dec::<cc::ContractAddress>(b, serde),
        "Address" => dec::<cc::Address>(b, |_| Value::Null),
        "Amount" => dec::<cc::Amount>(b, |v| json!(v.micro_ccd().to_string())),
        "Timestamp" => dec::<cc::Timestamp>(b, serde),
        "Duration" => dec::<cc::Duration>(b, serde),
        "ExchangeRate" => dec::<cc::ExchangeRate>(b, |v| json!({"numerator": v.numerator(), "denominator": v.denominator()})),
        "OwnedContractName" => dec::<cc::OwnedContractName>(b, |v| json!(v.as_contract_name().get_chain_name())),
        "OwnedReceiveName" => dec::<cc::OwnedReceiveName>(b, |v| json!(v.as_receive_name().get_chain_name())),
        "OwnedEntrypointName" => dec::<cc::OwnedEntrypointName>(b, |v| json!(String::from(v.clone()))),
        "OwnedParameter" => dec::<cc::OwnedParameter>(b, |_| Value::Null),
        "AttributeValue" => dec::<cc::AttributeValue>(b, |_| Value::Null),
        "OwnedPolicy" => dec::<cc::OwnedPolicy>(b, |_| Value::Null),
        "ArrayU8x0" => dec::<[u8; 0]>(b, |_| Value::Null),
        other => return Err(format!("unknown type {}", other)),
    })
}

pub fn main(args: &[String]) -> i32 {
    drive(args, "cc-replay", |v, stats| {
        let ty = v["ty"].as_str().unwrap();
        let bytes = eval_le(&v["bytes"]);
        let expect = v["expect"].as_str().unwrap_or("accept");
        *stats.entry(format!("{}:{}", ty, expect)).or_default() += 1;
        let base = crate::alloc::reset();
        let d = decode(ty, &bytes).map_err(|e| (e, Value::Null, Value::Null))?;
        let (peak, largest) = crate::alloc::measure(base);
        // a policy reserves room for the declared number of items: a 16-bit count of 33-byte items, at most 2.1 MiB
        let constant = if ty == "OwnedPolicy" { 3 << 20 } else { 1 << 16 };
        if peak > constant + 64 * bytes.len() {
            return Err((format!("{}: decoding {} input bytes allocated {} bytes (largest request {})", ty, bytes.len(), peak, largest), json!((1 << 16) + 64 * bytes.len()), json!(peak)));
        }
        match (expect, d) {
            ("reject", Some(d)) => Err((format!("{}: input of class '{}' must be rejected but was accepted", ty, v["class"].as_str().unwrap_or("?")), json!("reject"), json!({"consumed": d.consumed, "value": d.json}))),
            ("reject", None) => Ok(()),
            ("accept", None) => Err((format!("{}: canonical encoding rejected", ty), json!("accept"), json!(hex::encode(&bytes)))),
            (_, None) => Ok(()),
            (e, Some(d)) => {
                // the default BTreeSet / BTreeMap readers are documented not to check the order of their input, so only
                // canonical vectors of these two types are required to re-encode identically
                let order_free = ty == "SetU8" || ty == "MapU8U16";
                if e == "accept" || !order_free {
                    if d.reenc[..] != bytes[..d.consumed.min(bytes.len())] {
                        return Err((format!("{}: accepted input does not re-encode to the consumed bytes", ty), json!(hex::encode(&bytes[..d.consumed.min(bytes.len())])), json!(hex::encode(&d.reenc))));
                    }
                }
                if e == "accept" {
                    let want = v["consumed"].as_u64().map(|x| x as usize).unwrap_or(bytes.len());
                    if d.consumed != want {
                        return Err((format!("{}: consumed {} of {}", ty, d.consumed, want), json!(want), json!(d.consumed)));
                    }
                    if v["json"] != json!(0) && !d.json.is_null() && d.json != v["json"] {
                        return Err((format!("{}: decoded value", ty), v["json"].clone(), d.json));
                    }
                }
                Ok(())
            }
        }
    })
}
