//! C07: (a) Transcript.tla byte streams against TranscriptProtocolV1 / RandomOracle; (b) Sigma.tla rows
//! (protocol, witness classes, perturbation) on the sigma protocols of concordium_base over BLS12-381:
//! a proof from a valid witness verifies under the same context, and fails when the context, the
//! challenge, a response component or a public input is altered.
#![allow(deprecated)]
use crate::util::*;
use concordium_base::{
    common::{to_bytes, Deserial, Serialize},
    curve_arithmetic::{Curve, Field, Value},
    elgamal,
    id::constants::{ArCurve, BlsG2},
    pedersen_commitment::{Commitment, CommitmentKey, Randomness},
    random_oracle::{RandomOracle, TranscriptProtocol, TranscriptProtocolV1},
    sigma_protocols::{
        aggregate_dlog::AggregateDlog,
        com_enc_eq::{ComEncEq, ComEncEqSecret},
        com_eq::{ComEq, ComEqSecret},
        com_eq_different_groups::{ComEqDiffGroups, ComEqDiffGroupsSecret},
        com_mult::{ComMult, ComMultSecret},
        common::{prove, verify, AndAdapter, ReplicateAdapter, SigmaProof, SigmaProtocol},
        dlog::{Dlog, DlogSecret},
        vcom_eq::VecComEq,
    },
};
use rand::{rngs::StdRng, SeedableRng};
use serde_json::{json, Value as J};
use sha3::{Digest, Sha3_256};
use std::{collections::BTreeMap, io::Cursor, rc::Rc};

type G = ArCurve;
type Fr = <G as Curve>::Scalar;
type Res = Result<(), (String, J, J)>;
fn fail<T>(what: String, exp: J, got: J) -> Result<T, (String, J, J)> { Err((what, exp, got)) }

// ------------------------------------------------------------------------------------------------ transcript
struct Item(Vec<u8>);
impl concordium_base::common::Serial for Item {
    fn serial<B: concordium_base::common::Buffer>(&self, out: &mut B) { out.write_all(&self.0).expect("write") }
}
fn item_of(v: &J) -> Item {
    let n = v[1].as_u64().unwrap() as u8;
    match v[0].as_str().unwrap() {
        "u8" => Item(vec![n]),
        "u32" => Item(vec![0, 0, 0, n]),
        _ => {
            let mut b = vec![0u8; 32];
            b[31] = n;
            Item(b)
        }
    }
}

fn run_transcript(v: &J) -> Res {
    let ops = v["ops"].as_array().unwrap();
    let drive_ops = |t: &mut dyn FnMut(&J)| {
        for op in ops {
            t(op);
        }
    };
    fn apply<T: TranscriptProtocol>(t: &mut T, op: &J) {
        let l = bytes_of(&op["l"]);
        match op["k"].as_str().unwrap() {
            "label" => t.append_label(&l),
            "message" => t.append_message(&l, &item_of(&op["m"])),
            _ => {
                let items: Vec<Item> = op["ms"].as_array().unwrap().iter().map(item_of).collect();
                t.append_messages(&l, items.iter())
            }
        }
    }
    // V1: the challenge is SHA3-256 of the framed bytes
    let mut t1 = TranscriptProtocolV1::with_domain(b"");
    let mut expect = vec![0u8; 8]; // the empty domain label: its length
    expect.extend(bytes_of(&v["v1"]));
    drive_ops(&mut |op| apply(&mut t1, op));
    let got = t1.extract_raw_challenge();
    let want: [u8; 32] = Sha3_256::digest(&expect).into();
    if got.as_ref() != want {
        return fail("TranscriptProtocolV1 challenge = SHA3-256(domain label ++ framed operations)".into(), json!(hex::encode(want)), json!(hex::encode(got.as_ref())));
    }
    let mut t0 = RandomOracle::empty();
    drive_ops(&mut |op| apply(&mut t0, op));
    let got = t0.extract_raw_challenge();
    let want: [u8; 32] = Sha3_256::digest(bytes_of(&v["legacy"])).into();
    if got.as_ref() != want {
        return fail("RandomOracle challenge = SHA3-256(unframed concatenation)".into(), json!(hex::encode(want)), json!(hex::encode(got.as_ref())));
    }
    Ok(())
}

// ------------------------------------------------------------------------------------------------ protocols
fn scalar(class: &str, seed: u64) -> Fr {
    match class {
        "0" => Fr::zero(),
        "1" => Fr::one(),
        "r-1" => {
            let mut z = Fr::zero();
            z.sub_assign(&Fr::one());
            z
        }
        _ => G::generate_scalar(&mut StdRng::seed_from_u64(seed)),
    }
}
fn pt(n: u64) -> G { G::hash_to_group(format!("c07 generator {}", n).as_bytes()).unwrap() }
fn pt2(n: u64) -> BlsG2 { BlsG2::hash_to_group(format!("c07 generator {}", n).as_bytes()).unwrap() }

fn reparse<T: Deserial>(bytes: &[u8]) -> Option<T> {
    let mut c = Cursor::new(bytes);
    let v = T::deserial(&mut c).ok()?;
    if c.position() as usize == bytes.len() {
        Some(v)
    } else {
        None
    }
}

/// Run one row for a protocol given as a constructor from witness scalars and a function applying a named perturbation to the statement.
fn run_case<D: SigmaProtocol>(row: &J, idx: u64, make: &dyn Fn(&[Fr]) -> (D, D::SecretData), tamper: &dyn Fn(&mut D, &str) -> bool) -> Res
where
    D::Response: Serialize, {
    let classes: Vec<String> = row["wclass"].as_array().unwrap().iter().map(|c| c.as_str().unwrap().to_string()).collect();
    let ws: Vec<Fr> = classes.iter().enumerate().map(|(i, c)| scalar(c, 1000 * idx + i as u64)).collect();
    let perturb = row["perturb"].as_str().unwrap();
    let legacy = idx % 2 == 0;
    let mut rng = StdRng::seed_from_u64(idx);
    let (p, s) = make(&ws);
    let name = row["protocol"].as_str().unwrap();
    let proof = if legacy { prove(&mut RandomOracle::domain("ctx-a"), &p, s, &mut rng) } else { prove(&mut TranscriptProtocolV1::with_domain("ctx-a"), &p, s, &mut rng) };
    let proof = match proof {
        Some(x) => x,
        None => return fail(format!("{}: no proof from a valid witness {:?}", name, classes), json!("proof"), J::Null),
    };
    let check = |p: &D, proof: &SigmaProof<D::Response>, ctx: &str| if legacy { verify(&mut RandomOracle::domain(ctx), p, proof) } else { verify(&mut TranscriptProtocolV1::with_domain(ctx), p, proof) };
    if !check(&p, &proof, "ctx-a") {
        return fail(format!("{}: proof from a valid witness {:?} verifies under the same context", name, classes), json!(true), json!(false));
    }
    let bytes = to_bytes(&proof);
    let verdict: Option<bool> = match perturb {
        "none" => return Ok(()),
        "context" => Some(check(&p, &proof, "ctx-b")),
        "challenge" => {
            let mut b = bytes.clone();
            b[7] ^= 0x10;
            reparse::<SigmaProof<D::Response>>(&b).map(|pr| check(&p, &pr, "ctx-a"))
        }
        // the challenge is compared as 32 bytes: also the bits that do not survive the reduction to a scalar count
        "challenge_msb" => {
            let mut ok = false;
            for (pos, mask) in [(31usize, 0x80u8), (31, 0x40), (0, 0x80), (0, 0x40)] {
                let mut b = bytes.clone();
                b[pos] ^= mask;
                if let Some(pr) = reparse::<SigmaProof<D::Response>>(&b) {
                    ok = ok || check(&p, &pr, "ctx-a");
                }
            }
            Some(ok)
        }
        // one more entry in a counted part of the response than the statement has components
        "response_surplus" => {
            let mut found = false;
            let mut any = false;
            for b in surplus_variants(name, &bytes) {
                any = true;
                if let Some(pr) = reparse::<SigmaProof<D::Response>>(&b) {
                    found = found || check(&p, &pr, "ctx-a");
                }
            }
            if !any {
                return Ok(());
            }
            Some(found)
        }
        x if x.starts_with("response_") => {
            // the k-th 32-byte scalar counted from the end of the encoding (length prefixes sit in front of them)
            let k: usize = x[9..].parse().unwrap();
            let n_scalars = (bytes.len() - 32) / 32;
            if k >= n_scalars {
                return Ok(());
            }
            let mut b = bytes.clone();
            let pos = bytes.len() - 32 * k - 1;
            b[pos] ^= 1;
            reparse::<SigmaProof<D::Response>>(&b).map(|pr| check(&p, &pr, "ctx-a"))
        }
        field => {
            let (mut p2, _) = make(&ws);
            if !tamper(&mut p2, field) {
                return fail(format!("{}: harness does not know the public input {}", name, field), J::Null, J::Null);
            }
            Some(check(&p2, &proof, "ctx-a"))
        }
    };
    if verdict == Some(true) {
        return fail(format!("{}: proof verifies although {} was altered (witness classes {:?}, {} transcript)", name, perturb, classes, if legacy { "legacy" } else { "V1" }), json!(false), json!(true));
    }
    Ok(())
}

/// Encodings of a proof with one additional element in a length-prefixed part of the response (layouts per protocol).
fn surplus_variants(name: &str, bytes: &[u8]) -> Vec<Vec<u8>> {
    let mut out = Vec::new();
    match name {
        // challenge 32 | sis: u16 count, 32 each | t 32 | tis: u16 count, (u8 key, 32) each
        "vcom_eq" => {
            let n = u16::from_be_bytes([bytes[32], bytes[33]]) as usize;
            let at = 34 + 32 * n + 32;
            let m = u16::from_be_bytes([bytes[at], bytes[at + 1]]);
            let mut b = bytes.to_vec();
            b[at..at + 2].copy_from_slice(&(m + 1).to_be_bytes());
            b.push(200);
            b.extend_from_slice(&bytes[bytes.len() - 32..]);
            out.push(b);
            // and one more s_i
            let mut b = bytes.to_vec();
            b[32..34].copy_from_slice(&((n + 1) as u16).to_be_bytes());
            let extra = bytes[34..66].to_vec();
            b.splice(34 + 32 * n..34 + 32 * n, extra);
            out.push(b);
        }
        // challenge 32 | u32 count, 32 each
        "aggregate_dlog" => {
            let n = u32::from_be_bytes([bytes[32], bytes[33], bytes[34], bytes[35]]);
            let mut b = bytes.to_vec();
            b[32..36].copy_from_slice(&(n + 1).to_be_bytes());
            b.extend_from_slice(&bytes[bytes.len() - 32..]);
            out.push(b);
        }
        // challenge 32 | common 32 | u32 count, 64 each | u32 count, 64 each
        "enc_trans" => {
            let n1 = u32::from_be_bytes([bytes[64], bytes[65], bytes[66], bytes[67]]) as usize;
            let at2 = 68 + 64 * n1;
            let n2 = u32::from_be_bytes([bytes[at2], bytes[at2 + 1], bytes[at2 + 2], bytes[at2 + 3]]) as usize;
            let mut b = bytes.to_vec();
            b[at2..at2 + 4].copy_from_slice(&((n2 + 1) as u32).to_be_bytes());
            b.extend_from_slice(&bytes[bytes.len() - 64..]);
            out.push(b);
            let mut b = bytes.to_vec();
            b[64..68].copy_from_slice(&((n1 + 1) as u32).to_be_bytes());
            let extra = bytes[68..132].to_vec();
            b.splice(at2..at2, extra);
            out.push(b);
        }
        _ => {}
    }
    out
}

fn bump<C: Curve>(x: &mut C) { *x = x.plus_point(&C::one_point()) }

/// A proof made for the statement WITHOUT one of its single commitments, hashed as if it were for the full statement, with the response map padded to the
/// expected size under an index the statement does not have: a verifier that checks every row rejects it (the omitted commitment here does NOT open to the
/// committed vector entry - the statement is false).
fn forge_vcom_eq(row: &J, idx: u64) -> Res {
    let legacy = idx % 2 == 0;
    let mut rng = StdRng::seed_from_u64(idx);
    let w: Vec<Fr> = (0..6).map(|i| scalar("rand", 7000 * idx + i)).collect();
    let gis = vec![pt(1), pt(2)];
    let (h, g_bar, h_bar) = (pt(3), pt(4), pt(5));
    let comm = Commitment(gis[0].mul_by_scalar(&w[0]).plus_point(&gis[1].mul_by_scalar(&w[1])).plus_point(&h.mul_by_scalar(&w[2])));
    let good = Commitment(g_bar.mul_by_scalar(&w[0]).plus_point(&h_bar.mul_by_scalar(&w[3])));
    // commits to w[4], not to the second entry w[1] of the vector
    let bad = Commitment(g_bar.mul_by_scalar(&w[4]).plus_point(&h_bar.mul_by_scalar(&w[5])));
    let mut comms_full = BTreeMap::new();
    comms_full.insert(0u8, good);
    comms_full.insert(1u8, bad);
    let mut comms_red = BTreeMap::new();
    comms_red.insert(0u8, good);
    let full = VecComEq { comm, comms: comms_full, gis: gis.clone(), h, g_bar, h_bar };
    let red = VecComEq { comm, comms: comms_red, gis, h, g_bar, h_bar };
    let mut ris = BTreeMap::new();
    ris.insert(0u8, Value::<G>::new(w[3]));
    let secret = (vec![w[0], w[1]], Value::<G>::new(w[2]), ris);
    fn forge<T: TranscriptProtocol>(ro: &mut T, full: &VecComEq<G>, red: &VecComEq<G>, secret: <VecComEq<G> as SigmaProtocol>::SecretData, rng: &mut StdRng) -> Option<Vec<u8>> {
        let (cm, st) = red.compute_commit_message(rng)?;
        full.public(ro);
        ro.append_message("point", &cm);
        let challenge_bytes = ro.extract_raw_challenge();
        let ch = full.get_challenge(&challenge_bytes);
        let resp = red.compute_response(secret, st, &ch)?;
        let mut b = to_bytes(&challenge_bytes);
        b.extend_from_slice(&to_bytes(&resp));
        Some(b)
    }
    let bytes = if legacy { forge(&mut RandomOracle::domain("ctx-a"), &full, &red, secret, &mut rng) } else { forge(&mut TranscriptProtocolV1::with_domain("ctx-a"), &full, &red, secret, &mut rng) };
    let mut bytes = match bytes {
        Some(b) => b,
        None => return fail("vcom_eq: harness cannot run the prover steps".into(), J::Null, J::Null),
    };
    // challenge 32 | sis: u16 count, 32 each | t 32 | tis: u16 count, (u8 key, 32) each  -> one more entry under an index outside the statement
    let n = u16::from_be_bytes([bytes[32], bytes[33]]) as usize;
    let at = 34 + 32 * n + 32;
    let m = u16::from_be_bytes([bytes[at], bytes[at + 1]]);
    bytes[at..at + 2].copy_from_slice(&(m + 1).to_be_bytes());
    bytes.push(200);
    let filler = bytes[bytes.len() - 33..bytes.len() - 1].to_vec();
    bytes.extend_from_slice(&filler);
    let proof = match reparse::<SigmaProof<<VecComEq<G> as SigmaProtocol>::Response>>(&bytes) {
        Some(p) => p,
        None => return Ok(()),
    };
    let accepted = if legacy { verify(&mut RandomOracle::domain("ctx-a"), &full, &proof) } else { verify(&mut TranscriptProtocolV1::with_domain("ctx-a"), &full, &proof) };
    if accepted {
        return fail(
            format!("vcom_eq: a proof that omits the commitment with index 1 (which does not open to the vector entry) and pads the response map under index 200 verifies for the full statement ({} transcript), row {}", if legacy { "legacy" } else { "V1" }, row),
            json!(false),
            json!(true),
        );
    }
    Ok(())
}

/// The same forgery against a replicated protocol: a transcript for the first two of three discrete-log statements, hashed as the full statement; the third
/// public value has no known discrete logarithm.
fn forge_replicate(row: &J, idx: u64) -> Res {
    let legacy = idx % 2 == 0;
    let mut rng = StdRng::seed_from_u64(idx);
    let w: Vec<Fr> = (0..2).map(|i| scalar("rand", 9000 * idx + i)).collect();
    let mk = || -> Vec<Dlog<G>> { w.iter().enumerate().map(|(i, x)| Dlog { public: pt(1 + i as u64).mul_by_scalar(x), coeff: pt(1 + i as u64) }).collect() };
    let red = ReplicateAdapter { protocols: mk() };
    let mut protocols = mk();
    protocols.push(Dlog { public: pt(77), coeff: pt(3) });
    let full = ReplicateAdapter { protocols };
    let secret: Vec<DlogSecret<G>> = w.iter().map(|x| DlogSecret { secret: Value::new(*x) }).collect();
    type R = ReplicateAdapter<Dlog<G>>;
    fn forge<T: TranscriptProtocol>(ro: &mut T, full: &R, red: &R, secret: <R as SigmaProtocol>::SecretData, rng: &mut StdRng) -> Option<Vec<u8>> {
        let (cm, st) = red.compute_commit_message(rng)?;
        full.public(ro);
        ro.append_message("point", &cm);
        let challenge_bytes = ro.extract_raw_challenge();
        let ch = full.get_challenge(&challenge_bytes);
        let resp = red.compute_response(secret, st, &ch)?;
        let mut b = to_bytes(&challenge_bytes);
        b.extend_from_slice(&to_bytes(&resp));
        Some(b)
    }
    let bytes = if legacy { forge(&mut RandomOracle::domain("ctx-a"), &full, &red, secret, &mut rng) } else { forge(&mut TranscriptProtocolV1::with_domain("ctx-a"), &full, &red, secret, &mut rng) };
    let bytes = match bytes {
        Some(b) => b,
        None => return fail("replicate_dlog: harness cannot run the prover steps".into(), J::Null, J::Null),
    };
    let proof = match reparse::<SigmaProof<<R as SigmaProtocol>::Response>>(&bytes) {
        Some(p) => p,
        None => return Ok(()),
    };
    let accepted = if legacy { verify(&mut RandomOracle::domain("ctx-a"), &full, &proof) } else { verify(&mut TranscriptProtocolV1::with_domain("ctx-a"), &full, &proof) };
    if accepted {
        return fail(format!("replicate_dlog: a proof answering only the first two of three statements verifies for all three ({} transcript), row {}", if legacy { "legacy" } else { "V1" }, row), json!(false), json!(true));
    }
    Ok(())
}

/// The same forgery against the encrypted-transfer relation: a transcript for the statement WITHOUT the upper chunk of the remaining balance (true as stated:
/// S decrypts to the amount chunks plus the lower remaining chunk), hashed as the full statement whose upper remaining chunk encrypts an unrelated non-zero
/// value (the full statement is false).  Offered as is (responses (2, 1)) and with the first response vector padded so that the TOTAL number of chunk
/// responses matches the statement (responses (3, 1) against chunks (2, 2)).
fn forge_enc_trans(row: &J, idx: u64) -> Res {
    use concordium_base::{
        encrypted_transfers::proofs::gen_enc_trans_proof_info,
        sigma_protocols::enc_trans::{EncTrans, EncTransSecret},
    };
    let legacy = idx % 2 == 0;
    let mut rng = StdRng::seed_from_u64(idx);
    let g = pt(1);
    let h = pt(2);
    let sk_r = elgamal::SecretKey::<G>::generate(&g, &mut StdRng::seed_from_u64(71));
    let pk_r = elgamal::PublicKey::from(&sk_r);
    let w: Vec<Fr> = (0..9).map(|i| scalar("rand", 11000 * idx + i)).collect();
    let sk = if w[0].is_zero() { Fr::one() } else { w[0] };
    let pk_s = elgamal::PublicKey { generator: g, key: g.mul_by_scalar(&sk) };
    let a = [G::scalar_from_u64(4_999_999_000 & 0xffff_ffff), G::scalar_from_u64(4_999_999_000 >> 32)];
    let sp = [G::scalar_from_u64(1123), G::scalar_from_u64(1_000_000)];
    let enc = |pk: &elgamal::PublicKey<G>, x: &Fr, k: &Fr| elgamal::Cipher(g.mul_by_scalar(k), pk.key.mul_by_scalar(k).plus_point(&h.mul_by_scalar(x)));
    let ca: Vec<_> = (0..2).map(|i| enc(&pk_r, &a[i], &w[1 + i])).collect();
    let cs: Vec<_> = (0..2).map(|i| enc(&pk_s, &sp[i], &w[3 + i])).collect();
    // S encrypts a_0 + 2^32 a_1 + s'_0: the upper remaining chunk s'_1 is not part of it
    let mut total = a[1];
    total.mul_assign(&G::scalar_from_u64(1 << 32));
    total.add_assign(&a[0]);
    total.add_assign(&sp[0]);
    let big_s = enc(&pk_s, &total, &w[5]);
    let full = gen_enc_trans_proof_info(&pk_s, &pk_r, &big_s, &ca, &cs, &h);
    let red = gen_enc_trans_proof_info(&pk_s, &pk_r, &big_s, &ca, &cs[..1], &h);
    let mk_secret = || EncTransSecret {
        dlog_secret: Rc::new(sk),
        encexp1_secrets: (0..2).map(|i| ComEqSecret { r: Randomness::new(a[i]), a: Value::new(w[1 + i]) }).collect(),
        encexp2_secrets: (0..1).map(|i| ComEqSecret { r: Randomness::new(sp[i]), a: Value::new(w[3 + i]) }).collect(),
    };
    type E = EncTrans<G>;
    let check = |p: &E, proof: &SigmaProof<<E as SigmaProtocol>::Response>| if legacy { verify(&mut RandomOracle::domain("ctx-a"), p, proof) } else { verify(&mut TranscriptProtocolV1::with_domain("ctx-a"), p, proof) };
    // the reduced statement is true: its honest proof verifies (otherwise the forgery below would be rejected for the wrong reason)
    let honest = if legacy { prove(&mut RandomOracle::domain("ctx-a"), &red, mk_secret(), &mut rng) } else { prove(&mut TranscriptProtocolV1::with_domain("ctx-a"), &red, mk_secret(), &mut rng) };
    match honest {
        Some(pr) if check(&red, &pr) => {}
        _ => return fail(format!("enc_trans: a valid witness for chunks (2, 1) yields no verifying proof, row {}", row), json!(true), json!(false)),
    }
    fn forge<T: TranscriptProtocol>(ro: &mut T, full: &E, red: &E, secret: <E as SigmaProtocol>::SecretData, rng: &mut StdRng) -> Option<Vec<u8>> {
        let (cm, st) = red.compute_commit_message(rng)?;
        full.public(ro);
        ro.append_message("point", &cm);
        let challenge_bytes = ro.extract_raw_challenge();
        let ch = full.get_challenge(&challenge_bytes);
        let resp = red.compute_response(secret, st, &ch)?;
        let mut b = to_bytes(&challenge_bytes);
        b.extend_from_slice(&to_bytes(&resp));
        Some(b)
    }
    let bytes = if legacy { forge(&mut RandomOracle::domain("ctx-a"), &full, &red, mk_secret(), &mut rng) } else { forge(&mut TranscriptProtocolV1::with_domain("ctx-a"), &full, &red, mk_secret(), &mut rng) };
    let bytes = match bytes {
        Some(b) => b,
        None => return fail("enc_trans: harness cannot run the prover steps".into(), J::Null, J::Null),
    };
    // challenge 32 | common 32 | u32 count, 64 each | u32 count, 64 each  -> one more entry in the first vector: counts (3, 1)
    let n1 = u32::from_be_bytes([bytes[64], bytes[65], bytes[66], bytes[67]]) as usize;
    let at2 = 68 + 64 * n1;
    let mut padded = bytes.clone();
    padded[64..68].copy_from_slice(&((n1 + 1) as u32).to_be_bytes());
    let extra = bytes[68..132].to_vec();
    padded.splice(at2..at2, extra);
    for (what, b) in [("(2, 1)", &bytes), ("(3, 1)", &padded)] {
        if let Some(proof) = reparse::<SigmaProof<<E as SigmaProtocol>::Response>>(b) {
            if check(&full, &proof) {
                return fail(
                    format!("enc_trans: a proof with chunk responses {} that never answers the upper remaining-balance chunk verifies for the statement with chunks (2, 2) ({} transcript), row {}", what, if legacy { "legacy" } else { "V1" }, row),
                    json!(false),
                    json!(true),
                );
            }
        }
    }
    Ok(())
}

fn run_sigma(row: &J, idx: u64) -> Res {
    if row["perturb"] == "forge_skip_row" {
        return match row["protocol"].as_str().unwrap() {
            "vcom_eq" => forge_vcom_eq(row, idx),
            "replicate_dlog" => forge_replicate(row, idx),
            "enc_trans" => forge_enc_trans(row, idx),
            _ => Ok(()),
        };
    }
    let key = CommitmentKey::<G>::new(pt(1), pt(2));
    match row["protocol"].as_str().unwrap() {
        "dlog" => run_case::<Dlog<G>>(
            row,
            idx,
            &|w| (Dlog { public: pt(1).mul_by_scalar(&w[0]), coeff: pt(1) }, DlogSecret { secret: Value::new(w[0]) }),
            &|p, f| match f {
                "public" => {
                    bump(&mut p.public);
                    true
                }
                "coeff" => {
                    bump(&mut p.coeff);
                    true
                }
                _ => false,
            },
        ),
        "aggregate_dlog" => run_case::<AggregateDlog<G>>(
            row,
            idx,
            &|w| {
                let coeff = vec![pt(1), pt(2), pt(3)];
                let mut public = G::zero_point();
                for (c, x) in coeff.iter().zip(w) {
                    public = public.plus_point(&c.mul_by_scalar(x));
                }
                (AggregateDlog { public, coeff }, w.iter().map(|x| Rc::new(*x)).collect())
            },
            &|p, f| match f {
                "public" => {
                    bump(&mut p.public);
                    true
                }
                "coeff_0" => {
                    bump(&mut p.coeff[0]);
                    true
                }
                "coeff_2" => {
                    bump(&mut p.coeff[2]);
                    true
                }
                _ => false,
            },
        ),
        "com_eq" => run_case::<ComEq<G, G>>(
            row,
            idx,
            &|w| {
                let (a, r) = (Value::<G>::new(w[0]), Randomness::<G>::new(w[1]));
                (ComEq { commitment: key.hide(&a, &r), y: pt(3).mul_by_scalar(&w[0]), cmm_key: key, g: pt(3) }, ComEqSecret { r, a })
            },
            &|p, f| match f {
                "commitment" => {
                    bump(&mut p.commitment.0);
                    true
                }
                "y" => {
                    bump(&mut p.y);
                    true
                }
                "cmm_key_g" => {
                    bump(&mut p.cmm_key.g);
                    true
                }
                "cmm_key_h" => {
                    bump(&mut p.cmm_key.h);
                    true
                }
                "g" => {
                    bump(&mut p.g);
                    true
                }
                _ => false,
            },
        ),
        "com_eq_different_groups" => {
            let key2 = CommitmentKey::<BlsG2>::new(pt2(1), pt2(2));
            run_case::<ComEqDiffGroups<G, BlsG2>>(
                row,
                idx,
                &|w| {
                    let (v1, v2) = (Value::<G>::new(w[0]), Value::<BlsG2>::new(w[0]));
                    let (r1, r2) = (Randomness::<G>::new(w[1]), Randomness::<BlsG2>::new(w[2]));
                    (
                        ComEqDiffGroups { commitment_1: key.hide(&v1, &r1), commitment_2: key2.hide(&v2, &r2), cmm_key_1: key, cmm_key_2: key2 },
                        ComEqDiffGroupsSecret { value: v2, rand_cmm_1: r1, rand_cmm_2: r2 },
                    )
                },
                &|p, f| match f {
                    "commitment_1" => {
                        bump(&mut p.commitment_1.0);
                        true
                    }
                    "commitment_2" => {
                        bump(&mut p.commitment_2.0);
                        true
                    }
                    "cmm_key_1" => {
                        bump(&mut p.cmm_key_1.h);
                        true
                    }
                    "cmm_key_2" => {
                        bump(&mut p.cmm_key_2.g);
                        true
                    }
                    _ => false,
                },
            )
        }
        "com_mult" => run_case::<ComMult<G>>(
            row,
            idx,
            &|w| {
                // witness (x1, r1, x2, r2, r3); the third commitment is to x1 * x2
                let mut x3 = w[0];
                x3.mul_assign(&w[2]);
                let vals = [Value::<G>::new(w[0]), Value::<G>::new(w[2])];
                let rands = [Randomness::<G>::new(w[1]), Randomness::<G>::new(w[3]), Randomness::<G>::new(w[4])];
                let cmms = [key.hide(&vals[0], &rands[0]), key.hide(&vals[1], &rands[1]), key.hide(&Value::<G>::new(x3), &rands[2])];
                (ComMult { cmms, cmm_key: key }, ComMultSecret { values: vals, rands })
            },
            &|p, f| match f {
                "cmms_0" => {
                    bump(&mut p.cmms[0].0);
                    true
                }
                "cmms_1" => {
                    bump(&mut p.cmms[1].0);
                    true
                }
                "cmms_2" => {
                    bump(&mut p.cmms[2].0);
                    true
                }
                "cmm_key" => {
                    bump(&mut p.cmm_key.h);
                    true
                }
                _ => false,
            },
        ),
        "com_enc_eq" => {
            let sk = elgamal::SecretKey::<G>::generate(&pt(1), &mut StdRng::seed_from_u64(7));
            let pk = elgamal::PublicKey::from(&sk);
            let key2 = CommitmentKey::<G>::new(pt(4), pt(5));
            run_case::<ComEncEq<G>>(
                row,
                idx,
                &|w| {
                    // witness (x, r_elgamal, r_pedersen)
                    let h = pt(3);
                    let cipher = elgamal::Cipher(pk.generator.mul_by_scalar(&w[1]), pk.key.mul_by_scalar(&w[1]).plus_point(&h.mul_by_scalar(&w[0])));
                    let (x, rp) = (Value::<G>::new(w[0]), Randomness::<G>::new(w[2]));
                    (
                        ComEncEq { cipher, commitment: key2.hide(&x, &rp), pub_key: pk.clone(), cmm_key: key2, encryption_in_exponent_generator: h },
                        ComEncEqSecret { value: x, elgamal_rand: elgamal::Randomness::new(w[1]), pedersen_rand: rp },
                    )
                },
                &|p, f| match f {
                    "cipher_0" => {
                        bump(&mut p.cipher.0);
                        true
                    }
                    "cipher_1" => {
                        bump(&mut p.cipher.1);
                        true
                    }
                    "commitment" => {
                        bump(&mut p.commitment.0);
                        true
                    }
                    "pub_key" => {
                        bump(&mut p.pub_key.key);
                        true
                    }
                    "cmm_key" => {
                        bump(&mut p.cmm_key.g);
                        true
                    }
                    "enc_generator" => {
                        bump(&mut p.encryption_in_exponent_generator);
                        true
                    }
                    _ => false,
                },
            )
        }
        "vcom_eq" => run_case::<VecComEq<G>>(
            row,
            idx,
            &|w| {
                // witness (x1, x2, r, r1): vector commitment to (x1, x2) and a single commitment to x1
                let gis = vec![pt(1), pt(2)];
                let (h, g_bar, h_bar) = (pt(3), pt(4), pt(5));
                let comm = Commitment(gis[0].mul_by_scalar(&w[0]).plus_point(&gis[1].mul_by_scalar(&w[1])).plus_point(&h.mul_by_scalar(&w[2])));
                let mut comms = BTreeMap::new();
                comms.insert(0u8, Commitment(g_bar.mul_by_scalar(&w[0]).plus_point(&h_bar.mul_by_scalar(&w[3]))));
                let mut ris = BTreeMap::new();
                ris.insert(0u8, Value::<G>::new(w[3]));
                (VecComEq { comm, comms, gis, h, g_bar, h_bar }, (vec![w[0], w[1]], Value::<G>::new(w[2]), ris))
            },
            &|p, f| match f {
                "comm" => {
                    bump(&mut p.comm.0);
                    true
                }
                "comms_0" => {
                    bump(&mut p.comms.get_mut(&0).unwrap().0);
                    true
                }
                "gis_0" => {
                    bump(&mut p.gis[0]);
                    true
                }
                "h" => {
                    bump(&mut p.h);
                    true
                }
                "g_bar" => {
                    bump(&mut p.g_bar);
                    true
                }
                "h_bar" => {
                    bump(&mut p.h_bar);
                    true
                }
                _ => false,
            },
        ),
        "com_eq_sig" => {
            use concordium_base::{
                id::constants::IpPairing,
                ps_sig,
                sigma_protocols::com_eq_sig::{ComEqSig, ComEqSigSecret},
            };
            // witness of the model: (rho', mu_1, mu_2, R_1, R_2); the PS key has exactly as many message slots as there are commitments (2); the blinding
            // randomness is drawn by the library (its constructor is not public), so the class of the first component is not controlled
            run_case::<ComEqSig<IpPairing, G>>(
                row,
                idx,
                &|w| {
                    let mut rng = StdRng::seed_from_u64(50_000 + idx);
                    let sk = ps_sig::SecretKey::<IpPairing>::generate(2, &mut rng);
                    let pk = ps_sig::PublicKey::from(&sk);
                    let mask = ps_sig::SigRetrievalRandomness::<IpPairing>::generate_non_zero(&mut rng);
                    let mut to_signer = pk.g.mul_by_scalar(&mask);
                    let mut commitments = Vec::new();
                    let mut secrets = Vec::new();
                    for i in 0..2 {
                        let (v, r) = (Value::<G>::new(w[1 + i]), Randomness::<G>::new(w[3 + i]));
                        to_signer = to_signer.plus_point(&pk.ys[i].mul_by_scalar(&v));
                        commitments.push(key.hide(&v, &r));
                        secrets.push((v, r));
                    }
                    let sig = sk.sign_unknown_message(&ps_sig::UnknownMessage(to_signer), &mut rng).retrieve(&mask);
                    let (blinded_sig, blind_rand) = sig.blind(&mut rng);
                    (ComEqSig { blinded_sig, commitments, ps_pub_key: pk, comm_key: key }, ComEqSigSecret { blind_rand, values_and_rands: secrets })
                },
                &|p, f| match f {
                    "blinded_sig_0" => {
                        bump(&mut p.blinded_sig.sig.0);
                        true
                    }
                    "blinded_sig_1" => {
                        bump(&mut p.blinded_sig.sig.1);
                        true
                    }
                    "commitments_0" => {
                        bump(&mut p.commitments[0].0);
                        true
                    }
                    "commitments_last" => {
                        bump(&mut p.commitments[1].0);
                        true
                    }
                    "ps_pub_key_y_tilda_last" => {
                        let n = p.ps_pub_key.y_tildas.len();
                        p.ps_pub_key.y_tildas[n - 1] = p.ps_pub_key.y_tildas[n - 1].plus_point(&pt2(9));
                        true
                    }
                    "ps_pub_key_x_tilda" => {
                        p.ps_pub_key.x_tilda = p.ps_pub_key.x_tilda.plus_point(&pt2(9));
                        true
                    }
                    "comm_key_h" => {
                        bump(&mut p.comm_key.h);
                        true
                    }
                    _ => false,
                },
            )
        }
        "enc_trans" => {
            use concordium_base::{
                encrypted_transfers::proofs::gen_enc_trans_proof_info,
                sigma_protocols::enc_trans::{EncTrans, EncTransSecret},
            };
            let g = pt(1);
            let h = pt(2);
            let sk_r = elgamal::SecretKey::<G>::generate(&g, &mut StdRng::seed_from_u64(71));
            let pk_r = elgamal::PublicKey::from(&sk_r);
            run_case::<EncTrans<G>>(
                row,
                idx,
                &|w| {
                    // witness of the model: (sk, a1, a2, ra1, ra2, s1, s2, rs1, rs2); a third chunk with fixed non-zero values is added on both sides
                    let mut sk = w[0];
                    if sk.is_zero() {
                        sk = Fr::one();      // an ElGamal secret key is never zero
                    }
                    let pk_s = elgamal::PublicKey { generator: g, key: g.mul_by_scalar(&sk) };
                    let third = (G::scalar_from_u64(0xdead_beef), G::scalar_from_u64(77), G::scalar_from_u64(0x0bad_cafe), G::scalar_from_u64(78));
                    let a = [w[1], w[2], third.0];
                    let ra = [w[3], w[4], third.1];
                    let sp = [w[5], w[6], third.2];
                    let rs = [w[7], w[8], third.3];
                    let enc = |pk: &elgamal::PublicKey<G>, x: &Fr, k: &Fr| elgamal::Cipher(g.mul_by_scalar(k), pk.key.mul_by_scalar(k).plus_point(&h.mul_by_scalar(x)));
                    let ca: Vec<_> = (0..3).map(|i| enc(&pk_r, &a[i], &ra[i])).collect();
                    let cs: Vec<_> = (0..3).map(|i| enc(&pk_s, &sp[i], &rs[i])).collect();
                    // s = sum 2^(32 j) a_j + sum 2^(32 j) s'_j
                    let two32 = G::scalar_from_u64(1 << 32);
                    let mut weight = Fr::one();
                    let mut total = Fr::zero();
                    for i in 0..3 {
                        let mut t = a[i];
                        t.add_assign(&sp[i]);
                        t.mul_assign(&weight);
                        total.add_assign(&t);
                        weight.mul_assign(&two32);
                    }
                    let rho = G::scalar_from_u64(991);
                    let big_s = enc(&pk_s, &total, &rho);
                    let proto = gen_enc_trans_proof_info(&pk_s, &pk_r, &big_s, &ca, &cs, &h);
                    let secret = EncTransSecret {
                        dlog_secret: Rc::new(sk),
                        encexp1_secrets: (0..3).map(|i| ComEqSecret { r: Randomness::new(a[i]), a: Value::new(ra[i]) }).collect(),
                        encexp2_secrets: (0..3).map(|i| ComEqSecret { r: Randomness::new(sp[i]), a: Value::new(rs[i]) }).collect(),
                    };
                    (proto, secret)
                },
                &|p, f| match f {
                    "dlog_public" => {
                        bump(&mut p.dlog.public);
                        true
                    }
                    "elg_dec_public" => {
                        bump(&mut p.elg_dec.public);
                        true
                    }
                    "encexp1_0_commitment" => {
                        bump(&mut p.encexp1[0].commitment.0);
                        true
                    }
                    "encexp2_1_y" => {
                        bump(&mut p.encexp2[1].y);
                        true
                    }
                    _ => false,
                },
            )
        }
        "and_dlog_com_eq" => run_case::<AndAdapter<Dlog<G>, ComEq<G, G>>>(
            row,
            idx,
            &|w| {
                let (a, r) = (Value::<G>::new(w[1]), Randomness::<G>::new(w[2]));
                (
                    AndAdapter { first: Dlog { public: pt(1).mul_by_scalar(&w[0]), coeff: pt(1) }, second: ComEq { commitment: key.hide(&a, &r), y: pt(3).mul_by_scalar(&w[1]), cmm_key: key, g: pt(3) } },
                    (DlogSecret { secret: Value::new(w[0]) }, ComEqSecret { r, a }),
                )
            },
            &|p, f| match f {
                "first_public" => {
                    bump(&mut p.first.public);
                    true
                }
                "second_y" => {
                    bump(&mut p.second.y);
                    true
                }
                "second_commitment" => {
                    bump(&mut p.second.commitment.0);
                    true
                }
                _ => false,
            },
        ),
        "replicate_dlog" => run_case::<ReplicateAdapter<Dlog<G>>>(
            row,
            idx,
            &|w| {
                (
                    ReplicateAdapter { protocols: w.iter().enumerate().map(|(i, x)| Dlog { public: pt(1 + i as u64).mul_by_scalar(x), coeff: pt(1 + i as u64) }).collect() },
                    w.iter().map(|x| DlogSecret { secret: Value::new(*x) }).collect(),
                )
            },
            &|p, f| match f {
                "public_0" => {
                    bump(&mut p.protocols[0].public);
                    true
                }
                "public_last" => {
                    let n = p.protocols.len() - 1;
                    bump(&mut p.protocols[n].public);
                    true
                }
                "swap" => {
                    p.protocols.swap(0, 1);
                    true
                }
                _ => false,
            },
        ),
        o => fail(format!("unknown protocol {}", o), J::Null, J::Null),
    }
}

pub fn main(args: &[String]) -> i32 {
    drive(args, "c07-replay", |v, stats| {
        let kind = v["kind"].as_str().unwrap_or("sigma");
        if kind == "transcript" {
            *stats.entry("transcript".into()).or_default() += 1;
            return run_transcript(v);
        }
        *stats.entry(format!("{}:{}", v["protocol"].as_str().unwrap_or("?"), if v["perturb"] == "none" { "accept" } else { "reject" })).or_default() += 1;
        run_sigma(v, v["idx"].as_u64().unwrap_or(0))
    })
}
