//! C08: IdIssuance.tla behaviours (request an identity with chosen revokers and threshold, create a
//! credential, verify it on chain under perturbations, revoke anonymity with a subset of revokers) on the
//! identity library with real keys.
#![allow(deprecated)]
use crate::util::*;
use concordium_base::{
    common::{
        to_bytes,
        types::{KeyIndex, KeyPair, TransactionTime},
        Deserial,
    },
    contracts_common::{AccountAddress, SignatureThreshold},
    curve_arithmetic::Curve,
    elgamal::{decrypt_from_chunks_given_table, BabyStepGiantStep, Message},
    id::{
        account_holder::{create_credential, generate_id_recovery_request, generate_pio, generate_pio_v1_with_rng},
        anonymity_revoker::{reveal_id_cred_pub, reveal_prf_key},
        chain::{verify_cdi, verify_initial_cdi},
        constants::{ArCurve, AttributeKind, IpPairing},
        identity_provider::{validate_id_recovery_request, verify_credentials, verify_credentials_v1},
        secret_sharing::Threshold,
        test::{test_create_ars, test_create_id_use_data, test_create_ip_info},
        types::*,
    },
};
use either::Either;
use rand::{rngs::StdRng, SeedableRng};
use serde_json::{json, Value as J};
use std::{collections::BTreeMap, io::Cursor};

type Res = Result<(), (String, J, J)>;
fn fail<T>(what: String, exp: J, got: J) -> Result<T, (String, J, J)> { Err((what, exp, got)) }
type Cdi = CredentialDeploymentInfo<IpPairing, ArCurve, AttributeKind>;

const EXPIRY: TransactionTime = TransactionTime { seconds: 111111111111111111 };

fn keys3(rng: &mut StdRng) -> BTreeMap<KeyIndex, KeyPair> {
    let mut keys = BTreeMap::new();
    for i in 0..3u8 {
        keys.insert(KeyIndex(i), KeyPair::generate(rng));
    }
    keys
}

pub fn main(args: &[String]) -> i32 {
    let mut rng0 = StdRng::seed_from_u64(8);
    let global = GlobalContext::<ArCurve>::generate(String::from("vh-base C08"));
    let global2 = GlobalContext::<ArCurve>::generate(String::from("another chain"));
    let IpData { public_ip_info: ip_info, ip_secret_key, ip_cdi_secret_key } = test_create_ip_info(&mut rng0, 4, 10);
    let IpData { public_ip_info: mut ip_info2, .. } = test_create_ip_info(&mut rng0, 4, 10);
    ip_info2.ip_identity = ip_info.ip_identity;
    let (ars_infos_small, ars_secret_small) = test_create_ars(&global.on_chain_commitment_key.g, 5, &mut rng0);
    let (ars_infos_other, _) = test_create_ars(&global.on_chain_commitment_key.g, 5, &mut rng0);
    // the same revokers under identities near 2^32 (used when many shares are combined)
    let big = |i: u32| ArIdentity::new(u32::MAX - 16 + i);
    let ars_infos_big: BTreeMap<ArIdentity, ArInfo<ArCurve>> = ars_infos_small.iter().map(|(k, x)| (big(u32::from(*k)), ArInfo { ar_identity: big(u32::from(*k)), ..x.clone() })).collect();
    let ars_secret_big: BTreeMap<ArIdentity, _> = ars_secret_small.iter().map(|(k, x)| (big(u32::from(*k)), x.clone())).collect();
    // table for the decryption of the 32-bit chunks of the PRF key shares (built on first use)
    let mut table: Option<BabyStepGiantStep<ArCurve>> = None;
    drive(args, "c08-replay", |v, stats| {
        let idx = v["idx"].as_u64().unwrap_or(0);
        let mut rng = StdRng::seed_from_u64(1000 + idx);
        let use_big = v["n"].as_u64().unwrap_or(0) >= 4;
        let (ars_infos, ars_secret) = if use_big { (&ars_infos_big, &ars_secret_big) } else { (&ars_infos_small, &ars_secret_small) };
        let ar_id = |i: u32| if use_big { big(i) } else { ArIdentity::new(i) };
        let max_accounts = v["max_accounts"].as_u64().unwrap() as u8;
        let id_use_data = test_create_id_use_data(&mut rng);
        let mut alist_map = BTreeMap::new();
        alist_map.insert(AttributeTag::from(0u8), AttributeKind::from(55));
        alist_map.insert(AttributeTag::from(8u8), AttributeKind::from(31));
        alist_map.insert(AttributeTag::from(3u8), AttributeKind::from(20200101));
        let valid_to = YearMonth::try_from(2022 << 8 | 5).unwrap();
        let created_at = YearMonth::try_from(2020 << 8 | 5).unwrap();
        let alist: AttributeList<<ArCurve as Curve>::Scalar, AttributeKind> = AttributeList { valid_to, created_at, max_accounts, alist: alist_map, _phantom: Default::default() };
        let ops = v["ops"].as_array().unwrap();
        let req = &ops[0];
        let chosen: Vec<u32> = req["ars"].as_array().unwrap().iter().map(|x| x.as_u64().unwrap() as u32).collect();
        let thr = req["thr"].as_u64().unwrap() as u8;
        let chosen_ids: Vec<ArIdentity> = chosen.iter().map(|i| ar_id(*i)).collect();
        let chosen_infos: BTreeMap<ArIdentity, ArInfo<ArCurve>> = ars_infos.iter().filter(|(k, _)| chosen_ids.contains(*k)).map(|(k, x)| (*k, x.clone())).collect();
        let context = IpContext::new(&ip_info, &chosen_infos, &global);
        // the holder's wallet knows all revokers of the provider: credentials are also created in that wider context
        let context_all = IpContext::new(&ip_info, ars_infos, &global);
        let version = req["version"].as_u64().unwrap();
        *stats.entry(format!("request:v{}:{}of{}", version, thr, chosen.len())).or_default() += 1;
        // ---- request and issuance
        enum IdObj {
            V0(IdentityObject<IpPairing, ArCurve, AttributeKind>),
            V1(IdentityObjectV1<IpPairing, ArCurve, AttributeKind>),
        }
        let threshold = Threshold::try_new(thr).unwrap();
        let id_object = if version == 0 {
            let acc = InitialAccountData { keys: keys3(&mut rng), threshold: SignatureThreshold::TWO };
            let (pio, _) = match generate_pio(&context, threshold, &id_use_data, &acc) {
                Some(x) => x,
                None => return fail("identity request (v0) cannot be generated".into(), json!("request"), J::Null),
            };
            // the provider knows all of its revokers, not only the ones the holder chose
            match verify_credentials(&pio, if idx % 2 == 0 { context_all } else { context }, &alist, EXPIRY, &ip_secret_key, &ip_cdi_secret_key) {
                Ok((sig, icdi)) => {
                    if verify_initial_cdi(&ip_info, &icdi, EXPIRY) != Ok(()) {
                        return fail("initial account credential issued by the provider is accepted by the chain".into(), json!("ok"), json!("rejected"));
                    }
                    IdObj::V0(IdentityObject { pre_identity_object: pio, alist: alist.clone(), signature: sig })
                }
                Err(e) => return fail("identity request (v0) accepted by the provider".into(), json!("ok"), json!(format!("{:?}", e))),
            }
        } else {
            let (pio, _) = match generate_pio_v1_with_rng(&context, threshold, &id_use_data, &mut rng) {
                Some(x) => x,
                None => return fail("identity request (v1) cannot be generated".into(), json!("request"), J::Null),
            };
            match verify_credentials_v1(&pio, if idx % 2 == 0 { context_all } else { context }, &alist, &ip_secret_key) {
                Ok(sig) => IdObj::V1(IdentityObjectV1 { pre_identity_object: pio, alist: alist.clone(), signature: sig }),
                Err(e) => return fail("identity request (v1) accepted by the provider".into(), json!("ok"), json!(format!("{:?}", e))),
            }
        };
        // ---- the remaining operations
        let mut cred: Option<(Cdi, Either<TransactionTime, AccountAddress>, CredentialData)> = None;
        for (n, op) in ops.iter().enumerate().skip(1) {
            let name = op["op"].as_str().unwrap();
            let exp_ok = op["ok"].as_bool().unwrap();
            match name {
                "create" => {
                    let counter = op["counter"].as_u64().unwrap() as u8;
                    let mut policy_vec = BTreeMap::new();
                    for t in op["revealed"].as_array().unwrap() {
                        let tag = AttributeTag::from(t.as_u64().unwrap() as u8);
                        policy_vec.insert(tag, alist.alist[&tag].clone());
                    }
                    let policy = Policy { valid_to, created_at, policy_vec, _phantom: Default::default() };
                    let acc = CredentialData { keys: keys3(&mut rng), threshold: SignatureThreshold::TWO };
                    let noe: Either<TransactionTime, AccountAddress> = if op["account"] == "new" { Either::Left(EXPIRY) } else { Either::Right(AccountAddress([9u8; 32])) };
                    let cctx = if idx % 2 == 1 { context_all } else { context };
                    let r = match &id_object {
                        IdObj::V0(o) => create_credential(cctx, o, &id_use_data, counter, policy, &acc, &SystemAttributeRandomness {}, &noe),
                        IdObj::V1(o) => create_credential(cctx, o, &id_use_data, counter, policy, &acc, &SystemAttributeRandomness {}, &noe),
                    };
                    *stats.entry(format!("create:{}", exp_ok)).or_default() += 1;
                    // within the limit a credential must come out; beyond it the library may refuse (then there is nothing for the chain to check)
                    if exp_ok && r.is_err() {
                        return fail(format!("op {}: a credential with counter {} (limit {}) can be created", n, counter, max_accounts), json!(true), json!(false));
                    }
                    cred = r.ok().map(|(cdi, _)| (cdi, noe, acc));
                }
                "verify" => {
                    let (cdi, noe, acc) = match &cred {
                        Some(c) => (&c.0, &c.1, &c.2),
                        None => continue,
                    };
                    let p = op["perturb"].as_str().unwrap();
                    *stats.entry(format!("verify:{}", p)).or_default() += 1;
                    let check = |c: &Cdi, g: &GlobalContext<ArCurve>, ip: &IpInfo<IpPairing>, ars: &BTreeMap<ArIdentity, ArInfo<ArCurve>>, noe: &Either<TransactionTime, AccountAddress>| verify_cdi(g, ip, ars, c, noe).is_ok();
                    let got = match p {
                        "none" => check(cdi, &global, &ip_info, ars_infos, noe),
                        "other_ip" => check(cdi, &global, &ip_info2, ars_infos, noe),
                        "other_global" => check(cdi, &global2, &ip_info, ars_infos, noe),
                        "other_ar_key" => {
                            let mut ars = ars_infos.clone();
                            let k = ar_id(chosen[0]);
                            ars.get_mut(&k).unwrap().ar_public_key = ars_infos_other[&ArIdentity::new(chosen[0])].ar_public_key.clone();
                            check(cdi, &global, &ip_info, &ars, noe)
                        }
                        "other_address" => check(cdi, &global, &ip_info, ars_infos, &Either::Right(AccountAddress([10u8; 32]))),
                        "expiry_passed" => check(cdi, &global, &ip_info, ars_infos, &Either::Left(TransactionTime { seconds: EXPIRY.seconds + 1 })),
                        "swap_ar_data" => {
                            let mut c2 = cdi.clone();
                            let (a, b) = (ar_id(chosen[0]), ar_id(chosen[1]));
                            let (xa, xb) = (c2.values.ar_data[&a].clone(), c2.values.ar_data[&b].clone());
                            *c2.values.ar_data.get_mut(&a).unwrap() = xb;
                            *c2.values.ar_data.get_mut(&b).unwrap() = xa;
                            check(&c2, &global, &ip_info, ars_infos, noe)
                        }
                        "extra_sharing_coeff" => {
                            let mut unsigned = UnsignedCredentialDeploymentInfo { values: cdi.values.clone(), proofs: cdi.proofs.id_proofs.clone() };
                            unsigned.proofs.commitments.cmm_id_cred_sec_sharing_coeff.push(concordium_base::pedersen_commitment::Commitment(ArCurve::zero_point()));
                            let c2 = Cdi {
                                values: unsigned.values.clone(),
                                proofs: CredDeploymentProofs { id_proofs: unsigned.proofs.clone(), proof_acc_sk: AccountOwnershipProof { sigs: acc.sign(noe, &unsigned) } },
                            };
                            check(&c2, &global, &ip_info, ars_infos, noe)
                        }
                        "bitflips" => {
                            // single-bit perturbations spread over the whole encoding (positions vary with the behaviour)
                            let bytes = to_bytes(cdi);
                            let mut accepted: Option<usize> = None;
                            for k in 0..10u64 {
                                let pos = ((idx * 7919 + k * 104729 + 13) % (bytes.len() as u64 * 8)) as usize;
                                let mut b = bytes.clone();
                                b[pos / 8] ^= 1 << (pos % 8);
                                *stats.entry("bitflip".into()).or_default() += 1;
                                if let Ok(c2) = Cdi::deserial(&mut Cursor::new(&b[..])) {
                                    if to_bytes(&c2) == b && check(&c2, &global, &ip_info, ars_infos, noe) {
                                        accepted = Some(pos);
                                    }
                                }
                            }
                            if let Some(pos) = accepted {
                                return fail(format!("op {}: credential with bit {} of its encoding flipped is accepted by the chain", n, pos), json!(false), json!(true));
                            }
                            false
                        }
                        o => return fail(format!("unknown perturbation {}", o), J::Null, J::Null),
                    };
                    if got != exp_ok {
                        return fail(format!("op {}: chain verification under perturbation '{}'", n, p), json!(exp_ok), json!(got));
                    }
                }
                "revoke" => {
                    let cdi = match &cred {
                        Some(c) => &c.0,
                        None => continue,
                    };
                    let set: Vec<u32> = op["revokers"].as_array().unwrap().iter().map(|x| x.as_u64().unwrap() as u32).collect();
                    let mut shares: Vec<(ArIdentity, Message<ArCurve>)> = Vec::new();
                    for a in set.iter() {
                        let id = ar_id(*a);
                        let data = match cdi.values.ar_data.get(&id) {
                            Some(d) => d,
                            None => return fail(format!("op {}: chosen revoker {} has no share in the credential", n, a), J::Null, J::Null),
                        };
                        shares.push((id, ars_secret[&id].decrypt(&data.enc_id_cred_pub_share)));
                    }
                    let revealed = reveal_id_cred_pub(&shares);
                    let real = global.on_chain_commitment_key.g.mul_by_scalar(&id_use_data.aci.cred_holder_info.id_cred.id_cred_sec);
                    *stats.entry(format!("revoke:{}", exp_ok)).or_default() += 1;
                    if (revealed == real) != exp_ok {
                        return fail(format!("op {}: {} of {} revokers (threshold {}) reconstruct the public identity credential", n, set.len(), chosen.len(), thr), json!(exp_ok), json!(revealed == real));
                    }
                    if cdi.values.threshold != threshold {
                        return fail("revocation threshold recorded in the credential".into(), json!(thr), J::Null);
                    }
                }
                "recover" => {
                    // identity recovery: the holder proves knowledge of idCredSec to the provider, bound to provider, chain and time
                    let p = op["perturb"].as_str().unwrap();
                    *stats.entry(format!("recover:{}", p)).or_default() += 1;
                    let ts = 1_700_000_000u64 + idx;
                    let mut req = match generate_id_recovery_request(&ip_info, &global, &id_use_data.aci.cred_holder_info.id_cred.id_cred_sec, ts) {
                        Some(r) => r,
                        None => return fail(format!("op {}: a recovery request can be generated", n), json!("request"), J::Null),
                    };
                    let real = global.on_chain_commitment_key.g.mul_by_scalar(&id_use_data.aci.cred_holder_info.id_cred.id_cred_sec);
                    if req.id_cred_pub != real {
                        return fail(format!("op {}: the recovery request names the holder's public identity credential", n), J::Null, J::Null);
                    }
                    let mut ip_other_identity = ip_info.clone();
                    ip_other_identity.ip_identity = IpIdentity::from(ip_info.ip_identity.0 + 1);
                    let got = match p {
                        "none" => validate_id_recovery_request(&ip_info, &global, &req),
                        "other_ip_identity" => validate_id_recovery_request(&ip_other_identity, &global, &req),
                        "other_ip_key" => validate_id_recovery_request(&ip_info2, &global, &req),
                        "other_global" => validate_id_recovery_request(&ip_info, &global2, &req),
                        "timestamp" => {
                            req.timestamp += 1;
                            validate_id_recovery_request(&ip_info, &global, &req)
                        }
                        "id_cred_pub" => {
                            req.id_cred_pub = req.id_cred_pub.plus_point(&global.on_chain_commitment_key.g);
                            validate_id_recovery_request(&ip_info, &global, &req)
                        }
                        "proof" => {
                            let mut b = to_bytes(&req);
                            let k = b.len() - 1 - (idx as usize % 60);
                            b[k] ^= 1;
                            match IdRecoveryRequest::<ArCurve>::deserial(&mut Cursor::new(&b[..])) {
                                Ok(r2) => validate_id_recovery_request(&ip_info, &global, &r2),
                                Err(_) => false,
                            }
                        }
                        o => return fail(format!("unknown perturbation {}", o), J::Null, J::Null),
                    };
                    if got != exp_ok {
                        return fail(format!("op {}: provider validation of the recovery request under perturbation '{}'", n, p), json!(exp_ok), json!(got));
                    }
                }
                "revoke_prf" => {
                    // the revokers decrypt their shares of the PRF key from the identity object request held by the provider
                    let set: Vec<u32> = op["revokers"].as_array().unwrap().iter().map(|x| x.as_u64().unwrap() as u32).collect();
                    let ar_data = match &id_object {
                        IdObj::V0(o) => &o.pre_identity_object.ip_ar_data,
                        IdObj::V1(o) => &o.pre_identity_object.ip_ar_data,
                    };
                    let t = table.get_or_insert_with(|| BabyStepGiantStep::new(global.encryption_in_exponent_generator(), 1 << 16));
                    let mut shares = Vec::new();
                    for a in set.iter() {
                        let id = ar_id(*a);
                        let data = match ar_data.get(&id) {
                            Some(d) => d,
                            None => return fail(format!("op {}: chosen revoker {} has no PRF key share in the identity request", n, a), J::Null, J::Null),
                        };
                        shares.push((id, decrypt_from_chunks_given_table(&ars_secret[&id], &data.enc_prf_key_share, t, CHUNK_SIZE)));
                    }
                    let revealed = reveal_prf_key(&shares);
                    let real: <ArCurve as Curve>::Scalar = *id_use_data.aci.prf_key.as_ref();
                    *stats.entry(format!("revoke_prf:{}", exp_ok)).or_default() += 1;
                    if (revealed == real) != exp_ok {
                        return fail(format!("op {}: {} of {} revokers (threshold {}) reconstruct the PRF key", n, set.len(), chosen.len(), thr), json!(exp_ok), json!(revealed == real));
                    }
                }
                o => return fail(format!("unknown op {}", o), J::Null, J::Null),
            }
        }
        Ok(())
    })
}
