//! C18: Statements.tla rows (attribute list, statement atoms, perturbation) on Statement prove / verify over
//! commitments to the attributes of an account credential.
#![allow(deprecated)]
use crate::util::*;
use concordium_base::{
    common::{to_bytes, Deserial},
    curve_arithmetic::Curve,
    id::{
        constants::{ArCurve, AttributeKind},
        id_proof_types::{
            AtomicStatement, AttributeInRangeStatement, AttributeInSetStatement, AttributeNotInSetStatement, Proof, ProofVersion, RevealAttributeStatement, Statement, StatementWithContext,
        },
        types::{Attribute, AttributeList, AttributeTag, CredentialDeploymentCommitments, GlobalContext, HasAttributeRandomness, YearMonth},
    },
    pedersen_commitment::{Randomness, Value},
};
use rand::{rngs::StdRng, SeedableRng};
use serde_json::{json, Value as J};
use std::{
    collections::{BTreeMap, BTreeSet},
    io::Cursor,
};

type G = ArCurve;
fn fail<T>(what: String, exp: J, got: J) -> Result<T, (String, J, J)> { Err((what, exp, got)) }

struct Rands(BTreeMap<AttributeTag, Randomness<G>>);
impl HasAttributeRandomness<G> for Rands {
    type ErrorType = std::fmt::Error;

    fn get_attribute_commitment_randomness(&self, tag: &AttributeTag) -> Result<Randomness<G>, Self::ErrorType> { self.0.get(tag).cloned().ok_or(std::fmt::Error) }
}

/// Verifiable presentations (web3id): the same atoms inside a request with a context, about an account credential or a web3 credential.
fn run_presentation(v: &J, global: &GlobalContext<G>, idx: u64, stats: &mut std::collections::BTreeMap<String, u64>) -> Result<(), (String, J, J)> {
    use concordium_base::{
        base::CredentialRegistrationID,
        contracts_common::ContractAddress,
        id::types::IpIdentity,
        web3id::{did::Network, Challenge, CommitmentInputs, CredentialHolderId, CredentialProof, CredentialStatement, CredentialsInputs, Presentation, Request, SignedCommitments, Web3IdAttribute},
    };
    let mut rng = StdRng::seed_from_u64(idx + 1800);
    let key = global.on_chain_commitment_key;
    let vals: Vec<String> = v["vals"].as_array().unwrap().iter().map(|s| s.as_str().unwrap().to_string()).collect();
    let attr = |i: &J| Web3IdAttribute::String(AttributeKind::try_new(vals[i.as_u64().unwrap() as usize - 1].clone()).unwrap());
    let mixed = v["via"] == "mixed_presentation";
    let web3 = v["via"] == "web3_presentation" || mixed;
    let perturb = v["perturb"].as_str().unwrap();
    let accept = v["accept"].as_bool().unwrap();
    let truth = v["truth"].as_bool().unwrap();
    *stats.entry(format!("{}:{}", v["via"].as_str().unwrap(), if accept { "accept" } else if truth { "perturbed" } else { "false" })).or_default() += 1;
    // attribute values, randomness and commitments under numeric tags (account) and string tags (web3)
    let mut vals_tag = BTreeMap::new();
    let mut rand_tag = BTreeMap::new();
    let mut cmm_tag = BTreeMap::new();
    let mut vals_str = BTreeMap::new();
    let mut rand_str = BTreeMap::new();
    for (t, i) in v["attrs"].as_object().unwrap() {
        let a = attr(i);
        let (c, r) = key.commit(&Value::<G>::new(a.to_field_element()), &mut rng);
        let tag = AttributeTag(t.parse::<u8>().unwrap());
        vals_tag.insert(tag, a.clone());
        rand_tag.insert(tag, r.clone());
        cmm_tag.insert(tag, c);
        vals_str.insert(t.clone(), a);
        rand_str.insert(t.clone(), r);
    }
    let mk_set = |a: &J| -> BTreeSet<Web3IdAttribute> { a["set"].as_array().unwrap().iter().map(attr).collect() };
    fn atom<T: Clone + concordium_base::common::Serialize>(a: &J, tag: T, attr: &dyn Fn(&J) -> Web3IdAttribute, set: &dyn Fn(&J) -> BTreeSet<Web3IdAttribute>) -> AtomicStatement<G, T, Web3IdAttribute> {
        match a["k"].as_str().unwrap() {
            "reveal" => AtomicStatement::RevealAttribute { statement: RevealAttributeStatement { attribute_tag: tag } },
            "in_range" => AtomicStatement::AttributeInRange { statement: AttributeInRangeStatement { attribute_tag: tag, lower: attr(&a["lo"]), upper: attr(&a["hi"]), _phantom: Default::default() } },
            "in_set" => AtomicStatement::AttributeInSet { statement: AttributeInSetStatement { attribute_tag: tag, set: set(a), _phantom: Default::default() } },
            _ => AtomicStatement::AttributeNotInSet { statement: AttributeNotInSetStatement { attribute_tag: tag, set: set(a), _phantom: Default::default() } },
        }
    }
    let holder_key = ed25519_dalek::SigningKey::from_bytes(&[7u8; 32]);
    let other_key = ed25519_dalek::SigningKey::from_bytes(&[8u8; 32]);
    let issuer_key = ed25519_dalek::SigningKey::from_bytes(&[9u8; 32]);
    let holder_id = CredentialHolderId::new(holder_key.verifying_key());
    let contract = ContractAddress::new(1337, 42);
    let cred_id = CredentialRegistrationID::from_exponent(global, G::scalar_from_u64(4711));
    let ty: BTreeSet<String> = ["VerifiableCredential".to_string(), "ConcordiumVerifiableCredential".to_string()].into_iter().collect();
    let make_request = |stmt: &J, challenge: [u8; 32]| -> Request<G, Web3IdAttribute> {
        let cs = if web3 {
            CredentialStatement::Web3Id {
                ty: ty.clone(),
                network: Network::Testnet,
                contract,
                credential: holder_id,
                statement: stmt.as_array().unwrap().iter().map(|a| atom(a, a["tag"].as_u64().unwrap().to_string(), &attr, &mk_set)).collect(),
            }
        } else {
            CredentialStatement::Account {
                network: Network::Testnet,
                cred_id,
                statement: stmt.as_array().unwrap().iter().map(|a| atom(a, AttributeTag(a["tag"].as_u64().unwrap() as u8), &attr, &mk_set)).collect(),
            }
        };
        let mut all = vec![cs];
        if mixed {
            // a second credential in the same presentation: an account credential revealing attribute 0
            all.push(CredentialStatement::Account {
                network: Network::Testnet,
                cred_id,
                statement: vec![AtomicStatement::RevealAttribute { statement: RevealAttributeStatement { attribute_tag: AttributeTag(0) } }],
            });
        }
        Request { challenge: Challenge::new(challenge), credential_statements: all }
    };
    let signature = if web3 {
        match SignedCommitments::from_secrets(global, &vals_str, &rand_str, &holder_id, &issuer_key, contract) {
            Some(sc) => sc.signature,
            None => return fail("issuer cannot sign the commitments".into(), J::Null, J::Null),
        }
    } else {
        ed25519_dalek::Signature::from_bytes(&[0u8; 64])
    };
    let prove = |req: Request<G, Web3IdAttribute>, rng: &mut StdRng| {
        let inputs: CommitmentInputs<'_, G, Web3IdAttribute, ed25519_dalek::SigningKey> = if web3 {
            CommitmentInputs::Web3Issuer { signature, signer: &holder_key, values: &vals_str, randomness: &rand_str }
        } else {
            CommitmentInputs::Account { issuer: IpIdentity::from(17u32), values: &vals_tag, randomness: &rand_tag }
        };
        let mut all = vec![inputs];
        if mixed {
            all.push(CommitmentInputs::Account { issuer: IpIdentity::from(17u32), values: &vals_tag, randomness: &rand_tag });
        }
        req.prove_with_rng(global, all.into_iter(), rng, chrono::DateTime::<chrono::Utc>::from_timestamp(1_700_000_000, 0).unwrap())
    };
    let request = make_request(&v["stmt"], [1u8; 32]);
    let what = |s: &str| format!("{} of statement {} over attributes {} (perturbation {}): {}", v["via"], v["stmt"], v["attrs"], perturb, s);
    let mut pres: Presentation<G, Web3IdAttribute> = match prove(make_request(&v["stmt"], [1u8; 32]), &mut rng) {
        Ok(p) => p,
        Err(_) => {
            if accept {
                return fail(what("no presentation for a provable statement"), json!("presentation"), J::Null);
            }
            return Ok(());
        }
    };
    let mut public = if web3 { CredentialsInputs::Web3 { issuer_pk: issuer_key.verifying_key().into() } } else { CredentialsInputs::Account { commitments: cmm_tag.clone() } };
    let mut public_second: Option<CredentialsInputs<G>> = if mixed { Some(CredentialsInputs::Account { commitments: cmm_tag.clone() }) } else { None };
    // a second presentation (another context, and a statement that is always provable) to borrow parts from
    let foreign = prove(make_request(&json!([{"k": "reveal", "tag": 0}]), [2u8; 32]), &mut rng).ok();
    match perturb {
        "none" => {}
        "context" => pres.presentation_context = Challenge::new([3u8; 32]),
        "public_data" => {
            public = if web3 {
                CredentialsInputs::Web3 { issuer_pk: other_key.verifying_key().into() }
            } else {
                let mut c = cmm_tag.clone();
                for x in c.values_mut() {
                    x.0 = x.0.plus_point(&key.g);
                }
                CredentialsInputs::Account { commitments: c }
            }
        }
        "credential_id" => match &mut pres.verifiable_credential[0] {
            // an account credential is identified on chain: the verifier looks its commitments up by the id in the presentation (the proof itself does not
            // mention the id), so naming another credential means being checked against that credential's commitments - here one holding the SAME attribute
            // values under other randomness
            CredentialProof::Account { cred_id, .. } => {
                *cred_id = CredentialRegistrationID::from_exponent(global, G::scalar_from_u64(4712));
                let mut c = BTreeMap::new();
                for (t, a) in vals_tag.iter() {
                    c.insert(*t, key.commit(&Value::<G>::new(a.to_field_element()), &mut rng).0);
                }
                public = CredentialsInputs::Account { commitments: c };
            }
            CredentialProof::Web3Id { holder, .. } => *holder = CredentialHolderId::new(other_key.verifying_key()),
        },
        "statement" => {
            // the verifier reads the statement out of the presentation: replace the atom by a neighbouring one, keep the proof
            let a0 = &v["stmt"][0];
            let mut a = a0.clone();
            match a0["k"].as_str().unwrap() {
                "reveal" => return Ok(()),
                "in_range" => {
                    let hi = a0["hi"].as_u64().unwrap();
                    a["hi"] = json!(if (hi as usize) < vals.len() { hi + 1 } else { hi - 1 });
                }
                _ => {
                    let mut s: Vec<u64> = a0["set"].as_array().unwrap().iter().map(|x| x.as_u64().unwrap()).collect();
                    s.push(3);
                    a["set"] = json!(s);
                }
            }
            match &mut pres.verifiable_credential[0] {
                CredentialProof::Account { proofs, .. } => proofs[0].0 = atom(&a, AttributeTag(a["tag"].as_u64().unwrap() as u8), &attr, &mk_set),
                CredentialProof::Web3Id { proofs, .. } => proofs[0].0 = atom(&a, a["tag"].as_u64().unwrap().to_string(), &attr, &mk_set),
            }
        }
        "foreign_proof" => match (foreign, &mut pres.verifiable_credential[0]) {
            (Some(f), mine) => {
                let theirs = f.verifiable_credential.into_iter().next().unwrap();
                *mine = theirs;
            }
            _ => return Ok(()),
        },
        "proof_truncated" => match &mut pres.verifiable_credential[0] {
            CredentialProof::Account { proofs, .. } => {
                proofs.pop();
            }
            CredentialProof::Web3Id { proofs, .. } => {
                proofs.pop();
            }
        },
        // the account credential travelling with the web3 credential is altered / removed: the holder's signature covers it
        "other_part" => match &mut pres.verifiable_credential[1] {
            CredentialProof::Account { issuer, .. } => *issuer = IpIdentity::from(18u32),
            _ => return fail("harness: second credential is not an account credential".into(), J::Null, J::Null),
        },
        "other_part_removed" => {
            pres.verifiable_credential.pop();
            public_second = None;
        }
        "foreign_linking" => match foreign {
            Some(f) => pres.linking_proof = f.linking_proof,
            None => return Ok(()),
        },
        o => return fail(format!("unknown perturbation {}", o), J::Null, J::Null),
    }
    let mut publics = vec![public];
    if let Some(p2) = public_second {
        publics.push(p2);
    }
    let got = pres.verify(global, publics.iter());
    let ok = match &got {
        Ok(r) => *r == request || perturb != "none",
        Err(_) => false,
    };
    // account presentations carry no linking signatures: borrowing an (empty) linking proof changes nothing
    let vacuous = !web3 && perturb == "foreign_linking";
    if perturb == "proof_truncated" {
        // a presentation carries its statements next to their proofs: dropping a pair leaves a valid presentation of FEWER statements, which the verifier
        // notices because the request that comes back is not the one it made
        return match &got {
            Ok(r) if *r == request => fail(what("presentation with a (statement, proof) pair removed verifies for the original request"), json!(false), json!(true)),
            _ => Ok(()),
        };
    }
    if got.is_ok() != accept && !(vacuous && truth) {
        return fail(what("verifies exactly when the statement is provable and nothing was altered"), json!(accept), json!(got.is_ok()));
    }
    if accept && !ok {
        return fail(what("verification returns the request the presentation was made for"), J::Null, J::Null);
    }
    Ok(())
}

pub fn main(args: &[String]) -> i32 {
    let global = GlobalContext::<G>::generate(String::from("vh-base C18"));
    let key = global.on_chain_commitment_key;
    drive(args, "c18-replay", |v, stats| {
        let idx = v["idx"].as_u64().unwrap_or(0);
        if v["via"] != "commitments" {
            return run_presentation(v, &global, idx, stats);
        }
        let mut rng = StdRng::seed_from_u64(idx + 18);
        let vals: Vec<String> = v["vals"].as_array().unwrap().iter().map(|s| s.as_str().unwrap().to_string()).collect();
        let attr = |i: &J| AttributeKind::try_new(vals[i.as_u64().unwrap() as usize - 1].clone()).unwrap();
        let mut alist_map = BTreeMap::new();
        let mut rands = BTreeMap::new();
        let mut cmms = BTreeMap::new();
        for (t, i) in v["attrs"].as_object().unwrap() {
            let tag = AttributeTag(t.parse::<u8>().unwrap());
            let a = attr(i);
            let (c, r) = key.commit(&Value::<G>::new(a.to_field_element()), &mut rng);
            alist_map.insert(tag, a);
            rands.insert(tag, r);
            cmms.insert(tag, c);
        }
        let alist: AttributeList<<G as Curve>::Scalar, AttributeKind> =
            AttributeList { valid_to: YearMonth::try_from(2030 << 8 | 5).unwrap(), created_at: YearMonth::try_from(2020 << 8 | 5).unwrap(), max_accounts: 10, alist: alist_map.clone(), _phantom: Default::default() };
        let dummy = key.commit(&Value::<G>::new(G::scalar_from_u64(1)), &mut rng).0;
        let commitments = CredentialDeploymentCommitments::<G> { cmm_prf: dummy, cmm_cred_counter: dummy, cmm_max_accounts: dummy, cmm_attributes: cmms.clone(), cmm_id_cred_sec_sharing_coeff: vec![dummy] };
        let mk_set = |a: &J| -> BTreeSet<AttributeKind> { a["set"].as_array().unwrap().iter().map(attr).collect() };
        let atom_of = |a: &J| -> AtomicStatement<G, AttributeTag, AttributeKind> {
            let tag = AttributeTag(a["tag"].as_u64().unwrap() as u8);
            match a["k"].as_str().unwrap() {
                "reveal" => AtomicStatement::RevealAttribute { statement: RevealAttributeStatement { attribute_tag: tag } },
                "in_range" => AtomicStatement::AttributeInRange { statement: AttributeInRangeStatement { attribute_tag: tag, lower: attr(&a["lo"]), upper: attr(&a["hi"]), _phantom: Default::default() } },
                "in_set" => AtomicStatement::AttributeInSet { statement: AttributeInSetStatement { attribute_tag: tag, set: mk_set(a), _phantom: Default::default() } },
                _ => AtomicStatement::AttributeNotInSet { statement: AttributeNotInSetStatement { attribute_tag: tag, set: mk_set(a), _phantom: Default::default() } },
            }
        };
        let atoms: Vec<_> = v["stmt"].as_array().unwrap().iter().map(atom_of).collect();
        let cred_id = G::hash_to_group(b"credential").unwrap();
        let stmt = StatementWithContext { credential: cred_id, statement: Statement { statements: atoms } };
        let perturb = v["perturb"].as_str().unwrap();
        let (truth, accept) = (v["truth"].as_bool().unwrap(), v["accept"].as_bool().unwrap());
        let version = if idx % 2 == 0 { ProofVersion::Version1 } else { ProofVersion::Version2 };
        let kinds: Vec<&str> = v["stmt"].as_array().unwrap().iter().map(|a| a["k"].as_str().unwrap()).collect();
        *stats.entry(format!("{}:{}", kinds.join("+"), if accept { "accept" } else if truth { "perturbed" } else { "false" })).or_default() += 1;
        let proof = stmt.prove(version, &global, b"challenge-a", &alist, &Rands(rands.clone()));
        let what = |s: &str| format!("statement {} over attributes {} ({:?}, perturbation {}): {}", v["stmt"], v["attrs"], version, perturb, s);
        let proof: Proof<G, AttributeKind> = match proof {
            Some(p) => p,
            None => {
                if accept {
                    return fail(what("no proof for a true statement"), json!("proof"), J::Null);
                }
                return Ok(());
            }
        };
        let mut stmt2 = StatementWithContext { credential: stmt.credential, statement: stmt.statement.clone() };
        let mut commitments2 = CredentialDeploymentCommitments::<G> { cmm_attributes: cmms.clone(), cmm_id_cred_sec_sharing_coeff: vec![dummy], ..commitments };
        let mut challenge: &[u8] = b"challenge-a";
        let mut version2 = version;
        let mut proof2 = proof.clone();
        match perturb {
            "none" => {}
            "challenge" => challenge = b"challenge-b",
            "credential" => stmt2.credential = G::hash_to_group(b"another credential").unwrap(),
            "commitments" => {
                for c in commitments2.cmm_attributes.values_mut() {
                    c.0 = c.0.plus_point(&key.g);
                }
            }
            "statement" => {
                // the same kind of atom about another attribute / bound / set
                let a0 = &v["stmt"][0];
                let mut a = a0.clone();
                match a0["k"].as_str().unwrap() {
                    "reveal" => a["tag"] = json!(if a0["tag"] == 0 { 8 } else { 0 }),
                    "in_range" => {
                        let hi = a0["hi"].as_u64().unwrap();
                        a["hi"] = json!(if (hi as usize) < vals.len() { hi + 1 } else { hi - 1 });
                    }
                    _ => {
                        let mut s: Vec<u64> = a0["set"].as_array().unwrap().iter().map(|x| x.as_u64().unwrap()).collect();
                        s.push(3);
                        a["set"] = json!(s);
                    }
                }
                stmt2.statement.statements[0] = atom_of(&a);
            }
            "proof" => {
                let mut b = to_bytes(&proof);
                let k = b.len() - 3;
                b[k] ^= 1;
                match Proof::<G, AttributeKind>::deserial(&mut Cursor::new(&b[..])) {
                    Ok(p) => proof2 = p,
                    Err(_) => return Ok(()),
                }
            }
            "proof_truncated" => {
                proof2.proofs.pop();
            }
            "version" => version2 = if version == ProofVersion::Version1 { ProofVersion::Version2 } else { ProofVersion::Version1 },
            o => return fail(format!("unknown perturbation {}", o), J::Null, J::Null),
        }
        let got = stmt2.verify(version2, challenge, &global, &commitments2, &proof2);
        // a reveal-only statement does not depend on the bulletproof version
        let version_irrelevant = perturb == "version" && kinds.iter().all(|k| *k == "reveal");
        if got != accept && !(version_irrelevant && truth) {
            return fail(what("verifies exactly when every atom is true and nothing was altered"), json!(accept), json!(got));
        }
        Ok(())
    })
}
