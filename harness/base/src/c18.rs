//! C18: Statements.tla rows (attribute list, statement atoms, perturbation) on Statement prove / verify over
//! commitments to the attributes of an account credential.
#![allow(deprecated)]
use crate::util::*;
use concordium_base::{
    common::{to_bytes, Deserial},
    curve_arithmetic::Curve,
    id::{
        constants::{ArCurve, AttributeKind},
        id_proof_types::{
            AtomicStatement, AttributeInRangeStatement, AttributeInSetStatement, AttributeNotInSetStatement, Proof, ProofVersion, RevealAttributeStatement, Statement, StatementWithContext,
        },
        types::{Attribute, AttributeList, AttributeTag, CredentialDeploymentCommitments, GlobalContext, HasAttributeRandomness, YearMonth},
    },
    pedersen_commitment::{Randomness, Value},
};
use rand::{rngs::StdRng, SeedableRng};
use serde_json::{json, Value as J};
use std::{
    collections::{BTreeMap, BTreeSet},
    io::Cursor,
};

type G = ArCurve;
fn fail<T>(what: String, exp: J, got: J) -> Result<T, (String, J, J)> { Err((what, exp, got)) }

struct Rands(BTreeMap<AttributeTag, Randomness<G>>);
impl HasAttributeRandomness<G> for Rands {
    type ErrorType = std::fmt::Error;

    fn get_attribute_commitment_randomness(&self, tag: &AttributeTag) -> Result<Randomness<G>, Self::ErrorType> { self.0.get(tag).cloned().ok_or(std::fmt::Error) }
}

pub fn main(args: &[String]) -> i32 {
    let global = GlobalContext::<G>::generate(String::from("vh-base C18"));
    let key = global.on_chain_commitment_key;
    drive(args, "c18-replay", |v, stats| {
        let idx = v["idx"].as_u64().unwrap_or(0);
        let mut rng = StdRng::seed_from_u64(idx + 18);
        let vals: Vec<String> = v["vals"].as_array().unwrap().iter().map(|s| s.as_str().unwrap().to_string()).collect();
        let attr = |i: &J| AttributeKind::try_new(vals[i.as_u64().unwrap() as usize - 1].clone()).unwrap();
        let mut alist_map = BTreeMap::new();
        let mut rands = BTreeMap::new();
        let mut cmms = BTreeMap::new();
        for (t, i) in v["attrs"].as_object().unwrap() {
            let tag = AttributeTag(t.parse::<u8>().unwrap());
            let a = attr(i);
            let (c, r) = key.commit(&Value::<G>::new(a.to_field_element()), &mut rng);
            alist_map.insert(tag, a);
            rands.insert(tag, r);
            cmms.insert(tag, c);
        }
        let alist: AttributeList<<G as Curve>::Scalar, AttributeKind> =
            AttributeList { valid_to: YearMonth::try_from(2030 << 8 | 5).unwrap(), created_at: YearMonth::try_from(2020 << 8 | 5).unwrap(), max_accounts: 10, alist: alist_map.clone(), _phantom: Default::default() };
        let dummy = key.commit(&Value::<G>::new(G::scalar_from_u64(1)), &mut rng).0;
        let commitments = CredentialDeploymentCommitments::<G> { cmm_prf: dummy, cmm_cred_counter: dummy, cmm_max_accounts: dummy, cmm_attributes: cmms.clone(), cmm_id_cred_sec_sharing_coeff: vec![dummy] };
        let mk_set = |a: &J| -> BTreeSet<AttributeKind> { a["set"].as_array().unwrap().iter().map(attr).collect() };
        let atom_of = |a: &J| -> AtomicStatement<G, AttributeTag, AttributeKind> {
            let tag = AttributeTag(a["tag"].as_u64().unwrap() as u8);
            match a["k"].as_str().unwrap() {
                "reveal" => AtomicStatement::RevealAttribute { statement: RevealAttributeStatement { attribute_tag: tag } },
                "in_range" => AtomicStatement::AttributeInRange { statement: AttributeInRangeStatement { attribute_tag: tag, lower: attr(&a["lo"]), upper: attr(&a["hi"]), _phantom: Default::default() } },
                "in_set" => AtomicStatement::AttributeInSet { statement: AttributeInSetStatement { attribute_tag: tag, set: mk_set(a), _phantom: Default::default() } },
                _ => AtomicStatement::AttributeNotInSet { statement: AttributeNotInSetStatement { attribute_tag: tag, set: mk_set(a), _phantom: Default::default() } },
            }
        };
        let atoms: Vec<_> = v["stmt"].as_array().unwrap().iter().map(atom_of).collect();
        let cred_id = G::hash_to_group(b"credential").unwrap();
        let stmt = StatementWithContext { credential: cred_id, statement: Statement { statements: atoms } };
        let perturb = v["perturb"].as_str().unwrap();
        let (truth, accept) = (v["truth"].as_bool().unwrap(), v["accept"].as_bool().unwrap());
        let version = if idx % 2 == 0 { ProofVersion::Version1 } else { ProofVersion::Version2 };
        let kinds: Vec<&str> = v["stmt"].as_array().unwrap().iter().map(|a| a["k"].as_str().unwrap()).collect();
        *stats.entry(format!("{}:{}", kinds.join("+"), if accept { "accept" } else if truth { "perturbed" } else { "false" })).or_default() += 1;
        let proof = stmt.prove(version, &global, b"challenge-a", &alist, &Rands(rands.clone()));
        let what = |s: &str| format!("statement {} over attributes {} ({:?}, perturbation {}): {}", v["stmt"], v["attrs"], version, perturb, s);
        let proof: Proof<G, AttributeKind> = match proof {
            Some(p) => p,
            None => {
                if accept {
                    return fail(what("no proof for a true statement"), json!("proof"), J::Null);
                }
                return Ok(());
            }
        };
        let mut stmt2 = StatementWithContext { credential: stmt.credential, statement: stmt.statement.clone() };
        let mut commitments2 = CredentialDeploymentCommitments::<G> { cmm_attributes: cmms.clone(), cmm_id_cred_sec_sharing_coeff: vec![dummy], ..commitments };
        let mut challenge: &[u8] = b"challenge-a";
        let mut version2 = version;
        let mut proof2 = proof.clone();
        match perturb {
            "none" => {}
            "challenge" => challenge = b"challenge-b",
            "credential" => stmt2.credential = G::hash_to_group(b"another credential").unwrap(),
            "commitments" => {
                for c in commitments2.cmm_attributes.values_mut() {
                    c.0 = c.0.plus_point(&key.g);
                }
            }
            "statement" => {
                // the same kind of atom about another attribute / bound / set
                let a0 = &v["stmt"][0];
                let mut a = a0.clone();
                match a0["k"].as_str().unwrap() {
                    "reveal" => a["tag"] = json!(if a0["tag"] == 0 { 8 } else { 0 }),
                    "in_range" => {
                        let hi = a0["hi"].as_u64().unwrap();
                        a["hi"] = json!(if (hi as usize) < vals.len() { hi + 1 } else { hi - 1 });
                    }
                    _ => {
                        let mut s: Vec<u64> = a0["set"].as_array().unwrap().iter().map(|x| x.as_u64().unwrap()).collect();
                        s.push(3);
                        a["set"] = json!(s);
                    }
                }
                stmt2.statement.statements[0] = atom_of(&a);
            }
            "proof" => {
                let mut b = to_bytes(&proof);
                let k = b.len() - 3;
                b[k] ^= 1;
                match Proof::<G, AttributeKind>::deserial(&mut Cursor::new(&b[..])) {
                    Ok(p) => proof2 = p,
                    Err(_) => return Ok(()),
                }
            }
            "version" => version2 = if version == ProofVersion::Version1 { ProofVersion::Version2 } else { ProofVersion::Version1 },
            o => return fail(format!("unknown perturbation {}", o), J::Null, J::Null),
        }
        let got = stmt2.verify(version2, challenge, &global, &commitments2, &proof2);
        // a reveal-only statement does not depend on the bulletproof version
        let version_irrelevant = perturb == "version" && kinds.iter().all(|k| *k == "reveal");
        if got != accept && !(version_irrelevant && truth) {
            return fail(what("verifies exactly when every atom is true and nothing was altered"), json!(accept), json!(got));
        }
        Ok(())
    })
}
