//! C19: rows of spec/crypto/{SigAgg,Vrf,PsSig}.tla replayed with real keys on aggregate_sig,
//! ecvrf, ps_sig and dlog_ed25519.
#![allow(deprecated)]
use crate::util::*;
use concordium_base::{
    aggregate_sig as agg,
    common::{to_bytes, Deserial},
    curve_arithmetic::{Curve, Field, Pairing},
    ecvrf,
    eddsa_ed25519::{prove_dlog_ed25519, verify_dlog_ed25519, Ed25519DlogProof},
    id::constants::IpPairing,
    ps_sig,
    random_oracle::RandomOracle,
};
use rand::{rngs::StdRng, SeedableRng};
use serde_json::{json, Value as J};
use std::io::Cursor;

type P = IpPairing;
type G1 = <P as Pairing>::G1;
type Fr = <P as Pairing>::ScalarField;
type Res = Result<(), (String, J, J)>;
fn fail<T>(what: &str, exp: J, got: J) -> Result<T, (String, J, J)> { Err((what.to_string(), exp, got)) }

fn msg_bytes(m: u64) -> Vec<u8> {
    match m {
        1 => vec![],
        2 => b"message two".to_vec(),
        _ => vec![0x33; 300],
    }
}
fn vmsg(m: &str) -> Vec<u8> {
    match m {
        "empty" => vec![],
        "a" => b"a".to_vec(),
        "b" => b"b".to_vec(),
        _ => vec![0x61; 2000],
    }
}

fn bls_keys() -> Vec<(agg::SecretKey<P>, agg::PublicKey<P>)> {
    let mut rng = StdRng::seed_from_u64(0xC19);
    (0..3)
        .map(|_| {
            let sk = agg::SecretKey::<P>::generate(&mut rng);
            (sk, agg::PublicKey::from_secret(&sk))
        })
        .collect()
}

fn run_bls_agg(v: &J, stats: &mut std::collections::BTreeMap<String, u64>) -> Res {
    let keys = bls_keys();
    let rows = v["rows"].as_object().unwrap();
    let first = rows.values().next().unwrap();
    // the aggregate: start from the empty signature and aggregate one signature per signed pair
    let mut sig = agg::Signature::<P>::empty();
    for km in first["signed"].as_array().unwrap() {
        let (k, m) = (km[0].as_u64().unwrap() as usize, km[1].as_u64().unwrap());
        sig = sig.aggregate(keys[k - 1].0.sign(&msg_bytes(m)));
    }
    for row in rows.values() {
        let claim: Vec<(usize, u64)> = row["claim"].as_array().unwrap().iter().map(|km| (km[0].as_u64().unwrap() as usize, km[1].as_u64().unwrap())).collect();
        let msgs: Vec<Vec<u8>> = claim.iter().map(|(_, m)| msg_bytes(*m)).collect();
        let what = |name: &str| format!("{} on claim {:?} for signatures {}", name, claim, first["signed"]);
        // verify_aggregate_sig
        let pairs: Vec<(&[u8], agg::PublicKey<P>)> = claim.iter().zip(msgs.iter()).map(|((k, _), m)| (m.as_slice(), keys[k - 1].1)).collect();
        let got = agg::verify_aggregate_sig(&pairs, sig);
        let exp = row["agg"].as_bool().unwrap();
        *stats.entry(format!("verify_aggregate_sig:{}", exp)).or_default() += 1;
        if got != exp {
            return fail(&what("verify_aggregate_sig"), json!(exp), json!(got));
        }
        // hybrid: group keys per message, in order of first appearance
        let mut order: Vec<u64> = Vec::new();
        for (_, m) in claim.iter() {
            if !order.contains(m) {
                order.push(*m);
            }
        }
        let groups: Vec<(Vec<u8>, Vec<agg::PublicKey<P>>)> =
            order.iter().map(|m| (msg_bytes(*m), claim.iter().filter(|(_, m2)| m2 == m).map(|(k, _)| keys[k - 1].1).collect())).collect();
        let gref: Vec<(&[u8], &[agg::PublicKey<P>])> = groups.iter().map(|(m, ks)| (m.as_slice(), ks.as_slice())).collect();
        let got = agg::verify_aggregate_sig_hybrid(&gref, sig);
        let exp = row["hybrid"].as_bool().unwrap();
        *stats.entry(format!("verify_aggregate_sig_hybrid:{}", exp)).or_default() += 1;
        if got != exp {
            return fail(&what("verify_aggregate_sig_hybrid"), json!(exp), json!(got));
        }
        if row["one_msg"].as_bool().unwrap() {
            let pks: Vec<agg::PublicKey<P>> = claim.iter().map(|(k, _)| keys[k - 1].1).collect();
            let got = agg::verify_aggregate_sig_trusted_keys(&msgs[0], &pks, sig);
            let exp = row["trusted"].as_bool().unwrap();
            *stats.entry(format!("verify_aggregate_sig_trusted_keys:{}", exp)).or_default() += 1;
            if got != exp {
                return fail(&what("verify_aggregate_sig_trusted_keys"), json!(exp), json!(got));
            }
        }
        if claim.len() == 1 {
            let got = keys[claim[0].0 - 1].1.verify(&msgs[0], sig);
            let exp = row["single"].as_bool().unwrap();
            *stats.entry(format!("verify:{}", exp)).or_default() += 1;
            if got != exp {
                return fail(&what("PublicKey::verify"), json!(exp), json!(got));
            }
        }
    }
    // the empty claim list for the trusted-keys verifier is rejected whatever the signature
    if agg::verify_aggregate_sig_trusted_keys::<P>(b"m", &[], sig) {
        return fail("verify_aggregate_sig_trusted_keys on no keys", json!(false), json!(true));
    }
    Ok(())
}

fn flip_and_reparse<T: Deserial>(bytes: &[u8], pos: usize, bit: u8) -> Option<T> {
    let mut b = bytes.to_vec();
    b[pos] ^= 1 << bit;
    let mut c = Cursor::new(&b[..]);
    T::deserial(&mut c).ok()
}

fn run_pop(row: &J, accept: bool) -> Res {
    let pk = row["pk"].as_u64().unwrap() as usize;
    let vk = row["vk"].as_u64().unwrap() as usize;
    let pctx = row["pctx"].as_str().unwrap();
    let vctx = row["vctx"].as_str().unwrap();
    let tamper = row["tamper"].as_str().unwrap();
    let mut rng = StdRng::seed_from_u64(77 + pk as u64);
    if row["kind"] == "bls_pop" {
        let keys = bls_keys();
        let proof = keys[pk - 1].0.prove(&mut rng, &mut RandomOracle::domain(pctx));
        let bytes = to_bytes(&proof);
        let proof = match tamper {
            "none" => Some(proof),
            "challenge" => flip_and_reparse(&bytes, 5, 3),
            _ => flip_and_reparse(&bytes, bytes.len() - 1, 0),
        };
        let got = proof.map_or(false, |p| keys[vk - 1].1.check_proof(&mut RandomOracle::domain(vctx), &p));
        if got != accept {
            return fail(&format!("BLS proof of possession: key {} ctx {:?} checked for key {} ctx {:?}, tamper {}", pk, pctx, vk, vctx, tamper), json!(accept), json!(got));
        }
    } else {
        let kps: Vec<ed25519_dalek::SigningKey> = (1..=2u8).map(|i| ed25519_dalek::SigningKey::from_bytes(&[i.wrapping_mul(41); 32])).collect();
        let sk = &kps[pk - 1];
        let proof = prove_dlog_ed25519(&mut rng, &mut RandomOracle::domain(pctx), &sk.verifying_key(), &sk.to_bytes());
        let bytes = to_bytes(&proof);
        let proof: Option<Ed25519DlogProof> = match tamper {
            "none" => Some(proof),
            "challenge" => flip_and_reparse(&bytes, 3, 1),
            _ => flip_and_reparse(&bytes, 35, 1),
        };
        let got = proof.map_or(false, |p| verify_dlog_ed25519(&mut RandomOracle::domain(vctx), &kps[vk - 1].verifying_key(), &p));
        if got != accept {
            return fail(&format!("ed25519 dlog proof: key {} ctx {:?} checked for key {} ctx {:?}, tamper {}", pk, pctx, vk, vctx, tamper), json!(accept), json!(got));
        }
    }
    Ok(())
}

fn vrf_keys() -> Vec<ecvrf::Keypair> {
    let mut rng = StdRng::seed_from_u64(0xECF);
    (0..2).map(|_| ecvrf::Keypair::generate(&mut rng)).collect()
}

fn run_vrf(v: &J) -> Res {
    use curve25519_dalek::{constants::ED25519_BASEPOINT_POINT, scalar::Scalar};
    let row = &v["row"];
    let keys = vrf_keys();
    let pk = row["pk"].as_u64().unwrap() as usize;
    let pm = vmsg(row["pm"].as_str().unwrap());
    let proof = keys[pk - 1].prove(&pm);
    if proof != keys[pk - 1].prove(&pm) || proof.to_hash() != keys[pk - 1].prove(&pm).to_hash() {
        return fail("VRF proof and output are deterministic functions of key and message", J::Null, J::Null);
    }
    if v["kind"] == "vrf_flip" {
        let bytes = to_bytes(&proof);
        if bytes.len() != 80 {
            return fail("VRF proof length", json!(80), json!(bytes.len()));
        }
        let flipped: Option<ecvrf::Proof> = flip_and_reparse(&bytes, row["byte"].as_u64().unwrap() as usize, row["bit"].as_u64().unwrap() as u8);
        if let Some(p) = flipped {
            if keys[pk - 1].public.verify(&p, &pm) {
                return fail("VRF proof with one flipped bit verifies", json!(false), json!(true));
            }
        }
        return Ok(());
    }
    let vk = row["vk"].as_u64().unwrap() as usize;
    let vm = vmsg(row["vm"].as_str().unwrap());
    let tampered = match row["tamper"].as_str().unwrap() {
        "none" => proof.clone(),
        "gamma" => ecvrf::Proof(proof.0 + ED25519_BASEPOINT_POINT, proof.1, proof.2),
        "c" => ecvrf::Proof(proof.0, proof.1 + Scalar::ONE, proof.2),
        _ => ecvrf::Proof(proof.0, proof.1, proof.2 + Scalar::ONE),
    };
    let got = keys[vk - 1].public.verify(&tampered, &vm);
    let accept = v["accept"].as_bool().unwrap();
    if got != accept {
        return fail(&format!("VRF verify: proof for (key {}, {:?}) checked for (key {}, {:?}), tamper {}", pk, row["pm"], vk, row["vm"], row["tamper"]), json!(accept), json!(got));
    }
    let other = keys[vk - 1].prove(&vm);
    let same = proof.to_hash() == other.to_hash();
    if same != v["same_output"].as_bool().unwrap() {
        return fail("VRF outputs are equal exactly for equal (key, message)", v["same_output"].clone(), json!(same));
    }
    Ok(())
}

/// Encodings of VRF public keys and of ed25519 discrete-log proofs.
fn run_enc(v: &J) -> Res {
    use curve25519_dalek::constants::EIGHT_TORSION;
    let row = &v["row"];
    let cls = row["cls"].as_str().unwrap();
    let accept = v["accept"].as_bool().unwrap();
    if v["kind"] == "vrf_key" {
        let keys = vrf_keys();
        let bytes: Vec<u8> = if cls == "valid" {
            to_bytes(&keys[0].public)
        } else if cls == "not_on_curve" {
            let mut b = vec![2u8; 32];    // y = 0x0202..02: x^2 is not a square for this y
            b[31] = 0x02;
            b
        } else {
            let i: usize = cls[8..].parse().unwrap();
            EIGHT_TORSION[i].compress().to_bytes().to_vec()
        };
        let got: Option<ecvrf::PublicKey> = ecvrf::PublicKey::deserial(&mut Cursor::new(&bytes[..])).ok();
        if cls == "not_on_curve" {
            // whether this particular y is on the curve is a fact about the field, not about the decoder: only require a canonical round trip if accepted
            if let Some(k) = got {
                if to_bytes(&k) != bytes || !k.verify_key() {
                    return fail("an accepted VRF key re-encodes to its bytes and is not of small order", J::Null, json!(hex::encode(&bytes)));
                }
            }
            return Ok(());
        }
        if got.is_some() != accept {
            return fail(&format!("VRF public key decoder accepts {} ({})", hex::encode(&bytes), cls), json!(accept), json!(got.is_some()));
        }
        return Ok(());
    }
    // ed25519 discrete-log proof: challenge (32) ++ response (32), both canonical scalars
    let sk = ed25519_dalek::SigningKey::from_bytes(&[41u8; 32]);
    let mut rng = StdRng::seed_from_u64(5);
    let proof = prove_dlog_ed25519(&mut rng, &mut RandomOracle::domain("enc"), &sk.verifying_key(), &sk.to_bytes());
    let mut bytes = to_bytes(&proof);
    let l: [u8; 32] = [0xed, 0xd3, 0xf5, 0x5c, 0x1a, 0x63, 0x12, 0x58, 0xd6, 0x9c, 0xf7, 0xa2, 0xde, 0xf9, 0xde, 0x14, 0, 0, 0, 0, 0, 0, 0, 0, 0, 0, 0, 0, 0, 0, 0, 0x10];
    let add_l = |b: &mut [u8]| {
        let mut carry = 0u16;
        for i in 0..32 {
            let s = b[i] as u16 + l[i] as u16 + carry;
            b[i] = s as u8;
            carry = s >> 8;
        }
    };
    match cls {
        "canonical" => {}
        "challenge_plus_L" => add_l(&mut bytes[..32]),
        "response_plus_L" => add_l(&mut bytes[32..]),
        _ => bytes[..32].copy_from_slice(&[0xff; 32]),
    }
    let got: Option<Ed25519DlogProof> = Ed25519DlogProof::deserial(&mut Cursor::new(&bytes[..])).ok();
    if got.is_some() != accept {
        return fail(&format!("ed25519 dlog proof decoder accepts the {} encoding", cls), json!(accept), json!(got.is_some()));
    }
    if let Some(p) = got {
        if to_bytes(&p) != bytes || !verify_dlog_ed25519(&mut RandomOracle::domain("enc"), &sk.verifying_key(), &p) {
            return fail("the canonical proof encoding round-trips and verifies", J::Null, J::Null);
        }
    }
    Ok(())
}

fn sym_scalar(s: u64) -> Fr {
    match s {
        0 => Fr::zero(),
        1 => G1::scalar_from_u64(1),
        _ => {
            let mut x = G1::scalar_from_u64(0xdead_beef);
            x.negate();
            x
        }
    }
}

fn run_ps(v: &J) -> Res {
    let n = v["n"].as_u64().unwrap() as usize;
    let mut rng = StdRng::seed_from_u64(0x95);
    let sk = ps_sig::SecretKey::<P>::generate(n, &mut rng);
    let pk = ps_sig::PublicKey::from(&sk);
    let m: Vec<Fr> = v["m"].as_array().unwrap().iter().map(|x| sym_scalar(x.as_u64().unwrap())).collect();
    let mv: Vec<Fr> = v["mv"].as_array().unwrap().iter().map(|x| sym_scalar(x.as_u64().unwrap())).collect();
    let sign_ok = v["sign_ok"].as_bool().unwrap();
    let sig = if v["path"] == "known" {
        let r = sk.sign_known_message(&ps_sig::KnownMessage(m.clone()), &mut rng);
        if r.is_ok() != sign_ok {
            return fail("sign_known_message succeeds iff the vector fits the key", json!(sign_ok), json!(r.is_ok()));
        }
        match r {
            Ok(s) => s,
            Err(_) => return Ok(()),
        }
    } else {
        if !sign_ok {
            return Ok(()); // the holder cannot commit to more values than the key has generators
        }
        // commitment: sum_i m_i * Y_i + r * g
        let r = G1::generate_non_zero_scalar(&mut rng);
        let mut c = pk.g.mul_by_scalar(&r);
        for (mi, yi) in m.iter().zip(pk.ys.iter()) {
            c = c.plus_point(&yi.mul_by_scalar(mi));
        }
        let blind_sig = sk.sign_unknown_message(&ps_sig::UnknownMessage(c), &mut rng);
        let r_used = if v["r_ok"].as_bool().unwrap() {
            r
        } else {
            let mut x = r;
            x.add_assign(&Fr::one());
            x
        };
        blind_sig.retrieve(&ps_sig::SigRetrievalRandomness::new(r_used))
    };
    let got = pk.verify(&sig, &ps_sig::KnownMessage(mv));
    let exp = v["verifies"].as_bool().unwrap();
    if got != exp {
        return fail(&format!("PS verify ({}): signed {} checked against {} (r_ok {})", v["path"], v["m"], v["mv"], v["r_ok"]), json!(exp), json!(got));
    }
    Ok(())
}

pub fn main(args: &[String]) -> i32 {
    drive(args, "c19-replay", |v, stats| {
        let kind = v["kind"].as_str().unwrap_or("?").to_string();
        *stats.entry(kind.clone()).or_default() += 1;
        match kind.as_str() {
            "bls_agg" => run_bls_agg(v, stats),
            "bls_pop" | "dlog_ed25519" => {
                let a = v["accept"].as_bool().unwrap();
                *stats.entry(format!("{}:{}", kind, a)).or_default() += 1;
                run_pop(&v["row"], a)
            }
            "vrf_key" | "dlog_ed25519_enc" => {
                *stats.entry(format!("{}:{}", kind, v["accept"].as_bool().unwrap())).or_default() += 1;
                run_enc(v)
            }
            "vrf" | "vrf_flip" => {
                *stats.entry(format!("{}:{}", kind, v["accept"].as_bool().unwrap())).or_default() += 1;
                run_vrf(v)
            }
            "ps_sig" => {
                *stats.entry(format!("ps_sig:{}", v["verifies"].as_bool().unwrap())).or_default() += 1;
                run_ps(v)
            }
            o => fail("unknown row kind", json!(o), J::Null),
        }
    })
}
