//! C06 (envelope part): constructed transactions against TxEnvelope.tla - serialised header and
//! payload bytes, declared payload size, energy, sign digest, block-item hash.
use crate::util::*;
use concordium_base::{
    base::Nonce,
    common::{
        to_bytes,
        types::{Amount, CredentialIndex, KeyIndex, KeyPair, Timestamp, TransactionTime},
    },
    contracts_common::{AccountAddress, AccountThreshold, SignatureThreshold},
    id::types::{AccountKeys, CredentialData},
    transactions::{construct, BlockItem, Memo, RegisteredData},
};
use serde_json::{json, Value};
use sha2::Digest;
use std::collections::BTreeMap;

pub fn eval_term(t: &Value) -> Vec<u8> {
    let mut out = Vec::new();
    for p in t.as_array().cloned().unwrap_or_default() {
        match p[0].as_str().unwrap_or("") {
            "b" => out.extend(bytes_of(&p[1])),
            "r" => out.extend(std::iter::repeat(p[1].as_u64().unwrap() as u8).take(p[2].as_u64().unwrap() as usize)),
            "u64" => out.extend_from_slice(&((p[1].as_u64().unwrap() << 32) | p[2].as_u64().unwrap()).to_be_bytes()),
            "u32" => out.extend_from_slice(&(p[1].as_u64().unwrap() as u32).to_be_bytes()),
            "u16" => out.extend_from_slice(&(p[1].as_u64().unwrap() as u16).to_be_bytes()),
            _ => panic!("bad term"),
        }
    }
    out
}

pub fn main(args: &[String]) -> i32 {
    drive(args, "envelope-replay", |v, stats| {
        let p = &v["p"];
        let kind = p["kind"].as_str().unwrap();
        *stats.entry(kind.to_string()).or_default() += 1;
        let nsigs = v["nsigs"].as_u64().unwrap() as u32;
        let sender = AccountAddress([3u8; 32]);
        let nonce = Nonce { nonce: 7 };
        let expiry = TransactionTime { seconds: 1_700_000_000 };
        let to = AccountAddress([p["to"].as_u64().unwrap_or(0) as u8; 32]);
        let amount = Amount::from_micro_ccd(p["amount"].as_u64().unwrap_or(0));
        let pre = match kind {
            "transfer" => construct::transfer(nsigs, sender, nonce, expiry, to, amount),
            "transfer_memo" => {
                let memo = Memo::try_from(vec![77u8; p["memoLen"].as_u64().unwrap() as usize]).map_err(|_| ("memo too long".to_string(), Value::Null, Value::Null))?;
                construct::transfer_with_memo(nsigs, sender, nonce, expiry, to, amount, memo)
            }
            "register_data" => {
                let data = RegisteredData::try_from(vec![68u8; p["dataLen"].as_u64().unwrap() as usize]).map_err(|_| ("data too long".to_string(), Value::Null, Value::Null))?;
                construct::register_data(nsigs, sender, nonce, expiry, data)
            }
            "schedule" => {
                let n = p["n"].as_u64().unwrap();
                let schedule = (1..=n).map(|i| (Timestamp::from(1000 * i), amount)).collect();
                construct::transfer_with_schedule(nsigs, sender, nonce, expiry, to, schedule)
            }
            "deploy_module" => {
                use concordium_base::smart_contracts::{ModuleSource, WasmModule, WasmVersion};
                let version = if p["version"].as_u64().unwrap() == 0 { WasmVersion::V0 } else { WasmVersion::V1 };
                construct::deploy_module(nsigs, sender, nonce, expiry, WasmModule { version, source: ModuleSource::from(vec![0u8; p["size"].as_u64().unwrap() as usize]) })
            }
            "init_contract" => {
                use concordium_base::{smart_contracts::{OwnedContractName, OwnedParameter}, transactions::InitContractPayload};
                let payload = InitContractPayload {
                    amount,
                    mod_ref: concordium_base::contracts_common::ModuleReference::from([7u8; 32]),
                    init_name: OwnedContractName::new_unchecked("init_c".into()),
                    param: OwnedParameter::new_unchecked(vec![1u8; p["plen"].as_u64().unwrap() as usize]),
                };
                construct::init_contract(nsigs, sender, nonce, expiry, payload, concordium_base::base::Energy::from(p["given"].as_u64().unwrap()))
            }
            "update_contract" => {
                use concordium_base::{smart_contracts::{OwnedParameter, OwnedReceiveName}, transactions::UpdateContractPayload};
                let payload = UpdateContractPayload {
                    amount,
                    address: concordium_base::contracts_common::ContractAddress::new(3, 0),
                    receive_name: OwnedReceiveName::new_unchecked("c.f".into()),
                    message: OwnedParameter::new_unchecked(vec![1u8; p["plen"].as_u64().unwrap() as usize]),
                };
                construct::update_contract(nsigs, sender, nonce, expiry, payload, concordium_base::base::Energy::from(p["given"].as_u64().unwrap()))
            }
            "remove_baker" => construct::remove_baker(nsigs, sender, nonce, expiry),
            "update_baker_stake" => construct::update_baker_stake(nsigs, sender, nonce, expiry, amount),
            "update_baker_restake" => construct::update_baker_restake_earnings(nsigs, sender, nonce, expiry, p["flag"].as_bool().unwrap()),
            "transfer_to_encrypted" => construct::transfer_to_encrypted(nsigs, sender, nonce, expiry, amount),
            other => return Err((format!("unknown kind {}", other), Value::Null, Value::Null)),
        };
        let exp_payload = eval_term(&v["payload"]);
        let exp_header = eval_term(&v["header"]);
        let got_payload = to_bytes(&pre.encoded);
        if got_payload != exp_payload {
            return Err(("serialised payload".into(), json!(hex::encode(&exp_payload)), json!(hex::encode(&got_payload))));
        }
        let got_header = to_bytes(&pre.header);
        if got_header != exp_header {
            return Err(("serialised header (sender, nonce, energy, payload size, expiry)".into(), json!(hex::encode(&exp_header)), json!(hex::encode(&got_header))));
        }
        if u64::from(pre.header.energy_amount) != v["energy"].as_u64().unwrap() {
            return Err(("energy".into(), v["energy"].clone(), json!(u64::from(pre.header.energy_amount))));
        }
        if u64::from(u32::from(pre.header.payload_size)) != v["payload_size"].as_u64().unwrap() {
            return Err(("declared payload size".into(), v["payload_size"].clone(), json!(u32::from(pre.header.payload_size))));
        }
        let mut hb = exp_header.clone();
        hb.extend_from_slice(&exp_payload);
        let digest: [u8; 32] = sha2::Sha256::digest(&hb).into();
        let got: &[u8] = pre.hash_to_sign.as_ref();
        if got != digest {
            return Err(("sign digest != SHA-256(header ++ payload)".into(), json!(hex::encode(digest)), json!(hex::encode(got))));
        }
        // sign with one key and check the block item hash = SHA-256 of the serialised block item
        let mut seed = [0x5au8; 32];
        seed[0] = 1;
        let kp = KeyPair::from(ed25519_dalek::SigningKey::from_bytes(&seed));
        let mut ks = BTreeMap::new();
        ks.insert(KeyIndex(0), kp);
        let mut creds = BTreeMap::new();
        creds.insert(CredentialIndex { index: 0 }, CredentialData { keys: ks, threshold: SignatureThreshold::ONE });
        let keys = AccountKeys { keys: creds, threshold: AccountThreshold::ONE };
        let tx = pre.sign(&keys);
        let bi = BlockItem::AccountTransaction(tx);
        let bytes = to_bytes(&bi);
        // layout: kind tag 0, signature map (1 cred: count 1, cred idx 0, count 1, key idx 0, len 64 be16, sig), header, payload
        if bytes[0] != 0 || bytes[bytes.len() - hb.len()..] != hb[..] {
            return Err(("block item serialisation does not end with header ++ payload after tag 0".into(), Value::Null, json!(hex::encode(&bytes[..8.min(bytes.len())]))));
        }
        let h: [u8; 32] = sha2::Sha256::digest(&bytes).into();
        let got = bi.hash();
        let got: &[u8] = got.as_ref();
        if got != h {
            return Err(("block item hash != SHA-256(serialised block item)".into(), json!(hex::encode(h)), json!(hex::encode(got))));
        }
        Ok(())
    })
}
