//! C10: Schema.tla triples (schema type, JSON value, bytes) on the real schema-directed conversion.
use crate::util::*;
use concordium_contracts_common::{
    self as cc,
    schema::{Fields, SizeLength, Type},
};
use serde_json::{json, Value};
use std::collections::BTreeMap;

fn sl(v: &Value) -> SizeLength {
    match v.as_u64().unwrap_or(0) {
        0 => SizeLength::U8,
        1 => SizeLength::U16,
        2 => SizeLength::U32,
        _ => SizeLength::U64,
    }
}

fn fields(f: &Value) -> Fields {
    match f[0].as_str().unwrap_or("") {
        "named" => Fields::Named(f[1].as_array().unwrap().iter().map(|e| (e[0].as_str().unwrap().to_string(), ty(&e[2]))).collect()),
        "unnamed" => Fields::Unnamed(f[1].as_array().unwrap().iter().map(ty).collect()),
        _ => Fields::None,
    }
}

pub fn ty(t: &Value) -> Type {
    match t[0].as_str().unwrap_or("") {
        "Unit" => Type::Unit,
        "Bool" => Type::Bool,
        "U8" => Type::U8,
        "U16" => Type::U16,
        "U32" => Type::U32,
        "U64" => Type::U64,
        "U128" => Type::U128,
        "I8" => Type::I8,
        "I16" => Type::I16,
        "I32" => Type::I32,
        "I64" => Type::I64,
        "I128" => Type::I128,
        "Amount" => Type::Amount,
        "ContractAddress" => Type::ContractAddress,
        "Timestamp" => Type::Timestamp,
        "Duration" => Type::Duration,
        "Pair" => Type::Pair(Box::new(ty(&t[1])), Box::new(ty(&t[2]))),
        "List" => Type::List(sl(&t[1]), Box::new(ty(&t[2]))),
        "Set" => Type::Set(sl(&t[1]), Box::new(ty(&t[2]))),
        "Map" => Type::Map(sl(&t[1]), Box::new(ty(&t[2])), Box::new(ty(&t[3]))),
        "Array" => Type::Array(t[1].as_u64().unwrap() as u32, Box::new(ty(&t[2]))),
        "Struct" => Type::Struct(fields(&t[1])),
        "Enum" => Type::Enum(t[1].as_array().unwrap().iter().map(|v| (v[0].as_str().unwrap().to_string(), fields(&v[2]))).collect()),
        "TaggedEnum" => {
            let mut m = BTreeMap::new();
            for v in t[1].as_array().unwrap() {
                m.insert(v[0].as_u64().unwrap() as u8, (v[1].as_str().unwrap().to_string(), fields(&v[3])));
            }
            Type::TaggedEnum(m)
        }
        "String" => Type::String(sl(&t[1])),
        "ContractName" => Type::ContractName(sl(&t[1])),
        "ReceiveName" => Type::ReceiveName(sl(&t[1])),
        "ULeb128" => Type::ULeb128(t[1].as_u64().unwrap() as u32),
        "ILeb128" => Type::ILeb128(t[1].as_u64().unwrap() as u32),
        "ByteList" => Type::ByteList(sl(&t[1])),
        "ByteArray" => Type::ByteArray(t[1].as_u64().unwrap() as u32),
        other => panic!("unknown schema type {}", other),
    }
}

fn denull(v: &Value) -> Value {
    match v {
        Value::String(s) if s == "__null__" => Value::Null,
        Value::Array(a) => Value::Array(a.iter().map(denull).collect()),
        Value::Object(o) if o.contains_key("__rep__") => Value::String(o["__rep__"].as_str().unwrap().repeat(o["n"].as_u64().unwrap() as usize)),
        Value::Object(o) => Value::Object(o.iter().map(|(k, x)| (k.clone(), denull(x))).collect()),
        other => other.clone(),
    }
}

pub fn eval_le_w(t: &Value) -> Vec<u8> {
    let mut out = Vec::new();
    for p in t.as_array().cloned().unwrap_or_default() {
        match p[0].as_str().unwrap_or("") {
            "b" => out.extend(bytes_of(&p[1])),
            "r" => out.extend(std::iter::repeat(p[1].as_u64().unwrap() as u8).take(p[2].as_u64().unwrap() as usize)),
            "le" => {
                let w = p[1].as_u64().unwrap() as usize;
                out.extend_from_slice(&p[2].as_u64().unwrap().to_le_bytes()[..w]);
            }
            _ => panic!("bad term"),
        }
    }
    out
}

fn base64_nopad(b: &[u8]) -> String {
    const A: &[u8; 64] = b"ABCDEFGHIJKLMNOPQRSTUVWXYZabcdefghijklmnopqrstuvwxyz0123456789+/";
    let mut out = String::new();
    for ch in b.chunks(3) {
        let n = (ch[0] as u32) << 16 | (*ch.get(1).unwrap_or(&0) as u32) << 8 | *ch.get(2).unwrap_or(&0) as u32;
        for i in 0..(ch.len() + 1) {
            out.push(A[((n >> (18 - 6 * i)) & 63) as usize] as char);
        }
    }
    out
}

/// Module schemas: the unprefixed bytes of the specification, with and without the version prefix, with version hints, in base64.
fn module(v: &Value, stats: &mut std::collections::BTreeMap<String, u64>) -> Result<(), (String, Value, Value)> {
    use cc::schema::{VersionedModuleSchema as VMS, VersionedSchemaError as VE};
    let ver = v["ver"].as_u64().unwrap() as u8;
    *stats.entry(format!("module:V{}", ver)).or_default() += 1;
    let mb = eval_le_w(&v["mb"]);
    let mut prefixed = vec![0xff, 0xff, ver];
    prefixed.extend_from_slice(&mb);
    let version_of = |m: &VMS| match m {
        VMS::V0(_) => 0u8,
        VMS::V1(_) => 1,
        VMS::V2(_) => 2,
        VMS::V3(_) => 3,
    };
    let check = |what: &str, r: Result<VMS, VE>| -> Result<VMS, (String, Value, Value)> {
        match r {
            Ok(m) if version_of(&m) == ver && cc::to_bytes(&m) == prefixed => Ok(m),
            Ok(m) => Err((format!("{}: parsed module re-encodes to the versioned form", what), json!(hex::encode(&prefixed)), json!(hex::encode(cc::to_bytes(&m))))),
            Err(e) => Err((format!("{}: a valid module schema is refused", what), json!("ok"), json!(format!("{:?}", e)))),
        }
    };
    // with the version prefix the hint does not matter
    for hint in [None, Some(ver), Some((ver + 1) % 4), Some(9)] {
        check(&format!("VersionedModuleSchema::new(prefixed, {:?})", hint), VMS::new(&prefixed, &hint))?;
    }
    let m = check("VersionedModuleSchema::new(unprefixed, matching hint)", VMS::new(&mb, &Some(ver)))?;
    check("from_base64_str", VMS::from_base64_str(&base64_nopad(&prefixed)))?;
    match VMS::new(&mb, &None) {
        Err(VE::MissingSchemaVersion) => {}
        other => return Err(("unprefixed module without a version hint".into(), json!("MissingSchemaVersion"), json!(format!("{:?}", other.map(|m| version_of(&m)))))),
    }
    match VMS::new(&mb, &Some(9)) {
        Err(VE::InvalidSchemaVersion) => {}
        other => return Err(("unprefixed module with version hint 9".into(), json!("InvalidSchemaVersion"), json!(format!("{:?}", other.map(|m| version_of(&m)))))),
    }
    // the parameter types that were put in come out
    let exp_ty = |x: &Value| -> Option<Vec<u8>> { x.as_array().and_then(|a| a.first()).map(eval_le_w) };
    if v["has_init"].as_bool().unwrap() {
        let got = m.get_init_param_schema("c").ok().map(|t| cc::to_bytes(&t));
        if got != exp_ty(&v["init_param"]) {
            return Err(("get_init_param_schema".into(), json!(exp_ty(&v["init_param"]).map(hex::encode)), json!(got.map(hex::encode))));
        }
    }
    if v["has_recv"].as_bool().unwrap() {
        let got = m.get_receive_param_schema("c", "r").ok().map(|t| cc::to_bytes(&t));
        if got != exp_ty(&v["recv_param"]) {
            return Err(("get_receive_param_schema".into(), json!(exp_ty(&v["recv_param"]).map(hex::encode)), json!(got.map(hex::encode))));
        }
    }
    // truncations of the versioned form are refused
    for cut in 0..prefixed.len() {
        if VMS::new(&prefixed[..cut], &None).is_ok() {
            return Err((format!("a module schema truncated to {} of {} bytes is accepted", cut, prefixed.len()), json!("error"), json!("ok")));
        }
    }
    Ok(())
}

fn one(v: &Value, stats: &mut std::collections::BTreeMap<String, u64>) -> Result<(), (String, Value, Value)> {
    let kind = v["kind"].as_str().unwrap();
    if kind == "module" {
        return module(v, stats);
    }
    let t = ty(&v["t"]);
    let j = denull(&v["j"]);
    let b = eval_le_w(&v["b"]);
    *stats.entry(format!("{}:{}", kind, v["t"][0].as_str().unwrap_or("?"))).or_default() += 1;
    // the schema type itself round-trips through its binary form, byte-exactly as specified
    let tb = eval_le_w(&v["tb"]);
    let got_tb = cc::to_bytes(&t);
    if got_tb != tb {
        return Err(("binary form of the schema type".into(), json!(hex::encode(&tb)), json!(hex::encode(&got_tb))));
    }
    match cc::from_bytes::<Type>(&tb) {
        Ok(t2) if t2 == t => {}
        other => return Err(("schema type does not read back from its binary form".into(), Value::Null, json!(format!("{:?}", other.is_ok())))),
    }
    match kind {
        "roundtrip" => {
            match t.serial_value(&j) {
                Ok(bytes) if bytes == b => {}
                Ok(bytes) => return Err(("JSON -> bytes".into(), json!(hex::encode(&b)), json!(hex::encode(&bytes)))),
                Err(e) => return Err(("JSON -> bytes failed on a conforming value".into(), json!(hex::encode(&b)), json!(format!("{}", e)))),
            }
            let mut cur = cc::Cursor::new(&b[..]);
            match t.to_json(&mut cur) {
                Ok(js) if js == j && cur.offset == b.len() => Ok(()),
                Ok(js) => Err(("bytes -> JSON".into(), j, json!({"json": js, "consumed": cur.offset}))),
                Err(e) => Err(("bytes -> JSON failed on a valid encoding".into(), j, json!(format!("{}", e)))),
            }
        }
        "bad_json" => match t.serial_value(&j) {
            Ok(bytes) => Err(("a JSON value the type does not accept was converted".into(), json!("error"), json!(hex::encode(&bytes)))),
            Err(_) => Ok(()),
        },
        "bad_bytes" => {
            let base = crate::alloc::reset();
            let mut cur = cc::Cursor::new(&b[..]);
            let r = t.to_json(&mut cur);
            let (peak, largest) = crate::alloc::measure(base);
            if peak > (1 << 20) + 256 * b.len() {
                return Err((format!("bytes -> JSON allocated {} bytes for {} input bytes (largest request {})", peak, b.len(), largest), json!((1 << 20) + 256 * b.len()), json!(peak)));
            }
            match r {
                Ok(js) => Err(("bytes that encode no value of the type were converted".into(), json!("error"), js)),
                Err(_) => Ok(()),
            }
        }
        other => Err((format!("unknown kind {}", other), Value::Null, Value::Null)),
    }
}

pub fn main(args: &[String]) -> i32 {
    if args.first().map(|s| s.as_str()) == Some("--one") {
        // schema-replay --one <file with one vector>: used for inputs that may exhaust memory
        let line = std::fs::read_to_string(&args[1]).unwrap_or_default();
        let v: Value = serde_json::from_str(line.trim()).unwrap();
        let mut stats = std::collections::BTreeMap::new();
        let r = std::panic::catch_unwind(std::panic::AssertUnwindSafe(|| one(&v, &mut stats)));
        match r {
            Ok(Ok(())) => println!("{}", json!({"ok": true})),
            Ok(Err((w, e, g))) => println!("{}", json!({"ok": false, "what": w, "exp": e, "got": g})),
            Err(p) => println!("{}", json!({"ok": false, "what": format!("panic: {}", panic_message(p))})),
        }
        return 0;
    }
    drive(args, "schema-replay", |v, stats| one(v, stats))
}
