SPECIFICATION WSpec
CONSTANTS
  LimbBits = 5
  Limbs = 2
  W = 3
INVARIANTS DigitsWellFormed PartialSum Recoded WExport
CHECK_DEADLOCK FALSE
