------------------------------ MODULE IdIssuance ------------------------------
(***************************************************************************)
(* Identity issuance and credential deployment (C08) as a state machine.    *)
(* Parties: one identity provider with N anonymity revokers, an account      *)
(* holder, the chain.                                                        *)
(*   Request(version, ars, thr)  the holder picks a subset `ars` of the      *)
(*        provider's revokers and a revocation threshold thr in 1..|ars| and  *)
(*        sends a pre-identity object (v0 with an initial account, v1         *)
(*        without); the provider verifies it and issues the identity object.  *)
(*   Create(counter, revealed, kind)  a credential for the given credential   *)
(*        counter, revealing a subset of the attributes, for a new or an       *)
(*        existing account.  For counter > max_accounts the holder's library    *)
(*        may refuse or may output something - which the chain must reject.     *)
(*   Verify(perturbation)  the chain accepts the credential iff the counter is  *)
(*        within the limit and nothing was altered: any bit of its encoding,    *)
(*        the provider or revoker keys it is checked against, or the account    *)
(*        it is meant for.                                                      *)
(*   Revoke(S)  the revokers in S decrypt their shares: they reconstruct the    *)
(*        holder's public identity credential iff |S| >= thr (Shamir.tla).      *)
(*   RevokePrf(S)  the revokers in S decrypt their shares of the holder's PRF   *)
(*        key from the identity request kept by the provider (eight 32-bit       *)
(*        chunks each): they reconstruct the key iff |S| >= thr.  With the key    *)
(*        all credentials of the identity can be linked.                          *)
(*   Recover(p)  the holder asks the provider for a lost identity object by       *)
(*        proving knowledge of the secret identity credential; the proof is bound   *)
(*        to the provider (identity and key), the chain parameters and a time.      *)
(***************************************************************************)
EXTENDS Naturals, Integers, Sequences, FiniteSets, TLC, Json

CONSTANTS N, MaxAccounts, MaxOps, BigOnly     \* BigOnly: only large revoker sets with high thresholds (revocation by many shares), one credential shape

Revokers == 1..N
Attrs == {0, 3, 8}     \* three attributes: the revealed ones may lie below, between and above the hidden ones
Counters == {0, 1, MaxAccounts, MaxAccounts + 1}
(* "extra_sharing_coeff": the holder appends a (neutral) commitment to one more coefficient of the polynomial that shares the secret identity credential than the
   revocation threshold allows, and signs the result with the account keys: with a polynomial of higher degree, threshold many revokers could no longer reconstruct *)
Perturbations == {"none", "bitflips", "other_ip", "other_ar_key", "other_global", "other_address", "swap_ar_data", "expiry_passed", "extra_sharing_coeff"}

VARIABLES idobj, cred, hist
ivars == <<idobj, cred, hist>>
iview == <<idobj, cred>>
IInit == idobj = <<>> /\ cred = <<>> /\ hist = <<>>

Request(v, ars, thr) ==
  /\ idobj = <<>>
  /\ idobj' = <<[version |-> v, ars |-> ars, thr |-> thr]>>
  /\ UNCHANGED cred
  /\ hist' = Append(hist, [op |-> "request", version |-> v, ars |-> ars, thr |-> thr, ok |-> TRUE])

Create(c, revealed, kind) ==
  /\ idobj # <<>>
  /\ cred' = <<[counter |-> c, revealed |-> revealed, kind |-> kind]>>
  /\ hist' = Append(hist, [op |-> "create", counter |-> c, revealed |-> revealed, account |-> kind, ok |-> c <= MaxAccounts])
  /\ UNCHANGED idobj

(* a credential for a new account carries an expiry; for an existing account it is bound to that account's address *)
Applies(p) == p \in {"none", "bitflips", "other_ip", "other_ar_key", "other_global", "swap_ar_data", "extra_sharing_coeff"}
              \/ (p = "other_address" /\ cred[1].kind = "existing") \/ (p = "expiry_passed" /\ cred[1].kind = "new")
Verify(p) ==
  /\ cred # <<>> /\ Applies(p)
  /\ (p = "swap_ar_data" => Cardinality(idobj[1].ars) >= 2)
  /\ hist' = Append(hist, [op |-> "verify", perturb |-> p, ok |-> p = "none" /\ cred[1].counter <= MaxAccounts])
  /\ UNCHANGED <<idobj, cred>>

Revoke(S) ==
  /\ cred # <<>>
  /\ hist' = Append(hist, [op |-> "revoke", revokers |-> S, ok |-> Cardinality(S) >= idobj[1].thr])
  /\ UNCHANGED <<idobj, cred>>

RecoverPerturbations == {"none", "other_ip_identity", "other_ip_key", "other_global", "timestamp", "id_cred_pub", "proof"}
Recover(p) ==
  /\ idobj # <<>>
  /\ hist' = Append(hist, [op |-> "recover", perturb |-> p, ok |-> p = "none"])
  /\ UNCHANGED <<idobj, cred>>

RevokePrf(S) ==
  /\ idobj # <<>>
  /\ hist' = Append(hist, [op |-> "revoke_prf", revokers |-> S, ok |-> Cardinality(S) >= idobj[1].thr])
  /\ UNCHANGED <<idobj, cred>>

INext ==
  \/ \E v \in {0, 1}, ars \in (SUBSET Revokers) \ {{}}, thr \in 1..N : thr <= Cardinality(ars) /\ (BigOnly => (Cardinality(ars) >= 4 /\ thr >= 4)) /\ Request(v, ars, thr)
  \/ \E c \in Counters, r \in SUBSET Attrs, k \in {"new", "existing"} : (BigOnly => (c = 0 /\ r = {} /\ k = "new")) /\ Create(c, r, k)
  \/ \E p \in Perturbations : (BigOnly => p = "none") /\ Verify(p)
  \/ \E S \in SUBSET Revokers : idobj # <<>> /\ S \subseteq idobj[1].ars /\ S # {} /\ (BigOnly => Cardinality(S) >= 3) /\ Revoke(S)
  \/ \E S \in SUBSET Revokers : idobj # <<>> /\ S \subseteq idobj[1].ars /\ S # {} /\ (BigOnly => Cardinality(S) >= 3) /\ RevokePrf(S)
  \/ \E p \in RecoverPerturbations : ~BigOnly /\ Recover(p)
ISpec == IInit /\ [][INext]_ivars

(* a credential exists only for counters within the account limit; revocation needs the threshold *)
CounterLimit == \A i \in 1..Len(hist) : (hist[i].op = "verify" /\ hist[i].ok) => cred[1].counter <= MaxAccounts
ThresholdMeaning == \A i \in 1..Len(hist) : hist[i].op \in {"revoke", "revoke_prf"} => (hist[i].ok <=> Cardinality(hist[i].revokers) >= idobj[1].thr)
OnlyUntouchedRecovers == \A i \in 1..Len(hist) : (hist[i].op = "recover" /\ hist[i].ok) => hist[i].perturb = "none"
OnlyUntouchedVerifies == \A i \in 1..Len(hist) : (hist[i].op = "verify" /\ hist[i].ok) => hist[i].perturb = "none"
Bound == Len(hist) <= MaxOps
ExportEdge == PrintT(<<"REPLAY", ToJson([kind |-> "identity", n |-> N, max_accounts |-> MaxAccounts, ops |-> hist'])>>)
=============================================================================
