SPECIFICATION ESpec
CONSTANTS
  W = 3
  Table = 8
  MaxOps = 3
INVARIANTS Denotes DecryptInverse
VIEW eview
CONSTRAINT Bound
CHECK_DEADLOCK FALSE
