SPECIFICATION SSpec
CONSTANTS
  FixR = FALSE
  Q = 3
  Proto = "com_eq_sig"
INVARIANTS Complete ResponseBound StatementBound EveryRowChecked SpecialSound
CHECK_DEADLOCK FALSE
