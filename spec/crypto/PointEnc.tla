------------------------------- MODULE PointEnc -------------------------------
(***************************************************************************)
(* Accepted encodings of group elements and scalars (C20), as a decision   *)
(* table over symbolic classes; the harness instantiates every row with     *)
(* real 48/96/32-byte strings.                                               *)
(*                                                                           *)
(* BLS12-381 G1/G2, compressed form: first byte carries three flags          *)
(* (compression, infinity, sign = "y is the lexicographically larger root"); *)
(* the rest is the x coordinate (G2: c1 then c0), big-endian, < p.            *)
(*   x classes: zero   all coordinate bits zero                               *)
(*              sub    x of a point of the prime-order subgroup               *)
(*              nosub  x of a curve point outside the subgroup                *)
(*              offc   x with x^3 + b not a square                            *)
(*              gep    coordinate >= p                                        *)
(* Ristretto (ed25519 instance): 32 bytes, little-endian field element s,     *)
(* canonical (< p), non-negative (low bit clear) and decodable.               *)
(* Scalars: Fr big-endian, ed25519 scalar little-endian, value < group order. *)
(***************************************************************************)
EXTENDS Naturals, Integers, Sequences, FiniteSets, TLC, Json

XClasses == {"zero", "sub", "nosub", "offc", "gep"}
BlsRows == [kind : {"bls"}, curve : {"G1", "G2"}, comp : BOOLEAN, inf : BOOLEAN, sign : BOOLEAN, x : XClasses, which : {1, 2}]
RistRows == [kind : {"ristretto"}, cls : {"identity", "valid", "negated", "plus_p", "p_itself", "all_ff", "high_bit"}, which : {1, 2, 3}]
ScalarRows == [kind : {"scalar"}, field : {"Fr", "Ed"}, v : {"0", "1", "r-1", "r", "r+1", "2^255", "2^256-1", "2^255-1"}]

Msgs == {"empty", "a", "b", "a0", "long"}
HashRows == [kind : {"hash"}, curve : {"G1", "G2", "Ed"}, m1 : Msgs, m2 : Msgs]

(* what an accepted encoding denotes: the identity, or the point with that x and that sign of y *)
BlsDecode(r) ==
  IF ~r.comp THEN <<"reject">>
  ELSE IF r.inf THEN (IF ~r.sign /\ r.x = "zero" THEN <<"identity">> ELSE <<"reject">>)
  ELSE IF r.x = "sub" THEN <<"point", r.which, r.sign>> ELSE <<"reject">>

RistDecode(r) == CASE r.cls = "identity" -> <<"identity">> [] r.cls = "valid" -> <<"point", r.which>> [] OTHER -> <<"reject">>

(* r < 2^255 for both fields; 2^255 - 1 >= r for both *)
ScalarAccept(r) == r.v \in {"0", "1", "r-1"}

Expect(r) == CASE r.kind = "bls" -> BlsDecode(r) # <<"reject">> [] r.kind = "ristretto" -> RistDecode(r) # <<"reject">> [] r.kind = "scalar" -> ScalarAccept(r)
             [] r.kind = "hash" -> r.m1 = r.m2      \* hashing to the group: equal outputs exactly for equal messages

VARIABLE row
PInit == row \in BlsRows \cup RistRows \cup ScalarRows \cup HashRows
PSpec == PInit /\ [][UNCHANGED row]_row

(* canonicity of the table: two different accepted rows never denote the same element *)
Canonical ==
  /\ row.kind = "bls" /\ Expect(row) => \A o \in BlsRows : (o.curve = row.curve /\ Expect(o) /\ BlsDecode(o) = BlsDecode(row)) =>
                                                          (o = row \/ (BlsDecode(row) = <<"identity">> /\ [o EXCEPT !.which = row.which] = row))
  /\ row.kind = "ristretto" /\ Expect(row) => \A o \in RistRows : (Expect(o) /\ RistDecode(o) = RistDecode(row)) => (o = row \/ RistDecode(row) = <<"identity">>)
(* both roots of an accepted x are accepted and denote different points *)
BothSigns == (row.kind = "bls" /\ Expect(row) /\ ~row.inf) => /\ Expect([row EXCEPT !.sign = ~row.sign])
                                                                /\ BlsDecode([row EXCEPT !.sign = ~row.sign]) # BlsDecode(row)
PExport == PrintT(<<"REPLAY", ToJson([row |-> row, accept |-> Expect(row)])>>)
=============================================================================
