---------------------------- MODULE PresentationV1 ----------------------------
(***************************************************************************)
(* V1 verifiable presentations and their verification against an anchored  *)
(* verification request (C18; web3id::v1, v1::proofs, v1::anchor,           *)
(* v1::anchor::verify).                                                      *)
(*                                                                           *)
(* A verifier publishes a request (context: given properties + labels the    *)
(* holder must fill in; claims: allowed credential kinds, allowed issuers,   *)
(* statements) and anchors its hash in a block.  A holder answers with a     *)
(* presentation: a filled-in context and, per claim, a credential (account   *)
(* based or identity based) with statements and proofs.  The verifier runs   *)
(* a pipeline of checks; the FIRST failing check names the failure:          *)
(*                                                                           *)
(*   network -> validity -> anchor hash -> anchor block hash -> proofs ->    *)
(*   context -> claims (per position: kind, issuer, statements)              *)
(*                                                                           *)
(* One action per check, as in verify_presentation_with_request_anchor.      *)
(* The declarative side (Failing) says which checks a scenario violates;     *)
(* the invariants tie the two together and state the property: a verdict     *)
(* "Verified" implies every requested statement is true of the attributes    *)
(* and nothing deviates.                                                     *)
(*                                                                           *)
(* Attribute values: tag 0 is a string, tag 8 a number (u64), tag 3 a point   *)
(* in time.  Values are indices into StrVals / NumVals / TimeVals, listed in  *)
(* the order of their field elements (times: chronological - the conversion   *)
(* of a date-time to its field element must preserve the order, from the      *)
(* earliest to the latest representable instant).                             *)
(***************************************************************************)
EXTENDS Naturals, Sequences, FiniteSets, TLC, Json

StrVals == <<"", "a", "b", "ab", "zz">>
NumVals == <<"0", "1", "5", "9", "10", "255", "4294967295", "4294967296", "18446744073709551614", "18446744073709551615">>
TimeVals == <<"MIN", "0000-01-01T00:00:00Z", "1969-12-31T23:59:59.999Z", "1970-01-01T00:00:00Z", "2023-08-28T23:12:15Z", "2023-08-28T23:12:15.001Z", "9999-12-31T23:59:59Z", "MAX">>
NT == Len(TimeVals)
NS == Len(StrVals)
NN == Len(NumVals)

AtomTrue(a, attrs) ==
  CASE a.k = "equals" -> attrs[a.tag] = a.v
    [] a.k = "in_range" -> a.lo <= attrs[a.tag] /\ attrs[a.tag] < a.hi
    [] a.k = "in_set" -> attrs[a.tag] \in a.set
    [] a.k = "not_in_set" -> attrs[a.tag] \notin a.set
StmtTrue(s, attrs) == \A i \in 1..Len(s) : AtomTrue(s[i], attrs)

Tags == {0, 3, 8}
AttrOf(a0, a3, a8) == [t \in Tags |-> IF t = 0 THEN a0 ELSE IF t = 3 THEN a3 ELSE a8]
AttrChoices == { AttrOf(2, 5, 4), AttrOf(4, NT, NN), AttrOf(1, 1, 1) }
DefaultAttrs == AttrOf(2, 5, 4)

(* every atom has the same shape; fields a kind does not use are 0 / {} *)
Atom(k, tag, v, lo, hi, set) == [k |-> k, tag |-> tag, v |-> v, lo |-> lo, hi |-> hi, set |-> set]
EqAtoms == { Atom("equals", 0, x, 0, 0, {}) : x \in 1..NS } \cup { Atom("equals", 8, x, 0, 0, {}) : x \in {1, 4, NN} }
RangeAtoms == { Atom("in_range", 8, 0, lo, hi, {}) : lo \in {1, 3, 4, 5, NN - 1}, hi \in {1, 4, 5, 6, NN} }
SetAtoms == { Atom(kk, 0, 0, 0, 0, S) : kk \in {"in_set", "not_in_set"}, S \in { {2}, {1, 5}, {2, 3, 4} } }
            \cup { Atom(kk, 8, 0, 0, 0, S) : kk \in {"in_set", "not_in_set"}, S \in { {4}, {1, NN}, {2, 3, 5} } }
TimeAtoms == { Atom("in_range", 3, 0, lo, hi, {}) : lo \in {1, 3, 4, 5}, hi \in {2, 5, 6, NT} }
             \cup { Atom("equals", 3, x, 0, 0, {}) : x \in {1, 5, NT} } \cup { Atom(kk, 3, 0, 0, 0, S) : kk \in {"in_set", "not_in_set"}, S \in { {5}, {1, NT}, {4, 6} } }
Atoms == EqAtoms \cup RangeAtoms \cup SetAtoms \cup TimeAtoms
DefaultStmt == << Atom("in_range", 8, 0, 3, 6, {}), Atom("equals", 0, 2, 0, 0, {}) >>      \* the equals statement last: alterations of the last statement / proof leave the transcript of the first intact
Stmts == { <<a>> : a \in Atoms } \cup { <<>> } \cup { <<a, b>> : a \in { x \in EqAtoms : x.tag = 0 }, b \in { x \in RangeAtoms : x.lo = 3 } } \cup {DefaultStmt}

(* the statement with its last atom replaced by a neighbouring one (another bound / another set / another tag) *)
Neighbour(a) ==
  CASE a.k = "equals" -> [a EXCEPT !.tag = IF a.tag = 0 THEN 3 ELSE 0]
    [] a.k = "in_range" -> [a EXCEPT !.hi = IF a.hi < (IF a.tag = 3 THEN NT ELSE NN) THEN a.hi + 1 ELSE a.hi - 1]
    [] OTHER -> [a EXCEPT !.set = a.set \cup {IF 3 \in a.set THEN 1 ELSE 3}]
AlterLast(s) == IF s = <<>> THEN s ELSE [s EXCEPT ![Len(s)] = Neighbour(s[Len(s)])]
Front(s) == IF s = <<>> THEN s ELSE SubSeq(s, 1, Len(s) - 1)

(* ---------------------------------------------------------------- scenario *)
Fields == {"cred_net", "ctx_net", "time", "anchor", "pres_given", "req_requested", "pres_requested", "crypto", "claims", "sources", "issuers", "req_stmt"}
Default == [f \in Fields |->
  CASE f = "cred_net" -> "T" [] f = "ctx_net" -> "T" [] f = "time" -> "inside" [] f = "anchor" -> "ok" [] f = "pres_given" -> "same"
    [] f = "req_requested" -> "bh" [] f = "pres_requested" -> "filled" [] f = "crypto" -> "none" [] f = "claims" -> "one" [] f = "sources" -> "both"
    [] f = "issuers" -> "exact" [] f = "req_stmt" -> "same"]
(* alterations of the presentation or of the verification material after proving.  "revealed_marker(_forged)": the proof of the last (equals) statement is replaced by the
   marker "value already revealed" (and the claimed value by another one) - an account credential reveals nothing, an identity credential reveals the true value;
   "extra_sharing_coeff": one more (neutral) commitment to a sharing coefficient than the revocation threshold of the identity credential *)
CryptoCommon == {"statement_swapped", "context_after", "proof_truncated", "pair_truncated", "network_after", "created_after", "material_other", "material_kind", "material_count", "issuer_after", "cred_id_after",
                 "revealed_marker_forged"}
CryptoOf(kind) == CryptoCommon \cup (IF kind = "account" THEN {"material_issuer", "revealed_marker"} ELSE {"validity_after", "extra_sharing_coeff"})
Alt(kind) == [f \in Fields |->
  CASE f = "cred_net" -> {"M"} [] f = "ctx_net" -> {"M"}
    [] f = "time" -> {"before", "start", "last", "end", "after"}
    [] f = "anchor" -> {"given", "requested", "statements", "issuers", "sources"}
    [] f = "pres_given" -> {"value", "order", "unknown_label", "bad_value", "missing", "extra", "nonce"}
    [] f = "req_requested" -> {"none", "bh_ph", "ph_bh"}
    [] f = "pres_requested" -> {"no_blockhash", "bad_blockhash", "other_blockhash", "extra", "unknown_label", "second_blockhash", "blockhash_first_other"}
    [] f = "crypto" -> CryptoOf(kind)
    [] f = "claims" -> {"two_in_request", "two_in_presentation", "two_both", "none_in_request"}
    [] f = "sources" -> {"account_only", "identity_only", "none"}
    [] f = "issuers" -> {"among", "cross", "other_idp", "other_net", "empty", "both_nets"}
    [] f = "req_stmt" -> {"bound", "extra", "fewer", "swapped"}]
Pairs(kind) == UNION { { <<f, v>> : v \in Alt(kind)[f] } : f \in Fields }
Dev(P) == [f \in Fields |-> IF \E p \in P : p[1] = f THEN (CHOOSE p \in P : p[1] = f)[2] ELSE Default[f]]
CONSTANT MaxDev          \* 1: single deviations, 2: also every pair of deviations in different fields
Scenarios(kind) == {Default} \cup { Dev({p}) : p \in Pairs(kind) }
                   \cup (IF MaxDev >= 2 THEN UNION { { Dev({p, q}) : q \in { r \in Pairs(kind) : r[1] # p[1] } } : p \in Pairs(kind) } ELSE {})

VARIABLES kind, attrs, stmt, sc, stage, pos, verdict
vars == <<kind, attrs, stmt, sc, stage, pos, verdict>>

Other(n) == IF n = "T" THEN "M" ELSE "T"
IssuersOf(t) ==
  CASE t = "exact" -> << <<17, "T">> >> [] t = "among" -> << <<0, "T">>, <<1, "T">>, <<17, "T">> >> [] t = "cross" -> << <<17, "M">>, <<18, "T">> >>
    [] t = "other_idp" -> << <<18, "T">> >> [] t = "other_net" -> << <<17, "M">> >> [] t = "empty" -> <<>> [] t = "both_nets" -> << <<17, "M">>, <<17, "T">> >>
SourcesOf(t) == CASE t = "both" -> <<"identity", "account">> [] t = "account_only" -> <<"account">> [] t = "identity_only" -> <<"identity">> [] t = "none" -> <<>>
Range(s) == { s[i] : i \in 1..Len(s) }

(* ---- context ---- *)
KnownLabels == {"Nonce", "PaymentHash", "BlockHash", "ConnectionID", "ResourceID", "ContextString"}
HashLabels == {"Nonce", "PaymentHash", "BlockHash"}
HexTokens == {"n1", "n2", "h1", "h2", "p1"}      \* stand for well-formed 32-byte hex strings; h1 is the block the anchor is registered in
ReqGiven == << <<"Nonce", "n1">>, <<"ConnectionID", "conn">>, <<"ResourceID", "res">>, <<"ContextString", "str">> >>
PresGivenOf(t) ==
  CASE t = "same" -> ReqGiven
    [] t = "value" -> [ReqGiven EXCEPT ![2] = <<"ConnectionID", "conn2">>]
    [] t = "order" -> [ReqGiven EXCEPT ![2] = ReqGiven[3], ![3] = ReqGiven[2]]
    [] t = "unknown_label" -> [ReqGiven EXCEPT ![4] = <<"Foo", "str">>]
    [] t = "bad_value" -> [ReqGiven EXCEPT ![1] = <<"Nonce", "zz">>]
    [] t = "missing" -> SubSeq(ReqGiven, 1, 3)
    [] t = "extra" -> Append(ReqGiven, <<"ContextString", "more">>)
    [] t = "nonce" -> [ReqGiven EXCEPT ![1] = <<"Nonce", "n2">>]
ReqRequestedOf(t) == CASE t = "bh" -> <<"BlockHash">> [] t = "none" -> <<>> [] t = "bh_ph" -> <<"BlockHash", "PaymentHash">> [] t = "ph_bh" -> <<"PaymentHash", "BlockHash">>
Filled(labels) == [i \in 1..Len(labels) |-> <<labels[i], IF labels[i] = "BlockHash" THEN "h1" ELSE "p1">>]
RECURSIVE Without(_, _)
Without(s, l) == IF s = <<>> THEN <<>> ELSE IF Head(s)[1] = l THEN Without(Tail(s), l) ELSE <<Head(s)>> \o Without(Tail(s), l)
SetBlockHash(s, v) == [i \in 1..Len(s) |-> IF s[i][1] = "BlockHash" THEN <<"BlockHash", v>> ELSE s[i]]
PresRequestedOf(t, labels) ==
  LET f == Filled(labels) IN
  CASE t = "filled" -> f
    [] t = "no_blockhash" -> Without(f, "BlockHash")
    [] t = "bad_blockhash" -> SetBlockHash(f, "xyz")
    [] t = "other_blockhash" -> SetBlockHash(f, "h2")
    [] t = "extra" -> Append(f, <<"ResourceID", "r2">>)
    [] t = "unknown_label" -> Append(f, <<"Bar", "x">>)
    [] t = "second_blockhash" -> Append(f, <<"BlockHash", "h2">>)
    [] t = "blockhash_first_other" -> << <<"BlockHash", "h2">> >> \o f

(* the presentation as the verifier sees it (after the holder / an attacker altered it) *)
PresGiven == LET g == PresGivenOf(sc.pres_given) IN IF sc.crypto = "context_after" THEN [g EXCEPT ![1] = <<"Nonce", IF g[1][2] = "n1" THEN "n2" ELSE "n1">>] ELSE g
ReqRequested == ReqRequestedOf(sc.req_requested)
PresRequested == PresRequestedOf(sc.pres_requested, ReqRequested)
NP == IF sc.claims \in {"two_in_presentation", "two_both"} THEN 2 ELSE 1                 \* credentials in the presentation
NR == IF sc.claims \in {"two_in_request", "two_both"} THEN 2 ELSE IF sc.claims = "none_in_request" THEN 0 ELSE 1
SecondStmt == << Atom("equals", 0, attrs[0], 0, 0, {}) >>
PresStmt(i) == IF i = 2 THEN SecondStmt ELSE IF sc.crypto = "statement_swapped" THEN AlterLast(stmt) ELSE IF sc.crypto = "pair_truncated" THEN Front(stmt) ELSE stmt
PresKind(i) == IF i = 2 THEN "account" ELSE kind
PresNet(i) == IF i = 1 /\ sc.crypto = "network_after" THEN Other(sc.cred_net) ELSE sc.cred_net
PresIssuer(i) == IF i = 1 /\ sc.crypto = "issuer_after" THEN 18 ELSE 17
(* what the request asks for at position i: an "equals" statement answers a request to reveal that attribute *)
Requested(a) == IF a.k = "equals" THEN [a EXCEPT !.k = "reveal", !.v = 0] ELSE a
ReqOf(s) == [j \in 1..Len(s) |-> Requested(s[j])]
ReqStmt(i) ==
  IF i = 2 THEN ReqOf(SecondStmt)
  ELSE LET r == ReqOf(stmt) IN
       CASE sc.req_stmt = "same" -> r
         [] sc.req_stmt = "bound" -> ReqOf(AlterLast(stmt))
         [] sc.req_stmt = "extra" -> Append(r, Atom("reveal", 3, 0, 0, 0, {}))
         [] sc.req_stmt = "fewer" -> Front(r)
         [] sc.req_stmt = "swapped" -> IF Len(r) = 2 THEN <<r[2], r[1]>> ELSE r

(* ---- the single checks, declaratively ---- *)
Provable == StmtTrue(stmt, attrs)
NetworkFail == \E i \in 1..NP : PresNet(i) # sc.ctx_net
ValidityFail == IF sc.time = "before" THEN {"CredentialNotValidYet"} ELSE IF sc.time \in {"end", "after"} THEN {"CredentialExpired"} ELSE {}
AnchorFail == sc.anchor # "ok"
BlockHashIdx == { i \in 1..Len(PresRequested) : PresRequested[i][1] = "BlockHash" }
FirstBlockHash == PresRequested[CHOOSE i \in BlockHashIdx : \A j \in BlockHashIdx : i <= j][2]
BlockHashFail == IF BlockHashIdx = {} THEN {"NoVraBlockHash"} ELSE IF FirstBlockHash \notin HexTokens THEN {"InvalidContextPropertyValue"} ELSE IF FirstBlockHash # "h1" THEN {"VraBlockHash"} ELSE {}
CryptoFail == ~Provable \/ sc.crypto # "none"
PropError(p) == IF p[1] \notin KnownLabels THEN "UnknownContextProperty" ELSE IF p[1] \in HashLabels /\ p[2] \notin HexTokens THEN "InvalidContextPropertyValue" ELSE "ok"
BadIdx(s) == { i \in 1..Len(s) : PropError(s[i]) # "ok" }
FirstError(s) == PropError(s[CHOOSE i \in BadIdx(s) : \A j \in BadIdx(s) : i <= j])
Labels(s) == [i \in 1..Len(s) |-> s[i][1]]
ContextFail ==
  IF BadIdx(PresGiven) # {} THEN {FirstError(PresGiven)}
  ELSE IF PresGiven # ReqGiven THEN {"ContextInformation"}
  ELSE IF BadIdx(PresRequested) # {} THEN {FirstError(PresRequested)}
  ELSE IF Labels(PresRequested) # ReqRequested THEN {"ContextInformation"} ELSE {}
ClaimFail(i) ==
  IF i > NP \/ i > NR THEN {"SubjectClaims"}
  ELSE IF PresKind(i) \notin Range(SourcesOf(IF i = 2 THEN "both" ELSE sc.sources)) THEN {"CredentialType"}
  ELSE IF <<PresIssuer(i), PresNet(i)>> \notin Range(IssuersOf(sc.issuers)) THEN {"CredentialIssuer"}
  ELSE IF ReqOf(PresStmt(i)) # ReqStmt(i) THEN {"SubjectClaims"} ELSE {}
MaxPos == IF NP > NR THEN NP ELSE NR
Failing == (IF NetworkFail THEN {"Network"} ELSE {}) \cup ValidityFail \cup (IF AnchorFail THEN {"RequestAnchor"} ELSE {}) \cup BlockHashFail
           \cup (IF CryptoFail THEN {"PresentationUnverifiable"} ELSE {}) \cup ContextFail \cup UNION { ClaimFail(i) : i \in 1..MaxPos }

(* ---------------------------------------------------------------- pipeline *)
Init == /\ kind \in {"account", "identity"}
        /\ \/ attrs = DefaultAttrs /\ stmt = DefaultStmt /\ sc \in Scenarios(kind)
           \/ attrs \in AttrChoices /\ stmt \in Stmts /\ sc = Default
        /\ stage = "network" /\ pos = 1 /\ verdict = "pending"
Step(s, failures, next) == /\ stage = s
                           /\ IF failures # {} THEN verdict' = (CHOOSE x \in failures : TRUE) /\ stage' = "done" ELSE verdict' = verdict /\ stage' = next
                           /\ UNCHANGED <<kind, attrs, stmt, sc, pos>>
CheckNetwork == Step("network", IF NetworkFail THEN {"Network"} ELSE {}, "validity")
CheckValidity == Step("validity", ValidityFail, "anchor")
CheckAnchor == Step("anchor", IF AnchorFail THEN {"RequestAnchor"} ELSE {}, "block_hash")
CheckBlockHash == Step("block_hash", BlockHashFail, "proofs")
CheckProofs == Step("proofs", IF CryptoFail THEN {"PresentationUnverifiable"} ELSE {}, "context")
CheckContext == Step("context", ContextFail, "claims")
CheckClaim == /\ stage = "claims"
              /\ IF pos > MaxPos THEN verdict' = "Verified" /\ stage' = "done" /\ pos' = pos
                 ELSE IF ClaimFail(pos) # {} THEN verdict' = (CHOOSE x \in ClaimFail(pos) : TRUE) /\ stage' = "done" /\ pos' = pos
                 ELSE verdict' = verdict /\ stage' = stage /\ pos' = pos + 1
              /\ UNCHANGED <<kind, attrs, stmt, sc>>
Next == CheckNetwork \/ CheckValidity \/ CheckAnchor \/ CheckBlockHash \/ CheckProofs \/ CheckContext \/ CheckClaim
Spec == Init /\ [][Next]_vars

(* ---------------------------------------------------------------- properties *)
Done == stage = "done"
(* the pipeline verifies exactly the scenarios in which no check fails, and names a check that does fail *)
VerifiedIffNothingFails == Done => ((verdict = "Verified") <=> (Failing = {}))
NamesAFailingCheck == (Done /\ verdict # "Verified") => verdict \in Failing
(* C18: a verified presentation proves what was asked: every requested statement is true of the committed attributes, the credential is of an allowed kind, from an allowed
   issuer on the network of the verifier, valid now, made for this request and context, and unaltered *)
AtomAsked(a) == IF a.k = "reveal" THEN TRUE ELSE AtomTrue(a, attrs)
VerifiedMeansTrue == (Done /\ verdict = "Verified") =>
   /\ \A j \in 1..Len(ReqStmt(1)) : NR >= 1 => AtomAsked(ReqStmt(1)[j])
   /\ sc.crypto = "none" /\ sc.anchor = "ok" /\ sc.ctx_net = sc.cred_net /\ sc.time \in {"start", "inside", "last"}
   /\ NR >= 1 => (kind \in Range(SourcesOf(sc.sources)) /\ <<17, sc.cred_net>> \in Range(IssuersOf(sc.issuers)))
   /\ PresGiven = ReqGiven /\ Labels(PresRequested) = ReqRequested
(* a true, unaltered answer to the request is accepted (completeness) *)
HonestIsVerified == (Done /\ sc = Default /\ Provable) => verdict = "Verified"

RECURSIVE SortedSeq(_)
SortedSeq(S) == IF S = {} THEN <<>> ELSE LET m == CHOOSE m \in S : \A o \in S : m <= o IN <<m>> \o SortedSeq(S \ {m})
(* After a verified exchange the verifier files an audit record (id, request, presentation) and anchors its hash: the anchor is a function of the record and
   records that differ in any one of these parts have different anchors; anchors, records and requests survive their CBOR / JSON / binary encodings.  The
   harness checks this for every fourth verified row. *)
AuditParts == {"id", "request", "presentation"}

AtomOut(a) == [a EXCEPT !.set = SortedSeq(a.set)]
StmtOut(s) == [j \in 1..Len(s) |-> AtomOut(s[j])]
Export == Done => PrintT(<<"REPLAY", ToJson([kind |-> kind, strvals |-> StrVals, numvals |-> NumVals, timevals |-> TimeVals, a0 |-> attrs[0], a3 |-> attrs[3], a8 |-> attrs[8],
            stmt |-> StmtOut(stmt), sc |-> sc,
            req_given |-> ReqGiven, req_requested |-> ReqRequested, pres_given |-> PresGivenOf(sc.pres_given), pres_requested |-> PresRequested,
            issuers |-> IssuersOf(sc.issuers), sources |-> SourcesOf(sc.sources), req_stmt |-> StmtOut(ReqStmt(1)), second_req_stmt |-> StmtOut(ReqStmt(2)), second_stmt |-> StmtOut(SecondStmt), altered_stmt |-> StmtOut(AlterLast(stmt)),
            np |-> NP, nr |-> NR, provable |-> Provable, expected |-> verdict, failing |-> Failing])>>)
=============================================================================
