SPECIFICATION SSpec
CONSTANTS
  FixR = TRUE
  Q = 3
  Proto = "enc_trans"
INVARIANTS Complete ResponseBound StatementBound
CHECK_DEADLOCK FALSE
