SPECIFICATION SSpec
CONSTANTS
  FixR = TRUE
  Q = 2
  Proto = "enc_trans"
INVARIANTS Complete ResponseBound StatementBound
CHECK_DEADLOCK FALSE
