SPECIFICATION ESpec
CONSTANTS
  W = 2
  Table = 4
  MaxOps = 3
INVARIANTS Denotes DecryptInverse Conservation NoOverdraft
CONSTRAINT Bound
CHECK_DEADLOCK FALSE
