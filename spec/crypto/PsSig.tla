--------------------------------- MODULE PsSig ---------------------------------
(***************************************************************************)
(* Pointcheval-Sanders signatures on message vectors, with blind issuance   *)
(* (C19).  A key signs vectors of up to N scalars; a shorter vector is the   *)
(* same as the vector padded with zeros (the missing components carry no     *)
(* weight), so a signature is a term <<padded vector, residue>>:             *)
(*   sign_known(M)                      -> <<Pad(M), 0>>  (error if |M| > N) *)
(*   commit(M, r); sign_unknown; retrieve(r') -> <<Pad(M), r - r'>>           *)
(* and verify(sig, M') holds iff |M'| <= N, the residue is 0 and              *)
(* Pad(M') = the signed vector.  Scalars are symbolic: 0 is the zero scalar,  *)
(* 1 and 2 are two different non-zero scalars.                                 *)
(***************************************************************************)
EXTENDS Naturals, Integers, Sequences, FiniteSets, TLC, Json

CONSTANT N
Scal == {0, 1, 2}
Vecs(maxLen) == UNION {[1..n -> Scal] : n \in 0..maxLen}
Pad(M) == [i \in 1..N |-> IF i <= Len(M) THEN M[i] ELSE 0]

(* message vectors to verify against, near the signed one *)
Near(M) ==
  {M} \cup {Append(M, 0), Append(M, 1)}
      \cup (IF M = <<>> THEN {} ELSE {SubSeq(M, 1, Len(M) - 1)})
      \cup {[M EXCEPT ![i] = s] : i \in 1..Len(M), s \in Scal}

VARIABLES path, M, rOk, Mv
pvars == <<path, M, rOk, Mv>>
PInit == /\ path \in {"known", "unknown"}
         /\ M \in Vecs(N + 1)
         /\ rOk \in (IF path = "unknown" THEN BOOLEAN ELSE {TRUE})
         /\ Mv \in Near(M)
PSpec == PInit /\ [][UNCHANGED pvars]_pvars

SignOk == Len(M) <= N
Verifies == SignOk /\ Len(Mv) <= N /\ rOk /\ Pad(Mv) = Pad(M)
(* unblinding with the right randomness gives a signature valid on exactly the committed vector (up to zero padding) *)
Exactly == (SignOk /\ rOk /\ Len(Mv) <= N) => (Verifies <=> \A i \in 1..N : Pad(Mv)[i] = Pad(M)[i])
SExport == PrintT(<<"REPLAY", ToJson([kind |-> "ps_sig", path |-> path, m |-> M, r_ok |-> rOk, mv |-> Mv, sign_ok |-> SignOk, verifies |-> Verifies, n |-> N])>>)
=============================================================================
