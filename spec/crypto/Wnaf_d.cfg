SPECIFICATION WSpec
CONSTANTS
  LimbBits = 5
  Limbs = 3
  W = 5
INVARIANTS DigitsWellFormed PartialSum Recoded
CHECK_DEADLOCK FALSE
