------------------------------ MODULE Transcript ------------------------------
(***************************************************************************)
(* The byte stream that is hashed into a Fiat-Shamir challenge (C07).       *)
(* TranscriptProtocolV1:  label      = u64be(|l|) ++ l                      *)
(*                        message    = label ++ Ser(m)                      *)
(*                        messages   = label ++ u64be(#ms) ++ Ser(m_1) ...  *)
(*                        the domain is the first label; the challenge is   *)
(*                        SHA3-256 of everything appended so far.            *)
(* The legacy RandomOracle appends labels without length prefix and item     *)
(* lists without count (its documentation says framing is the caller's job). *)
(* Items have fixed-width serialisations here (u8, u32 big endian, 32-byte   *)
(* scalars), labels are byte strings.                                        *)
(* Two runs are built in lockstep with the same shape (operation kinds and    *)
(* item types) but arbitrary labels and contents: V1 framing is injective.    *)
(***************************************************************************)
EXTENDS Naturals, Integers, Sequences, FiniteSets, TLC, Json

CONSTANTS MaxOps
Labels == {<<>>, <<97>>, <<98>>, <<97, 98>>, <<97, 97>>, <<0>>}
U8s == {0, 1, 97}
Flat(seqs) == LET RECURSIVE go(_) go(s) == IF s = <<>> THEN <<>> ELSE s[1] \o go(Tail(s)) IN go(seqs)
U64be(n) == <<0, 0, 0, 0, 0, 0, 0, n>>      \* n < 256 here
Ser(item) == CASE item[1] = "u8" -> <<item[2]>> [] item[1] = "u32" -> <<0, 0, 0, item[2]>> [] item[1] = "scalar" -> [i \in 1..32 |-> IF i = 32 THEN item[2] ELSE 0]
Items == {<<"u8", v>> : v \in U8s} \cup {<<"u32", v>> : v \in {0, 97}} \cup {<<"scalar", v>> : v \in {1, 2}}

LabelV1(l) == U64be(Len(l)) \o l
OpBytesV1(op) ==
  CASE op.k = "label" -> LabelV1(op.l)
    [] op.k = "message" -> LabelV1(op.l) \o Ser(op.m)
    [] op.k = "messages" -> LabelV1(op.l) \o U64be(Len(op.ms)) \o Flat([i \in 1..Len(op.ms) |-> Ser(op.ms[i])])
OpBytesLegacy(op) ==
  CASE op.k = "label" -> op.l
    [] op.k = "message" -> op.l \o Ser(op.m)
    [] op.k = "messages" -> op.l \o Flat([i \in 1..Len(op.ms) |-> Ser(op.ms[i])])
BytesV1(s) == Flat([i \in 1..Len(s) |-> OpBytesV1(s[i])])
BytesLegacy(s) == Flat([i \in 1..Len(s) |-> OpBytesLegacy(s[i])])

VARIABLES s1, s2
tvars == <<s1, s2>>
TInit == s1 = <<>> /\ s2 = <<>>
SameType(a, b) == a[1] = b[1]
AddLabel == \E l1 \in Labels, l2 \in Labels : s1' = Append(s1, [k |-> "label", l |-> l1]) /\ s2' = Append(s2, [k |-> "label", l |-> l2])
AddMessage == \E l1 \in Labels, l2 \in Labels, m1 \in Items, m2 \in Items :
                 SameType(m1, m2) /\ s1' = Append(s1, [k |-> "message", l |-> l1, m |-> m1]) /\ s2' = Append(s2, [k |-> "message", l |-> l2, m |-> m2])
(* item lists may differ in length: the count is part of the framing *)
Lists == {<<>>} \cup {<<a>> : a \in {<<"u8", 0>>, <<"u8", 1>>}} \cup {<<a, b>> : a \in {<<"u8", 0>>, <<"u8", 1>>}, b \in {<<"u8", 0>>, <<"u8", 1>>}}
AddMessages == \E l1 \in {<<>>, <<97>>, <<0>>}, l2 \in {<<>>, <<97>>, <<0>>}, a \in Lists, b \in Lists :
                  s1' = Append(s1, [k |-> "messages", l |-> l1, ms |-> a]) /\ s2' = Append(s2, [k |-> "messages", l |-> l2, ms |-> b])
TNext == Len(s1) < MaxOps /\ (AddLabel \/ AddMessage \/ AddMessages)
TSpec == TInit /\ [][TNext]_tvars

(* unique readability of the V1 framing *)
InjectiveV1 == BytesV1(s1) = BytesV1(s2) => s1 = s2
(* the legacy framing is not injective (documented): this is the witness kept as a regression for the model, not a property *)
LegacyAmbiguous == \E a, b \in Labels : a # b /\ BytesLegacy(<<[k |-> "label", l |-> a], [k |-> "label", l |-> <<98>>]>>) = BytesLegacy(<<[k |-> "label", l |-> b]>>)
ASSUME LegacyAmbiguous
TExport == PrintT(<<"REPLAY", ToJson([kind |-> "transcript", ops |-> s1, v1 |-> BytesV1(s1), legacy |-> BytesLegacy(s1)])>>)
tview == s1
=============================================================================
