-------------------------------- MODULE HdPath --------------------------------
(***************************************************************************)
(* Hierarchical key derivation of the Concordium wallet (C20): every getter *)
(* of ConcordiumHdWallet is a fixed hardened SLIP-10 path below             *)
(*      m / purpose' / net'            purpose = 44 (identity, accounts)    *)
(*                                     purpose = 1958950021 (web3 creds)    *)
(*                                     net = 919 mainnet, 1 testnet         *)
(* and SLIP-10 (ed25519) is the HMAC-SHA512 chain                            *)
(*      I(m)      = HMAC(key = "ed25519 seed", data = seed)                  *)
(*      I(k / i') = HMAC(key = R(I(k)), data = 0x00 ++ L(I(k)) ++ ser32(i + 2^31)) *)
(* with the private key L(I(path)).  Paths are sequences of UN-hardened      *)
(* indices; hardening is implied for every level; indices >= 2^31 cannot be  *)
(* hardened and make the getter fail.  Index tokens: naturals below 2^31,     *)
(* -1 stands for 2^31, -2 for 2^32 - 1.                                        *)
(* BLS-based secrets (idCredSec, PRF key, blinding and attribute randomness)  *)
(* are keygen_bls(private key, "") of the path's private key.                 *)
(***************************************************************************)
EXTENDS Naturals, Integers, Sequences, FiniteSets, TLC, Json

Nets == {"Mainnet", "Testnet"}
NetCode(n) == IF n = "Mainnet" THEN 919 ELSE 1
IdPurpose == 44
VcPurpose == 1958950021
Idx == {0, 1, 2147483647, -1, -2}          \* small, largest hardenable, 2^31, 2^32-1
SmallIdx == {0, 1, 2}
Tags == {0, 1, 255}
Chunks == {0, 1, 65535}

Calls ==
  [g : {"account_signing_key", "account_public_key"}, ip : Idx, id : SmallIdx, cred : SmallIdx]
  \cup [g : {"account_signing_key", "account_public_key"}, ip : SmallIdx, id : Idx, cred : Idx]
  \cup [g : {"id_cred_sec", "prf_key", "blinding_randomness"}, ip : Idx, id : Idx]
  \cup [g : {"attribute_commitment_randomness"}, ip : SmallIdx, id : SmallIdx, cred : {0, 1, -1}, tag : Tags]
  \cup [g : {"vc_signing_key", "vc_public_key"}, issuer : [1..4 -> {0, 65535}], sub : [1..4 -> {0, 1}], vc : {0, 1, 2147483647, -1}]
  \cup [g : {"vc_signing_key", "vc_public_key"}, issuer : {<<0, 1, 65535, 2>>}, sub : {<<65535, 0, 0, 7>>}, vc : {0, 5}]
  \cup [g : {"vc_backup_encryption_key"}]

Suffix(c) ==
  CASE c.g \in {"account_signing_key", "account_public_key"} -> <<c.ip, c.id, 0, c.cred>>
    [] c.g = "id_cred_sec" -> <<c.ip, c.id, 2>>
    [] c.g = "prf_key" -> <<c.ip, c.id, 3>>
    [] c.g = "blinding_randomness" -> <<c.ip, c.id, 4>>
    [] c.g = "attribute_commitment_randomness" -> <<c.ip, c.id, 5, c.cred, c.tag>>
    [] c.g \in {"vc_signing_key", "vc_public_key"} -> <<0>> \o c.issuer \o c.sub \o <<c.vc, 0>>
    [] c.g = "vc_backup_encryption_key" -> <<1>>
Purpose(c) == IF c.g \in {"vc_signing_key", "vc_public_key", "vc_backup_encryption_key"} THEN VcPurpose ELSE IdPurpose
Path(c, net) == <<Purpose(c), NetCode(net)>> \o Suffix(c)
Hardenable(p) == \A i \in 1..Len(p) : p[i] >= 0
(* what the secret is made of *)
Form(c) == CASE c.g \in {"account_signing_key", "vc_signing_key", "vc_backup_encryption_key"} -> "ed25519_secret"
             [] c.g \in {"account_public_key", "vc_public_key"} -> "ed25519_public"
             [] OTHER -> "bls_scalar"
(* the signing-key call a public-key call belongs to *)
SecretOf(c) == IF c.g = "account_public_key" THEN [c EXCEPT !.g = "account_signing_key"]
               ELSE IF c.g = "vc_public_key" THEN [c EXCEPT !.g = "vc_signing_key"] ELSE c

VARIABLES call, net
HInit == call \in Calls /\ net \in Nets
HSpec == HInit /\ [][UNCHANGED <<call, net>>]_<<call, net>>

(* different secrets live on different paths: no two getters / argument tuples / networks share a path *)
Injective == \A c2 \in Calls, n2 \in Nets :
                (Path(c2, n2) = Path(call, net)) => (SecretOf(c2) = SecretOf(call) /\ n2 = net)
HExport == PrintT(<<"REPLAY", ToJson([kind |-> "hdpath", call |-> call, net |-> net, path |-> Path(call, net), ok |-> Hardenable(Path(call, net)), form |-> Form(call)])>>)
=============================================================================
