SPECIFICATION SSpec
CONSTANTS
  Q = 5
  MaxN = 3
  G = 2
INVARIANTS Reconstructs Secrecy SharesInField
CHECK_DEADLOCK FALSE
