SPECIFICATION Spec
CONSTANT MaxDev = 1
INVARIANTS VerifiedIffNothingFails NamesAFailingCheck VerifiedMeansTrue HonestIsVerified Export
CHECK_DEADLOCK FALSE
