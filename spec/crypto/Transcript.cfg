SPECIFICATION TSpec
CONSTANT MaxOps = 2
INVARIANTS InjectiveV1
CHECK_DEADLOCK FALSE
