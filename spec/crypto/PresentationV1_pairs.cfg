SPECIFICATION Spec
CONSTANT MaxDev = 2
INVARIANTS VerifiedIffNothingFails NamesAFailingCheck VerifiedMeansTrue HonestIsVerified Export
CHECK_DEADLOCK FALSE
