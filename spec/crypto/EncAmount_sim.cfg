SPECIFICATION ESpec
CONSTANTS
  W = 2
  Table = 4
  MaxOps = 4
INVARIANTS Denotes Conservation NoOverdraft ExportDone
CHECK_DEADLOCK FALSE
