------------------------------- MODULE MultiExp -------------------------------
(***************************************************************************)
(* What multi-exponentiation means (C20): for points g_1..g_n and scalars    *)
(* e_1..e_n the result is the group element sum_i e_i * g_i.  Points are      *)
(* given over a formal basis {g, h} (id, g, -g, h, g+h, and repetitions), so   *)
(* the result is a formal sum: a bag of (sign, scalar class, basis element)    *)
(* terms.  Terms with the zero scalar or the identity point contribute         *)
(* nothing.  The harness evaluates the formal sum with single scalar           *)
(* multiplications and additions and compares it with multiexp on G1, G2 and   *)
(* the ed25519 (Ristretto) instance.                                           *)
(* Scalar classes: small numbers, r-1, r-2, 2^k-1 and values whose limbs are   *)
(* all-ones / alternating (window boundaries of the w-NAF recoding).           *)
(***************************************************************************)
EXTENDS Naturals, Integers, Sequences, FiniteSets, TLC, Json

CONSTANT MaxLen
Points == {"id", "g", "negg", "h", "gph"}
Scalars == {"0", "1", "2", "r-1", "r-2", "2^64-1", "2^64", "2^128-1", "2^192+2^64-1", "2^252-1", "ones_alt", "f0f0", "rand1", "rand2"}

Terms(p, e) ==
  IF e = "0" \/ p = "id" THEN <<>>
  ELSE CASE p = "g" -> << <<1, e, "g">> >>
         [] p = "negg" -> << <<-1, e, "g">> >>
         [] p = "h" -> << <<1, e, "h">> >>
         [] p = "gph" -> << <<1, e, "g">>, <<1, e, "h">> >>

RECURSIVE Sum(_)
Sum(v) == IF v = <<>> THEN <<>> ELSE Terms(v[1][1], v[1][2]) \o Sum(Tail(v))

(* vector Pedersen commitments: k values under a key with n >= k generators g_1..g_n and blinding base h commit to
   sum_{i <= k} v_i * g_i + r * h - the blinding base is h whatever k is *)
VecCommitRows == { [kind |-> "vec_commit", n |-> n, values |-> vs, r |-> r] : n \in {1, 2, 5}, r \in {"0", "1", "rand1"},
                   vs \in UNION {[1..k -> {"0", "1", "r-1", "rand2"}] : k \in 0..2} \cup {[i \in 1..5 |-> "rand1"]} }
VecCommitOk(row) == Len(row.values) <= row.n

VARIABLE vec
(* longer vectors: the same point five times, all point classes in a row, a point and its inverse interleaved *)
LongVecs == {[i \in 1..5 |-> <<"g", e>>] : e \in Scalars}
            \cup {<< <<"id", e>>, <<"g", e>>, <<"negg", f>>, <<"h", e>>, <<"gph", f>> >> : e \in Scalars, f \in Scalars}
            \cup {<< <<"g", e>>, <<"negg", e>>, <<"g", e>>, <<"negg", e>> >> : e \in Scalars}
MInit == vec \in (UNION {[1..n -> Points \X Scalars] : n \in 0..MaxLen}) \cup LongVecs
MSpec == MInit /\ [][UNCHANGED vec]_vec

(* the empty product and products of identities / zero scalars are the identity *)
Neutral == (\A i \in 1..Len(vec) : vec[i][1] = "id" \/ vec[i][2] = "0") => Sum(vec) = <<>>
(* g and -g with the same scalar cancel: the sum of their terms has as many +g as -g terms for that scalar *)
MExport == PrintT(<<"REPLAY", ToJson([kind |-> "multiexp", vec |-> vec, sum |-> Sum(vec)])>>)
ASSUME PrintT(<<"ROWS", ToJson({[kind |-> "vec_commit", n |-> row.n, values |-> row.values, r |-> row.r, ok |-> VecCommitOk(row)] : row \in VecCommitRows})>>)
=============================================================================
