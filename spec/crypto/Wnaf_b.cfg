SPECIFICATION WSpec
CONSTANTS
  LimbBits = 4
  Limbs = 3
  W = 2
INVARIANTS DigitsWellFormed PartialSum Recoded
CHECK_DEADLOCK FALSE
