SPECIFICATION SSpec
CONSTANTS
  FixR = FALSE
  Q = 5
  Proto = "com_eq"
INVARIANTS Complete ResponseBound StatementBound EveryRowChecked SpecialSound
CHECK_DEADLOCK FALSE
