-------------------------------- MODULE SigAgg --------------------------------
(***************************************************************************)
(* BLS signatures with aggregation (C19).  A signature is a formal sum over *)
(* the basis (key, message): signing m with k is the unit vector, and        *)
(* aggregation adds vectors - that is what the group element                 *)
(* sum_{k,m} c[k,m] * sk_k * H(m) is for independent keys and messages.       *)
(* State: the aggregate built so far by Sign-and-Aggregate steps (starting    *)
(* from Signature::empty()).                                                  *)
(* Verifiers, each a predicate of the aggregate and a claimed list of          *)
(* (message, key) pairs:                                                       *)
(*   verify                      one pair                                      *)
(*   verify_aggregate_sig        list of pairs; false on the empty list and    *)
(*                               when two pairs carry the same message         *)
(*   verify_aggregate_sig_hybrid list of (message, keys); true iff the vector  *)
(*                               of the claim equals the aggregate (the empty   *)
(*                               claim is accepted for the empty signature, as  *)
(*                               documented)                                    *)
(*   verify_aggregate_sig_trusted_keys one message, non-empty key list          *)
(* Proofs of possession are bound to (key, context).                            *)
(***************************************************************************)
EXTENDS Naturals, Integers, Sequences, FiniteSets, TLC, Json

CONSTANTS NKeys, NMsgs, MaxSigs

Keys == 1..NKeys
Msgs == 1..NMsgs
Basis == Keys \X Msgs
Zero == [b \in Basis |-> 0]
Unit(b) == [c \in Basis |-> IF c = b THEN 1 ELSE 0]
Add(u, v) == [b \in Basis |-> u[b] + v[b]]
RECURSIVE VecOf(_)
VecOf(claim) == IF claim = <<>> THEN Zero ELSE Add(Unit(claim[1]), VecOf(Tail(claim)))   \* claim: sequence of <<key, message>>
Size(v) == LET RECURSIVE S(_)
               S(B) == IF B = {} THEN 0 ELSE LET b == CHOOSE b \in B : TRUE IN v[b] + S(B \ {b})
           IN S(Basis)

VARIABLES agg, signed
avars == <<agg, signed>>
AInit == agg = Zero /\ signed = <<>>
SignAndAggregate(k, m) == /\ Len(signed) < MaxSigs
                          /\ agg' = Add(agg, Unit(<<k, m>>))
                          /\ signed' = Append(signed, <<k, m>>)
ANext == \E k \in Keys, m \in Msgs : SignAndAggregate(k, m)
ASpec == AInit /\ [][ANext]_avars

(* ----- the verifiers ----- *)
DistinctMsgs(claim) == \A i, j \in 1..Len(claim) : i # j => claim[i][2] # claim[j][2]
VerifySingle(claim) == Len(claim) = 1 /\ agg = VecOf(claim)
VerifyAgg(claim) == claim # <<>> /\ DistinctMsgs(claim) /\ agg = VecOf(claim)
VerifyHybrid(claim) == agg = VecOf(claim)
OneMsg(claim) == \A i \in 1..Len(claim) : claim[i][2] = claim[1][2]
VerifyTrusted(claim) == claim # <<>> /\ OneMsg(claim) /\ agg = VecOf(claim)

(* claims near the aggregate: the signed list itself, with one pair dropped, one pair added, one key or message replaced, reversed *)
Drop(s, i) == SubSeq(s, 1, i - 1) \o SubSeq(s, i + 1, Len(s))
Claims ==
  {signed, [i \in 1..Len(signed) |-> signed[Len(signed) + 1 - i]]}
  \cup {Drop(signed, i) : i \in 1..Len(signed)}
  \cup {Append(signed, b) : b \in Basis}
  \cup {[signed EXCEPT ![i] = <<k, signed[i][2]>>] : i \in 1..Len(signed), k \in Keys}
  \cup {[signed EXCEPT ![i] = <<signed[i][1], m>>] : i \in 1..Len(signed), m \in Msgs}

(* agreement where the preconditions overlap *)
Agree == \A c \in Claims :
           /\ (c # <<>> /\ DistinctMsgs(c)) => (VerifyAgg(c) = VerifyHybrid(c))
           /\ (c # <<>> /\ OneMsg(c)) => (VerifyTrusted(c) = VerifyHybrid(c))
           /\ Len(c) = 1 => (VerifySingle(c) = VerifyAgg(c) /\ VerifySingle(c) = VerifyTrusted(c))
(* order of the claim never matters; the honest claim is accepted by the hybrid verifier always and by the plain one iff messages are distinct *)
Honest == /\ VerifyHybrid(signed)
          /\ VerifyAgg(signed) = (signed # <<>> /\ DistinctMsgs(signed))
(* a claim accepted by the hybrid verifier has exactly the multiset of pairs that were signed *)
Sound == \A c \in Claims : VerifyHybrid(c) => \A b \in Basis : VecOf(c)[b] = VecOf(signed)[b]

aview == agg
RowOf(c) == [signed |-> signed, claim |-> c, single |-> VerifySingle(c), agg |-> VerifyAgg(c), hybrid |-> VerifyHybrid(c), trusted |-> VerifyTrusted(c),
             one_msg |-> c # <<>> /\ OneMsg(c)]
AExport == PrintT(<<"REPLAY", ToJson([kind |-> "bls_agg", rows |-> [c \in Claims |-> RowOf(c)]])>>)

(* proofs of possession: accepted iff made for this key under this context *)
PopRows == [pk : Keys, pctx : {"a", "b", ""}, vk : Keys, vctx : {"a", "b", ""}]
=============================================================================
