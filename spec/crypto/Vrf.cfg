SPECIFICATION VSpec
INVARIANTS Complete VExport
CHECK_DEADLOCK FALSE
