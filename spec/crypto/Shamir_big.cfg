SPECIFICATION SSpec
CONSTANTS
  Q = 7
  MaxN = 4
  G = 3
INVARIANTS Reconstructs Secrecy SharesInField
CHECK_DEADLOCK FALSE
