SPECIFICATION PSpec
CONSTANT N = 3
INVARIANTS Exactly SExport
CHECK_DEADLOCK FALSE
