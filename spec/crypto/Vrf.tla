---------------------------------- MODULE Vrf ----------------------------------
(***************************************************************************)
(* Proofs that are bound to a key and an input (C19): the VRF proof         *)
(* (key, message), the BLS proof of possession and the ed25519 discrete-log *)
(* proof (key, transcript context).  A proof is the term of what it was     *)
(* made for; verification compares terms, tampering with a component of the *)
(* proof (gamma, c, s / challenge, response) or with a bit of its encoding   *)
(* yields a term that matches nothing.  The VRF output is a function of      *)
(* (key, message) only.                                                      *)
(***************************************************************************)
EXTENDS Naturals, Integers, Sequences, FiniteSets, TLC, Json

Keys == {1, 2}
VMsgs == {"empty", "a", "b", "long"}
Ctxs == {"", "a", "b"}
Tamper == {"none", "gamma", "c", "s"}
FlipBytes == {0, 31, 32, 47, 48, 79}
FlipBits == {0, 7}

VrfRows == [kind : {"vrf"}, pk : Keys, pm : VMsgs, vk : Keys, vm : VMsgs, tamper : Tamper]
VrfFlipRows == [kind : {"vrf_flip"}, pk : Keys, pm : {"a", "empty"}, byte : FlipBytes, bit : FlipBits]
PopRows == [kind : {"bls_pop", "dlog_ed25519"}, pk : Keys, pctx : Ctxs, vk : Keys, vctx : Ctxs, tamper : {"none", "challenge", "response"}]

(* encodings: a VRF public key must be a canonical point that is not of small order (the eight torsion points are refused); the two scalars of an
   ed25519 discrete-log proof must be canonical (below the group order L), so that a proof has one encoding *)
KeyRows == [kind : {"vrf_key"}, cls : {"valid", "torsion_0", "torsion_1", "torsion_2", "torsion_3", "torsion_4", "torsion_5", "torsion_6", "torsion_7", "not_on_curve"}]
ProofEncRows == [kind : {"dlog_ed25519_enc"}, cls : {"canonical", "challenge_plus_L", "response_plus_L", "challenge_all_ff"}]
EncAccept(r) == r.cls \in {"valid", "canonical"}

ProofTerm(r) == IF r.kind = "vrf" THEN <<r.pk, r.pm, r.tamper>> ELSE <<r.pk, r.pctx, r.tamper>>
Wanted(r) == IF r.kind = "vrf" THEN <<r.vk, r.vm, "none">> ELSE <<r.vk, r.vctx, "none">>
Accept(r) == IF r.kind = "vrf_flip" THEN FALSE ELSE IF r.kind \in {"vrf_key", "dlog_ed25519_enc"} THEN EncAccept(r) ELSE ProofTerm(r) = Wanted(r)
(* VRF output: equal exactly for equal (key, message) *)
SameOutput(r) == r.kind = "vrf" /\ r.pk = r.vk /\ r.pm = r.vm

VARIABLE row
VInit == row \in VrfRows \cup VrfFlipRows \cup PopRows \cup KeyRows \cup ProofEncRows
VSpec == VInit /\ [][UNCHANGED row]_row
(* untampered proofs made for the verifier's key and input are accepted: completeness *)
Complete == (row.kind \notin {"vrf_flip", "vrf_key", "dlog_ed25519_enc"} /\ row.tamper = "none" /\ ProofTerm(row) = Wanted(row)) => Accept(row)
VExport == PrintT(<<"REPLAY", ToJson([kind |-> row.kind, row |-> row, accept |-> Accept(row), same_output |-> SameOutput(row)])>>)
=============================================================================
