SPECIFICATION SSpec
CONSTANTS
  FixR = FALSE
  Q = 3
  Proto = "com_eq_different_groups"
INVARIANTS Complete ResponseBound StatementBound EveryRowChecked SpecialSound
CHECK_DEADLOCK FALSE
