SPECIFICATION SSpec
CONSTANTS
  FixR = FALSE
  Q = 5
  Proto = "replicate_dlog"
INVARIANTS Complete ResponseBound StatementBound SpecialSound
CHECK_DEADLOCK FALSE
