SPECIFICATION HSpec
INVARIANTS Injective HExport
CHECK_DEADLOCK FALSE
