--------------------------------- MODULE Wnaf ---------------------------------
(***************************************************************************)
(* The windowed non-adjacent-form recoding used by the generic              *)
(* multi-exponentiation (C20), as a state machine over the bit              *)
(* representation of a scalar stored in limbs: position, carry and the       *)
(* digits emitted so far.  LimbBits and Limbs are scaled down (the code      *)
(* uses 4 limbs of 64 bits); W = window size + 1 as in the code.             *)
(* Checked for ALL scalars below 2^(numBits-1): every digit is zero or odd,  *)
(* |digit| < 2^(W-1), a non-zero digit is followed by W-1 zeros, no digit     *)
(* lies above index numBits-1 (the evaluation loop reads indices 0..NUM_BITS) *)
(* and sum digit_j * 2^j equals the scalar - including windows that straddle  *)
(* two limbs, with and without carry.                                        *)
(***************************************************************************)
EXTENDS Naturals, Integers, Sequences, FiniteSets, TLC, Json

CONSTANTS LimbBits, Limbs, W

NumBits == LimbBits * Limbs
Pow2(k) == 2 ^ k
VARIABLES scalar, pos, carry, digits
wvars == <<scalar, pos, carry, digits>>

Limb(s, i) == (s \div Pow2(LimbBits * i)) % Pow2(LimbBits)     \* i-th limb, 0-based
(* the bit buffer the code builds: the current limb shifted right, joined with the next limb when the window straddles *)
BitBuf(s, p) ==
  LET li == p \div LimbBits
      bi == p % LimbBits
      cur == Limb(s, li)
      nxt == IF li + 1 < Limbs THEN Limb(s, li + 1) ELSE 0
  IN IF bi + W < LimbBits THEN cur \div Pow2(bi)
     ELSE (cur \div Pow2(bi)) + nxt * Pow2(LimbBits - bi)

WInit == scalar \in 0..(Pow2(NumBits - 1) - 1) /\ pos = 0 /\ carry = 0 /\ digits = <<>>

Emit ==
  /\ pos < NumBits
  /\ LET wv == carry + (BitBuf(scalar, pos) % Pow2(W)) IN
     IF wv % 2 = 0
     THEN /\ digits' = Append(digits, 0) /\ pos' = pos + 1 /\ UNCHANGED carry
     ELSE /\ digits' = Append(digits, IF wv < Pow2(W - 1) THEN wv ELSE wv - Pow2(W)) \o [i \in 1..(W - 1) |-> 0]
          /\ carry' = (IF wv < Pow2(W - 1) THEN 0 ELSE 1)
          /\ pos' = pos + W
  /\ UNCHANGED scalar
Done == pos >= NumBits /\ UNCHANGED wvars
WSpec == WInit /\ [][Emit \/ Done]_wvars

RECURSIVE SumDigits(_, _)
SumDigits(ds, j) == IF j > Len(ds) THEN 0 ELSE ds[j] * Pow2(j - 1) + SumDigits(ds, j + 1)
Abs(x) == IF x < 0 THEN -x ELSE x

DigitsWellFormed == \A j \in 1..Len(digits) : digits[j] = 0 \/ (digits[j] % 2 = 1 /\ Abs(digits[j]) < Pow2(W - 1))
(* the partial sum plus the pending carry always equals the part of the scalar consumed so far *)
PartialSum == SumDigits(digits, 1) + carry * Pow2(pos) = scalar % Pow2(pos) \/ pos > NumBits
Recoded == pos >= NumBits => (carry = 0 /\ SumDigits(digits, 1) = scalar /\ \A j \in 1..Len(digits) : j > NumBits => digits[j] = 0)
(* rows for the implementation: every scalar of the scaled model with its limbs and the digits the model emits *)
WExport == pos >= NumBits => PrintT(<<"REPLAY", ToJson([kind |-> "wnaf_model", scalar |-> scalar, limb_bits |-> LimbBits,
                                                         limbs |-> [i \in 1..Limbs |-> Limb(scalar, i - 1)], digits |-> digits])>>)
=============================================================================
