------------------------------- MODULE EncAmount -------------------------------
(***************************************************************************)
(* Encrypted balances (C12): an amount of 2W bits is encrypted as two       *)
(* chunks of W bits (W = 32 in the code, small here); aggregation adds      *)
(* ciphertexts chunk by chunk WITHOUT carry, so a balance is the pair of     *)
(* chunk sums; decryption looks every chunk up in a table that covers        *)
(* [0, Table) and recombines lo + hi * 2^W.  The state machine is one        *)
(* account: deposits are aggregated into the balance, an encrypted transfer  *)
(* or a transfer to public of amount a is possible iff a <= the decrypted    *)
(* balance and replaces the balance by a fresh encryption of the remainder;  *)
(* proofs are terms over (sender key, receiver key, balance ciphertext,      *)
(* index, remaining, transferred).                                           *)
(***************************************************************************)
EXTENDS Naturals, Integers, Sequences, FiniteSets, TLC, Json

CONSTANTS W, Table, MaxOps
Pow == 2 ^ W
MaxAmount == Pow * Pow - 1
Chunks(a) == <<a % Pow, a \div Pow>>
Value(e) == e[1] + e[2] * Pow
AddC(x, y) == <<x[1] + y[1], x[2] + y[2]>>
Decryptable(e) == e[1] < Table /\ e[2] < Table

VARIABLES plain, enc, index, hist
evars == <<plain, enc, index, hist>>
eview == <<plain, enc>>
EInit == plain = 0 /\ enc = <<0, 0>> /\ index = 0 /\ hist = <<>>

Deposit(a) ==
  /\ plain + a <= MaxAmount
  /\ plain' = plain + a /\ enc' = AddC(enc, Chunks(a)) /\ index' = index + 1
  /\ hist' = Append(hist, [op |-> "deposit", a |-> a, lo |-> enc'[1], hi |-> enc'[2], decryptable |-> Decryptable(enc'), plain |-> plain'])

(* the holder decrypts the balance (needs the table), splits it and proves the split *)
Transfer(kind, a) ==
  /\ Decryptable(enc)
  /\ IF a <= plain
     THEN /\ plain' = plain - a /\ enc' = Chunks(plain - a) /\ index' = index
          /\ hist' = Append(hist, [op |-> kind, a |-> a, ok |-> TRUE, remaining |-> plain - a, transferred |-> a, before |-> plain])
     ELSE /\ UNCHANGED <<plain, enc, index>>
          /\ hist' = Append(hist, [op |-> kind, a |-> a, ok |-> FALSE, remaining |-> plain, transferred |-> 0, before |-> plain])

ENext == \E a \in 0..MaxAmount : Deposit(a) \/ Transfer("transfer", a) \/ Transfer("sec_to_pub", a)
ESpec == EInit /\ [][ENext]_evars

(* the chunk sums always denote the plain balance: aggregation never loses value although it does not carry *)
Denotes == Value(enc) = plain
(* decryption of a decryptable balance gives the plain balance; a fresh encryption is always decryptable *)
DecryptInverse == \A a \in 0..MaxAmount : Decryptable(Chunks(a)) /\ Value(Chunks(a)) = a
Conservation == \A i \in 1..Len(hist) : hist[i].op \in {"transfer", "sec_to_pub"} => hist[i].remaining + hist[i].transferred = hist[i].before
NoOverdraft == \A i \in 1..Len(hist) : (hist[i].op \in {"transfer", "sec_to_pub"} /\ hist[i].ok) => hist[i].a <= hist[i].before
Bound == Len(hist) <= MaxOps

(* verification of a transfer: the proof term names everything it was made for; tampering with one component breaks the match *)
Fields == {"none", "remaining_lo", "remaining_hi", "transferred_lo", "transferred_hi", "index", "sender_key", "receiver_key", "balance", "proof", "proof_surplus_response"}
SecToPubFields == {"none", "remaining_lo", "remaining_hi", "amount", "index", "key", "balance", "proof"}
VerifyOk(tamper) == tamper = "none"
ExportDone == Len(hist) = MaxOps => PrintT(<<"REPLAY", ToJson([kind |-> "enc_amount", w |-> W, ops |-> hist, fields |-> Fields, s2p_fields |-> SecToPubFields])>>)
=============================================================================
