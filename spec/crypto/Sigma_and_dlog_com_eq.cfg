SPECIFICATION SSpec
CONSTANTS
  FixR = FALSE
  Q = 3
  Proto = "and_dlog_com_eq"
INVARIANTS Complete ResponseBound StatementBound EveryRowChecked SpecialSound
CHECK_DEADLOCK FALSE
