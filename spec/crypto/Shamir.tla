-------------------------------- MODULE Shamir --------------------------------
(***************************************************************************)
(* Threshold secret sharing as used for anonymity revocation (C20, C08):   *)
(* the dealer fixes a polynomial f of degree t-1 over the prime field Z_Q   *)
(* with f(0) = secret and a NON-ZERO leading coefficient (as share() does), *)
(* hands out f(p) for the points p, and shares are revealed one by one.     *)
(* reveal() is Lagrange interpolation at 0 over whatever subset it is given *)
(* and reveal_in_group() is the same in the exponent (g^f(p) combined with  *)
(* the Lagrange coefficients), modelled over the additive group Z_Q with     *)
(* generator G.                                                              *)
(*   - any >= t revealed shares reconstruct the secret (field and exponent) *)
(*   - fewer than t shares leave (at least) Q - 1 secrets possible: the      *)
(*     non-zero leading coefficient excludes exactly one candidate when      *)
(*     t - 1 shares are known, nothing more                                  *)
(***************************************************************************)
EXTENDS Naturals, Integers, Sequences, FiniteSets, TLC, Json

CONSTANTS Q, MaxN, G

Fld == 0..(Q - 1)
Mod(x) == ((x % Q) + Q) % Q
Inv(a) == CHOOSE x \in 1..(Q - 1) : (a * x) % Q = 1

RECURSIVE Horner(_, _, _)
(* coefficients <<c1, ..., c_{t-1}>> without the zeroth, which is the secret *)
Horner(cs, x, acc) == IF cs = <<>> THEN acc ELSE Horner(SubSeq(cs, 1, Len(cs) - 1), x, Mod(acc * x + cs[Len(cs)]))
Eval(secret, cs, x) == Mod(Horner(cs, x, 0) * x + secret)

RECURSIVE ProdOver(_, _)
(* Lagrange basis at zero for point i over the point set S: prod_{j # i} j / (j - i) *)
ProdOver(S, i) == IF S = {} THEN 1 ELSE LET j == CHOOSE j \in S : TRUE IN
                     IF j = i THEN ProdOver(S \ {j}, i) ELSE Mod(Mod(j * Inv(Mod(j - i))) * ProdOver(S \ {j}, i))
RECURSIVE SumOver(_, _, _)
SumOver(S, All, val) == IF S = {} THEN 0 ELSE LET i == CHOOSE i \in S : TRUE IN Mod(ProdOver(All, i) * val[i] + SumOver(S \ {i}, All, val))
Reveal(S, val) == SumOver(S, S, val)

VARIABLES t, secret, coeffs, points, revealed
svars == <<t, secret, coeffs, points, revealed>>

Polys(tt) == IF tt = 1 THEN {<<>>} ELSE {c \in [1..(tt - 1) -> Fld] : c[tt - 1] # 0}

SInit ==
  /\ points \in {P \in SUBSET (1..(Q - 1)) : Cardinality(P) \in 1..MaxN}
  /\ t \in 1..Cardinality(points)
  /\ secret \in Fld
  /\ coeffs \in Polys(t)
  /\ revealed = {}

RevealShare(p) == p \in points \ revealed /\ revealed' = revealed \cup {p} /\ UNCHANGED <<t, secret, coeffs, points>>
SNext == \E p \in points : RevealShare(p)
SSpec == SInit /\ [][SNext]_svars

Share == [p \in points |-> Eval(secret, coeffs, p)]
ShareInGroup == [p \in points |-> Mod(G * Share[p])]

Reconstructs == Cardinality(revealed) >= t => /\ Reveal(revealed, Share) = secret
                                              /\ Reveal(revealed, ShareInGroup) = Mod(G * secret)
(* secrets consistent with what has been revealed *)
Consistent == {s \in Fld : \E c \in Polys(t) : \A p \in revealed : Eval(s, c, p) = Share[p]}
Secrecy == Cardinality(revealed) < t => Cardinality(Consistent) >= Q - 1
(* scenarios for the implementation: one per (points, threshold, revealed subset) *)
scenarioView == <<t, points, revealed>>
RECURSIVE SetToSeq(_)
SetToSeq(S) == IF S = {} THEN <<>> ELSE LET m == CHOOSE m \in S : \A o \in S : m <= o IN <<m>> \o SetToSeq(S \ {m})
ExportScenario == PrintT(<<"REPLAY", ToJson([kind |-> "shamir", points |-> SetToSeq(points), t |-> t, revealed |-> SetToSeq(revealed),
                     expect |-> IF revealed = {} THEN "zero" ELSE IF Cardinality(revealed) >= t THEN "secret" ELSE "unrelated"])>>)
(* a threshold is a number in 1..255 (one byte); larger requests are refused, never reduced *)
ThresholdOk(n) == n >= 1 /\ n <= 255
ASSUME PrintT(<<"ROWS", ToJson({[kind |-> "threshold", n |-> n, ok |-> ThresholdOk(n)] : n \in {0, 1, 2, 254, 255, 256, 257, 511, 512, 513, 65536, 65537}})>>)
(* the dealer's polynomial is what the shares are: one share per point, in the field *)
SharesInField == \A p \in points : Share[p] \in Fld
=============================================================================
