SPECIFICATION RSpec
INVARIANTS Complementary LeqAntisym RExport
CHECK_DEADLOCK FALSE
