SPECIFICATION WSpec
CONSTANTS
  LimbBits = 6
  Limbs = 2
  W = 4
INVARIANTS DigitsWellFormed PartialSum Recoded
CHECK_DEADLOCK FALSE
