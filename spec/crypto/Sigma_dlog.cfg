SPECIFICATION SSpec
CONSTANTS
  FixR = FALSE
  Q = 5
  Proto = "dlog"
INVARIANTS Complete ResponseBound StatementBound EveryRowChecked SpecialSound
CHECK_DEADLOCK FALSE
