SPECIFICATION SSpec
CONSTANTS
  FixR = FALSE
  Q = 3
  Proto = "com_lin"
INVARIANTS Complete ResponseBound StatementBound
CHECK_DEADLOCK FALSE
