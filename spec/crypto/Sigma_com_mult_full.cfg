SPECIFICATION SSpec
CONSTANTS
  FixR = FALSE
  Q = 3
  Proto = "com_mult"
INVARIANTS Complete ResponseBound StatementBound
CHECK_DEADLOCK FALSE
