SPECIFICATION SSpec
INVARIANTS EmptyRange Complementary StExport
CHECK_DEADLOCK FALSE
