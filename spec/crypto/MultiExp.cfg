SPECIFICATION MSpec
CONSTANT MaxLen = 2
INVARIANTS Neutral MExport
CHECK_DEADLOCK FALSE
