SPECIFICATION PSpec
INVARIANTS Canonical BothSigns PExport
CHECK_DEADLOCK FALSE
