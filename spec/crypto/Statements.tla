------------------------------ MODULE Statements ------------------------------
(***************************************************************************)
(* Statements about committed credential attributes (C18).  An attribute   *)
(* value is a string of at most 31 bytes; its field element is the length   *)
(* byte followed by the bytes, so values are ordered first by length and     *)
(* then lexicographically - numbers without leading zeros keep their numeric  *)
(* order, "b" < "ab" < "100".  AttrVals lists values in that order: index     *)
(* order = order of the field elements.                                       *)
(* Atoms:  reveal(tag)             the committed value itself is shown         *)
(*         in_range(tag, lo, hi)   lo <= value < hi                            *)
(*         in_set(tag, S) / not_in_set(tag, S)                                 *)
(* Range statements are proved with 64-bit range proofs: value - lo and hi - value must be below 2^64, which for these encodings means that    *)
(* lo, hi and the value have the same length (at most 8 bytes); a true range statement across lengths has no proof.                          *)
(* A statement is a list of atoms about one credential; the prover outputs a   *)
(* proof only when every atom is true, and the verifier accepts iff the proof   *)
(* was made for exactly this statement, challenge, credential and commitments.  *)
(***************************************************************************)
EXTENDS Naturals, Integers, Sequences, FiniteSets, TLC, Json

AttrVals == <<"", "0", "5", "9", "a", "b", "10", "19", "ab", "100", "20200101", "20991231">>
V == 1..Len(AttrVals)
Tags == {0, 3, 8}

RECURSIVE SetSeq(_)
SetSeq(S) == IF S = {} THEN <<>> ELSE LET m == CHOOSE m \in S : \A o \in S : m <= o IN <<m>> \o SetSeq(S \ {m})

AtomTrue(a, attrs) ==
  CASE a.k = "reveal" -> TRUE
    [] a.k = "in_range" -> a.lo <= attrs[a.tag] /\ attrs[a.tag] < a.hi
    [] a.k = "in_set" -> attrs[a.tag] \in a.set
    [] a.k = "not_in_set" -> attrs[a.tag] \notin a.set
LenOf == <<0, 1, 1, 1, 1, 1, 2, 2, 2, 3, 8, 8>>
AtomProvable(a, attrs) == AtomTrue(a, attrs) /\ (a.k = "in_range" => (LenOf[a.lo] = LenOf[attrs[a.tag]] /\ LenOf[a.hi] = LenOf[attrs[a.tag]]))
StmtProvable(s, attrs) == \A i \in 1..Len(s) : AtomProvable(s[i], attrs)
StmtTrue(s, attrs) == \A i \in 1..Len(s) : AtomTrue(s[i], attrs)

(* the attribute list of the credential: tag 0 a name, tag 3 a date, tag 8 a number *)
Attrs == [Tags -> V]
SomeAttrs == { [t \in Tags |-> IF t = 0 THEN a ELSE IF t = 3 THEN 11 ELSE b] : a \in {1, 5, 9}, b \in {2, 4, 7, 10} }

RangeAtoms(tag) == { [k |-> "in_range", tag |-> tag, lo |-> lo, hi |-> hi] : lo \in {2, 3, 4, 7}, hi \in {3, 4, 6, 7, 8, 9, 10} }
SetAtoms(tag) == { [k |-> kk, tag |-> tag, set |-> S] : kk \in {"in_set", "not_in_set"}, S \in { {4}, {2, 7}, {2, 4, 10}, {1, 5, 6, 9, 12} } }
Atoms == UNION {RangeAtoms(8) \cup SetAtoms(8) : x \in {1}} \cup SetAtoms(0) \cup { [k |-> "reveal", tag |-> t] : t \in Tags }
         \cup { [k |-> "in_range", tag |-> 3, lo |-> 11, hi |-> 12], [k |-> "in_range", tag |-> 3, lo |-> 12, hi |-> 12], [k |-> "in_range", tag |-> 3, lo |-> 10, hi |-> 11] }
Perturbations == {"none", "challenge", "credential", "commitments", "statement", "proof", "proof_truncated", "version"}
(* verifiable presentations: the same statements inside a request with a context, about an account credential (commitments on chain) or a
   web3 credential (commitments signed by the issuer, presentation linked to the holder's key by a signature over context and proofs) *)
PresPerturbations == {"none", "context", "public_data", "credential_id", "statement", "foreign_proof", "foreign_linking", "proof_truncated"}
(* a presentation may carry several credentials: "mixed" is a web3 credential followed by an account credential; the holder's linking signature covers the context and
   ALL credential proofs, so altering the account part ("other_part") breaks it.  A credential may also be presented with no statement at all (ownership only): the
   issuer's signature over the commitments is still checked. *)
MixedPerturbations == {"none", "context", "other_part", "other_part_removed", "public_data"}

VARIABLES attrs, stmt, perturb, via
svars == <<attrs, stmt, perturb, via>>
SInit == /\ attrs \in SomeAttrs
         /\ via \in {"commitments", "account_presentation", "web3_presentation", "mixed_presentation"}
         /\ stmt \in {<<a>> : a \in Atoms} \cup {<<a, b>> : a \in SetAtoms(0) \cup {[k |-> "reveal", tag |-> 0]}, b \in RangeAtoms(8)} \cup {<<>>}
         /\ perturb \in (IF via = "commitments" THEN Perturbations ELSE IF via = "mixed_presentation" THEN MixedPerturbations ELSE PresPerturbations)
         /\ (perturb \notin {"none", "proof_truncated"} => Len(stmt) <= 1)
         /\ (stmt = <<>> => (via \in {"web3_presentation", "account_presentation"} /\ perturb \in {"none", "public_data", "context"}))
         /\ ((stmt = <<>> /\ via = "account_presentation") => perturb = "none")     \* an account credential without statements carries no proof: nothing is bound
         /\ (via = "mixed_presentation" => (Len(stmt) = 1 /\ stmt[1].k \in {"reveal", "in_set"} /\ stmt[1].tag = 8))
         /\ (via # "commitments" => (attrs[0] = 5 /\ (Len(stmt) # 1 \/ stmt[1].tag = 8 \/ stmt[1].k = "reveal")))
SSpec == SInit /\ [][UNCHANGED svars]_svars

Truth == StmtTrue(stmt, attrs)
Accept == StmtProvable(stmt, attrs) /\ perturb = "none"
(* an empty range is never satisfied; membership and non-membership are complementary atom by atom *)
EmptyRange == \A i \in 1..Len(stmt) : (stmt[i].k = "in_range" /\ stmt[i].lo >= stmt[i].hi) => ~AtomTrue(stmt[i], attrs)
Complementary == \A i \in 1..Len(stmt) : stmt[i].k = "in_set" => (AtomTrue(stmt[i], attrs) # AtomTrue([stmt[i] EXCEPT !.k = "not_in_set"], attrs))
StExport == PrintT(<<"REPLAY", ToJson([kind |-> "statement", vals |-> AttrVals, attrs |-> [t \in {"0", "3", "8"} |-> attrs[IF t = "0" THEN 0 ELSE IF t = "3" THEN 3 ELSE 8]],
                                       via |-> via, stmt |-> [i \in 1..Len(stmt) |-> IF "set" \in DOMAIN stmt[i] THEN [stmt[i] EXCEPT !.set = SetSeq(@)] ELSE stmt[i]],
                                       perturb |-> perturb, truth |-> Truth, accept |-> Accept])>>)
=============================================================================
