SPECIFICATION SSpec
CONSTANTS
  FixR = FALSE
  Q = 3
  Proto = "vcom_eq"
INVARIANTS Complete ResponseBound StatementBound EveryRowChecked SpecialSound
CHECK_DEADLOCK FALSE
