------------------------------- MODULE RangeStmt -------------------------------
(***************************************************************************)
(* Statements proved with bulletproofs (C11) and when they are true.        *)
(* Numbers are tokens of a fixed ascending list of u64 boundary values      *)
(* (index order = numeric order); Bits(t) is the least n with value < 2^n.   *)
(*   range     every v_i in [0, 2^n)          (m values, n*m a power of two) *)
(*   leq       a <= b   (proved as: b - a and a are n-bit numbers)            *)
(*   interval  a <= v < b                                                     *)
(*   in_set    v is an element of S;   not_in_set   v is not an element of S  *)
(* A row is a statement, the values the prover really holds, and a            *)
(* perturbation applied between proving and verifying.  The verifier must     *)
(* accept exactly when the statement is true, the size is supported and       *)
(* nothing was perturbed; a prover may refuse a false statement, and whatever  *)
(* it outputs for one must not verify.                                         *)
(***************************************************************************)
EXTENDS Naturals, Integers, Sequences, FiniteSets, TLC, Json

Tok == <<"0", "1", "2", "2^8-1", "2^8", "2^16", "2^32-1", "2^32", "2^63", "2^64-2", "2^64-1", "r-5", "r-1">>     \* the last two are field elements just below the group order ("negative" numbers)
BitsOf == <<0, 1, 2, 8, 9, 17, 32, 33, 64, 64, 64, 255, 255>>
T == 1..11                               \* the u64 tokens (range and less-or-equal statements take u64 values)
Leq(a, b) == a <= b                      \* tokens are indices into Tok
Bits(t) == BitsOf[t]
IsPow2(k) == k \in {1, 2, 4, 8, 16, 32, 64, 128, 256}

RangeTrue(n, vs) == \A i \in 1..Len(vs) : Bits(vs[i]) <= n
Supported(n, m) == IsPow2(n * m) /\ n * m <= 256
(* exact values of the small tokens; leq rows use n = 8 (where only small tokens can qualify) and n = 64 (where every u64 difference fits) *)
Val == <<0, 1, 2, 255, 256, 65536>>
LeqTrue(n, a, b) == a <= b /\ Bits(a) <= n /\ (n = 64 \/ (b <= Len(Val) /\ Val[b] - Val[a] < 2 ^ n))
IntervalTrue(v, a, b) == a <= v /\ v < b
InSetTrue(v, S) == \E i \in 1..Len(S) : S[i] = v

RangePerturb == {"none", "commitment", "n", "transcript", "generators", "key", "proof", "proof_surplus"}    \* proof_surplus: one more (L, R) pair in the inner-product argument than it has rounds
RangeRows ==
  { [kind |-> "range", n |-> n, vs |-> <<v>>, perturb |-> p] : n \in {1, 2, 8, 16, 32, 64}, v \in T, p \in {"none"} }
  \cup { [kind |-> "range", n |-> n, vs |-> <<v>>, perturb |-> p] : n \in {8, 64}, v \in {1, 4}, p \in RangePerturb }
  \cup { [kind |-> "range", n |-> n, vs |-> vs, perturb |-> "none"] : n \in {8, 32}, vs \in {<<1, 4>>, <<4, 5>>, <<5, 4>>, <<4, 4>>, <<1, 2, 3, 4>>, <<1, 2, 3, 5>>, <<6, 1, 1, 1>>, <<8, 1, 1, 1>>} }
  \cup { [kind |-> "range", n |-> n, vs |-> vs, perturb |-> "none"] : n \in {3, 33, 63}, vs \in {<<1>>, <<2, 2>>} }      \* sizes the inner-product argument does not support
  \cup { [kind |-> "range", n |-> 8, vs |-> <<1, 2, 3>>, perturb |-> "none"], [kind |-> "range", n |-> 64, vs |-> <<9, 10, 1, 2>>, perturb |-> "commitment"],
         [kind |-> "range", n |-> 64, vs |-> <<9, 10, 1, 2>>, perturb |-> "none"] }
LeqRows == { [kind |-> "leq", n |-> n, a |-> a, b |-> b, perturb |-> p] : n \in {8, 64}, a \in {1, 2, 4, 5, 9, 11}, b \in {1, 2, 4, 5, 10, 11}, p \in {"none"} }
           \cup { [kind |-> "leq", n |-> 64, a |-> 2, b |-> 9, perturb |-> p] : p \in {"commitment", "swap", "transcript", "proof", "proof_surplus"} }
IntervalRows == { [kind |-> "interval", v |-> v, a |-> a, b |-> b, perturb |-> "none"] : v \in {1, 2, 4, 8, 11}, a \in {1, 2, 4, 9}, b \in {2, 4, 5, 11} }
                \cup { [kind |-> "interval", v |-> v, a |-> a, b |-> b, perturb |-> "none"] : v \in {12, 13}, a \in {1, 2}, b \in {4, 11} }      \* "negative" values are above every u64 bound
                \cup { [kind |-> "interval", v |-> 4, a |-> 2, b |-> 8, perturb |-> p] : p \in {"commitment", "bounds", "transcript", "proof"} }
Sets == { <<3>>, <<3, 5>>, <<1, 3, 5>>, <<1, 3, 5, 7>>, <<1, 3, 5, 7, 9>>, <<2, 3, 4, 5, 6, 7, 8, 9>>, <<11, 1>> }
SetRows == { [kind |-> k, v |-> v, set |-> S, perturb |-> "none"] : k \in {"in_set", "not_in_set"}, v \in {1, 3, 4, 9, 11}, S \in Sets }
           \cup { [kind |-> k, v |-> IF k = "in_set" THEN 3 ELSE 4, set |-> <<1, 3, 5>>, perturb |-> p] : k \in {"in_set", "not_in_set"}, p \in {"commitment", "set", "transcript", "proof"} }

Truth(r) ==
  CASE r.kind = "range" -> Supported(r.n, Len(r.vs)) /\ RangeTrue(r.n, r.vs)
    [] r.kind = "leq" -> LeqTrue(r.n, r.a, r.b)
    [] r.kind = "interval" -> IntervalTrue(r.v, r.a, r.b)
    [] r.kind = "in_set" -> InSetTrue(r.v, r.set)
    [] r.kind = "not_in_set" -> ~InSetTrue(r.v, r.set)
Accept(r) == Truth(r) /\ r.perturb = "none"

VARIABLE row
RInit == row \in RangeRows \cup LeqRows \cup IntervalRows \cup SetRows
RSpec == RInit /\ [][UNCHANGED row]_row
(* membership and non-membership are complementary; the order of a and b matters for leq exactly when they differ *)
Complementary == row.kind \in {"in_set", "not_in_set"} => (InSetTrue(row.v, row.set) # (~InSetTrue(row.v, row.set)))
LeqAntisym == (row.kind = "leq" /\ row.a # row.b) => ~(LeqTrue(64, row.a, row.b) /\ LeqTrue(64, row.b, row.a))
RExport == PrintT(<<"REPLAY", ToJson([row |-> row, truth |-> Truth(row), accept |-> Accept(row), tokens |-> Tok])>>)
=============================================================================
