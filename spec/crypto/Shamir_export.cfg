SPECIFICATION SSpec
CONSTANTS
  Q = 7
  MaxN = 4
  G = 3
VIEW scenarioView
INVARIANTS ExportScenario
CHECK_DEADLOCK FALSE
