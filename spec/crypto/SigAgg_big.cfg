SPECIFICATION ASpec
CONSTANTS
  NKeys = 3
  NMsgs = 3
  MaxSigs = 4
INVARIANTS Agree Honest Sound AExport
VIEW aview
CHECK_DEADLOCK FALSE
