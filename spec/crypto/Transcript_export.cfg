SPECIFICATION TSpec
CONSTANT MaxOps = 2
INVARIANTS TExport
VIEW tview
CHECK_DEADLOCK FALSE
