SPECIFICATION SSpec
CONSTANTS
  FixR = FALSE
  Q = 3
  Proto = "aggregate_dlog"
INVARIANTS Complete ResponseBound StatementBound SpecialSound
CHECK_DEADLOCK FALSE
