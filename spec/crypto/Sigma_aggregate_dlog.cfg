SPECIFICATION SSpec
CONSTANTS
  FixR = FALSE
  Q = 3
  Proto = "aggregate_dlog"
INVARIANTS Complete ResponseBound StatementBound EveryRowChecked SpecialSound
CHECK_DEADLOCK FALSE
