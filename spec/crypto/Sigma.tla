--------------------------------- MODULE Sigma ---------------------------------
(***************************************************************************)
(* Sigma protocols for linear relations (C07).  Group elements are vectors  *)
(* over Z_Q of exponents with respect to K independent generators; a        *)
(* protocol is a matrix M of group elements (m rows, n columns): the        *)
(* statement is y = M w (y_i = sum_j w_j * M[i][j]) for the witness w in     *)
(* Z_Q^n.  One run:                                                           *)
(*     commit      a = M r            for random r                            *)
(*     challenge   c in Z_Q            (the hash of statement, context, a)     *)
(*     respond     z = r - c * w                                              *)
(*     extract     a' = M z + c * y    and accept iff the hash matches        *)
(* Every protocol of the library below is an instance (com_mult through the   *)
(* usual linearisation with a public commitment inside the matrix).           *)
(***************************************************************************)
EXTENDS Naturals, Integers, Sequences, FiniteSets, TLC, Json

CONSTANTS Q, Proto, FixR    \* FixR: one fixed randomness vector instead of all of them (large witness dimensions in the quick tier)
K == 6
Fld == 0..(Q - 1)
Mod(x) == ((x % Q) + Q) % Q
Zero == [k \in 1..K |-> 0]
E(i) == [k \in 1..K |-> IF k = i THEN 1 ELSE 0]           \* independent generators
Scale(s, g) == [k \in 1..K |-> Mod(s * g[k])]
AddG(g, h) == [k \in 1..K |-> Mod(g[k] + h[k])]
RECURSIVE SumRow(_, _, _)
SumRow(row, w, j) == IF j > Len(row) THEN Zero ELSE AddG(Scale(w[j], row[j]), SumRow(row, w, j + 1))
Apply(M, w) == [i \in 1..Len(M) |-> SumRow(M[i], w, 1)]

(* ----- the protocols as matrices; sk is a secret scalar that relates two public generators (an ElGamal key) ----- *)
PK == Scale(2, E(1))                           \* pk = sk * g with sk = 2
C1(x1, r1) == AddG(Scale(x1, E(1)), Scale(r1, E(2)))
Matrix(p, w) ==
  CASE p = "dlog" -> << <<E(1)>> >>                                         \* y = w * g
    [] p = "aggregate_dlog" -> << <<E(1), E(2), E(3)>> >>                    \* y = sum w_i * g_i
    [] p = "dlog_eq" -> << <<E(1)>>, <<E(2)>> >>                              \* same exponent under two bases
    [] p = "com_eq" -> << <<E(1), E(2)>>, <<E(3), Zero>> >>                   \* C = a g + r h  and  y = a gbar
    [] p = "com_eq_different_groups" -> << <<E(1), E(2), Zero>>, <<E(3), Zero, E(4)>> >>
    [] p = "com_enc_eq" -> << <<Zero, E(1), Zero>>, <<E(3), PK, Zero>>, <<E(4), Zero, E(5)>> >>   \* (x, r_elg, r_ped)
    [] p = "com_lin" -> << <<E(1), Zero, E(2), Zero, Zero>>, <<Zero, E(1), Zero, E(2), Zero>>, <<Scale(2, E(1)), Scale(3, E(1)), Zero, Zero, E(2)>> >>   \* x = 2 x1 + 3 x2
    [] p = "com_mult" -> << <<E(1), E(2), Zero, Zero, Zero>>, <<Zero, Zero, E(1), E(2), Zero>>, <<Zero, Zero, C1(w[1], w[2]), Zero, E(2)>> >>           \* (x1, r1, x2, r2, s)
    [] p = "vcom_eq" -> << <<E(1), E(2), E(3), Zero>>, <<E(4), Zero, Zero, E(5)>> >>                                                             \* (x1, x2, r, r1)
    \* encrypted transfer: witness (sk, a1, a2, ra1, ra2, s1, s2, rs1, rs2); pk_s = sk g; S2 = sk S1 + (a1 + 2 a2 + s1 + 2 s2) h (the weight of chunk j is 2^(32 j), here 2);
    \* A_j = (ra_j g, a_j h + ra_j pk_r); S'_j = (rs_j g, s_j h + rs_j pk_s)
    [] p = "enc_trans" ->
         LET g == E(1) h == E(2) pkr == Scale(2, E(1)) pks == Scale(w[1], E(1)) s1c == E(3) h2 == Scale(2, E(2)) IN
         << <<g, Zero, Zero, Zero, Zero, Zero, Zero, Zero, Zero>>,
            <<s1c, h, h2, Zero, Zero, h, h2, Zero, Zero>>,
            <<Zero, Zero, Zero, g, Zero, Zero, Zero, Zero, Zero>>, <<Zero, h, Zero, pkr, Zero, Zero, Zero, Zero, Zero>>,
            <<Zero, Zero, Zero, Zero, g, Zero, Zero, Zero, Zero>>, <<Zero, Zero, h, Zero, pkr, Zero, Zero, Zero, Zero>>,
            <<Zero, Zero, Zero, Zero, Zero, Zero, Zero, g, Zero>>, <<Zero, Zero, Zero, Zero, Zero, h, Zero, pks, Zero>>,
            <<Zero, Zero, Zero, Zero, Zero, Zero, Zero, Zero, g>>, <<Zero, Zero, Zero, Zero, Zero, Zero, h, Zero, pks>> >>
    \* signed values equal committed values, with every message slot of the PS key in use: witness (rho', mu_1, mu_2, R_1, R_2); the pairing equation
    \* e(a^, g~)^rho' * e(a^, Y~_1)^mu_1 * e(a^, Y~_2)^mu_2 in the target group (generators E(1), E(2), E(3)) and one commitment mu_i g + R_i h per value
    [] p = "com_eq_sig" -> << <<E(1), E(2), E(3), Zero, Zero>>, <<Zero, E(4), Zero, E(5), Zero>>, <<Zero, Zero, E(4), Zero, E(5)>> >>
    [] p = "and_dlog_com_eq" -> << <<E(1), Zero, Zero>>, <<Zero, E(2), E(3)>>, <<Zero, E(4), Zero>> >>       \* AND composition: block diagonal, one challenge
    [] p = "replicate_dlog" -> << <<E(1), Zero>>, <<Zero, E(2)>> >>                                         \* replicated composition
WitnessDim(p) == CASE p = "dlog" -> 1 [] p = "aggregate_dlog" -> 3 [] p = "dlog_eq" -> 1 [] p = "com_eq" -> 2 [] p = "com_eq_different_groups" -> 3
                   [] p = "com_enc_eq" -> 3 [] p = "com_lin" -> 5 [] p = "com_mult" -> 5 [] p = "vcom_eq" -> 4 [] p = "and_dlog_com_eq" -> 3 [] p = "replicate_dlog" -> 2 [] p = "enc_trans" -> 9 [] p = "com_eq_sig" -> 5
(* names of the public inputs and of the response components, for the implementation rows *)
Publics(p) == CASE p = "dlog" -> <<"public", "coeff">> [] p = "aggregate_dlog" -> <<"public", "coeff_0", "coeff_2">> [] p = "dlog_eq" -> <<"public_1", "public_2", "coeff_1">>
                [] p = "com_eq" -> <<"commitment", "y", "cmm_key_g", "cmm_key_h", "g">> [] p = "com_eq_different_groups" -> <<"commitment_1", "commitment_2", "cmm_key_1", "cmm_key_2">>
                [] p = "com_enc_eq" -> <<"cipher_0", "cipher_1", "commitment", "pub_key", "cmm_key", "enc_generator">>
                [] p = "com_lin" -> <<"us_0", "cmms_0", "cmms_1", "cmm", "cmm_key">> [] p = "com_mult" -> <<"cmms_0", "cmms_1", "cmms_2", "cmm_key">>
                [] p = "vcom_eq" -> <<"comm", "comms_0", "gis_0", "h", "g_bar", "h_bar">>
                [] p = "and_dlog_com_eq" -> <<"first_public", "second_y", "second_commitment">> [] p = "replicate_dlog" -> <<"public_0", "public_last", "swap">>
                [] p = "enc_trans" -> <<"dlog_public", "elg_dec_public", "encexp1_0_commitment", "encexp2_1_y">>
                [] p = "com_eq_sig" -> <<"blinded_sig_0", "blinded_sig_1", "commitments_0", "commitments_last", "ps_pub_key_y_tilda_last", "ps_pub_key_x_tilda", "comm_key_h">>

VARIABLES w, r, c
svars == <<w, r, c>>
N == WitnessDim(Proto)
SInit == w \in [1..N -> Fld] /\ r \in (IF FixR THEN {[j \in 1..N |-> (2 * j + 1) % Q]} ELSE [1..N -> Fld]) /\ c \in Fld
SSpec == SInit /\ [][UNCHANGED svars]_svars

M == Matrix(Proto, w)
Y == Apply(M, w)
Commit == Apply(M, r)
Respond == [j \in 1..N |-> Mod(r[j] - c * w[j])]
Extract(cc, z, y) == LET mz == Apply(M, z) IN [i \in 1..Len(M) |-> AddG(mz[i], Scale(cc, y[i]))]

Complete == Extract(c, Respond, Y) = Commit
(* a response component that the relation depends on cannot be changed without changing the extracted commitment *)
ColumnNonZero(j) == \E i \in 1..Len(M) : M[i][j] # Zero
ResponseBound == \A j \in 1..N : ColumnNonZero(j) => Extract(c, [Respond EXCEPT ![j] = Mod(@ + 1)], Y) # Commit
(* a changed public image is detected whenever the challenge is non-zero *)
StatementBound == c # 0 => \A i \in 1..Len(M) : Extract(c, Respond, [Y EXCEPT ![i] = AddG(@, E(6))]) # Commit
(* every row of M is checked: the i-th recomputed commitment depends on the i-th public image *)
EveryRowChecked == c # 0 => \A i \in 1..Len(M) : Extract(c, Respond, [Y EXCEPT ![i] = AddG(@, E(6))])[i] # Commit[i]
(* special soundness: from two accepting transcripts with the same commitment and different challenges the witness is determined *)
Inv(a) == CHOOSE x \in 1..(Q - 1) : Mod(a * x) = 1
SpecialSound == \A c2 \in Fld \ {c} :
                   LET z2 == [j \in 1..N |-> Mod(r[j] - c2 * w[j])]
                       wx == [j \in 1..N |-> Mod((Respond[j] - z2[j]) * Inv(Mod(c2 - c)))]
                   IN Apply(M, wx) = Y
(* rows for the implementation: every witness component at a boundary class with the others random, every perturbation target *)
WClasses == {[j \in 1..N |-> "rand"]} \cup {[j \in 1..N |-> IF j = k THEN cl ELSE "rand"] : k \in 1..N, cl \in {"0", "1", "r-1"}} \cup {[j \in 1..N |-> "0"]}
(* "forge_skip_row": a transcript made for the statement without one of its rows (whose image is NOT the image of the witness - the full statement is false), hashed as the
   full statement, with the response padded to the expected size.  Extract recomputes one commitment per row of M, so such a transcript can only be accepted by a verifier
   that leaves a row out; protocols whose statement carries an index set (vcom_eq) or lists of sub-statements (the replicated composition, the two chunk
   lists of enc_trans - there also with the response counts shifted between the two lists so that only their sum matches) are exposed to this. *)
Targets == {"none", "context", "challenge", "challenge_msb", "response_surplus"} \cup (IF Proto \in {"vcom_eq", "replicate_dlog", "enc_trans"} THEN {"forge_skip_row"} ELSE {}) \cup {Publics(Proto)[i] : i \in 1..Len(Publics(Proto))} \cup {"response_" \o ToString(j - 1) : j \in 1..N}
Rows == {[kind |-> "sigma", protocol |-> Proto, wclass |-> wc, perturb |-> t] : wc \in WClasses, t \in Targets}
ASSUME PrintT(<<"ROWS", ToJson(Rows)>>)
=============================================================================
