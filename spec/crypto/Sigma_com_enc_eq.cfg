SPECIFICATION SSpec
CONSTANTS
  FixR = FALSE
  Q = 3
  Proto = "com_enc_eq"
INVARIANTS Complete ResponseBound StatementBound EveryRowChecked SpecialSound
CHECK_DEADLOCK FALSE
