SPECIFICATION ISpec
CONSTANTS
  BigOnly = FALSE
  N = 3
  MaxAccounts = 3
  MaxOps = 3
INVARIANTS CounterLimit ThresholdMeaning OnlyUntouchedVerifies OnlyUntouchedRecovers
VIEW iview
CONSTRAINT Bound
ACTION_CONSTRAINT ExportEdge
CHECK_DEADLOCK FALSE
