SPECIFICATION MSpec
INVARIANT MExport
CHECK_DEADLOCK FALSE
