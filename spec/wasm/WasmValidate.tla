----------------------------- MODULE WasmValidate -----------------------------
(***************************************************************************)
(* The validation algorithm of the WebAssembly 1.0 specification           *)
(* (appendix "Validation Algorithm": operand stack with Unknown, control   *)
(* stack with unreachable frames) for the on-chain subset, as a state      *)
(* machine consuming one instruction per step.  VStep is used both to      *)
(* generate well-typed programs incrementally (WasmGen) and, folded over   *)
(* an arbitrary instruction sequence, as the accept/reject oracle for the  *)
(* engine's validator (C09).                                               *)
(* Types: 2 = i32, 4 = i64, 0 = Unknown.  signExt: are the sign-extension  *)
(* operators admitted (ValidationConfig V1) or not (V0).                   *)
(* Chain rule: #locals + maximal operand stack height <= 1024.             *)
(***************************************************************************)
EXTENDS Naturals, Integers, Sequences, FiniteSets, TLC

VLast(s) == s[Len(s)]
VFront(s) == SubSeq(s, 1, Len(s) - 1)

MAX_STACK == 1024

(* validation state: ts operand type stack, cs control stack, maxh, ok, closed (function body ended) *)
VInit(resultBt) ==
  [ts |-> <<>>, cs |-> <<[kind |-> "func", bt |-> resultBt, height |-> 0, unr |-> FALSE]>>,
   maxh |-> 0, ok |-> TRUE, closed |-> FALSE]

Fail(vs) == [vs EXCEPT !.ok = FALSE]

Push(vs, t) ==
  [vs EXCEPT !.ts = Append(vs.ts, t), !.maxh = IF Len(vs.ts) + 1 > vs.maxh THEN Len(vs.ts) + 1 ELSE vs.maxh]

(* pop an operand expected to have type t (0 = any) *)
Pop(vs, t) ==
  IF ~vs.ok THEN vs
  ELSE LET F == VLast(vs.cs) IN
       IF Len(vs.ts) = F.height
       THEN IF F.unr THEN vs ELSE Fail(vs)
       ELSE LET top == VLast(vs.ts) IN
            IF top = t \/ top = 0 \/ t = 0 THEN [vs EXCEPT !.ts = VFront(vs.ts)] ELSE Fail(vs)

(* type of the operand that Pop would remove (0 if it comes from an unreachable frame) *)
PeekType(vs) ==
  LET F == VLast(vs.cs) IN IF Len(vs.ts) = F.height THEN 0 ELSE VLast(vs.ts)

RECURSIVE PopAll(_, _)   \* pop a sequence of types, last first
PopAll(vs, types) == IF types = <<>> THEN vs ELSE PopAll(Pop(vs, VLast(types)), VFront(types))
RECURSIVE PushAll(_, _)
PushAll(vs, types) == IF types = <<>> THEN vs ELSE PushAll(Push(vs, types[1]), Tail(types))

BtTypes(bt) == IF bt = 0 THEN <<>> ELSE <<bt>>
LabelTypes(F) == IF F.kind = "loop" THEN <<>> ELSE BtTypes(F.bt)

SetUnreachable(vs) ==
  LET F == VLast(vs.cs) IN
  [vs EXCEPT !.ts = SubSeq(vs.ts, 1, F.height), !.cs[Len(vs.cs)].unr = TRUE]

LabelOk(vs, l) == l >= 0 /\ l < Len(vs.cs)
LabelFrame(vs, l) == vs.cs[Len(vs.cs) - l]

(* ctx: [locals (types of params ++ declared locals), globals (seq of [t, mut]), funcs (seq of
   [params, results] by function index), types (seq of [params, results]), hasMem, hasTable,
   signExt, result (bt of the function)] *)
VStep(ctx, vs, ins) ==
  IF ~vs.ok \/ vs.closed THEN Fail(vs)
  ELSE
  LET op == ins.op IN
  CASE op = "nop" -> vs
    [] op = "unreachable" -> SetUnreachable(vs)
    [] op = "const" -> Push(vs, ins.t)
    [] op = "local.get" -> IF ins.i < Len(ctx.locals) THEN Push(vs, ctx.locals[ins.i + 1]) ELSE Fail(vs)
    [] op = "local.set" -> IF ins.i < Len(ctx.locals) THEN Pop(vs, ctx.locals[ins.i + 1]) ELSE Fail(vs)
    [] op = "local.tee" ->
         IF ins.i < Len(ctx.locals)
         THEN LET p == Pop(vs, ctx.locals[ins.i + 1]) IN IF p.ok THEN Push(p, ctx.locals[ins.i + 1]) ELSE p
         ELSE Fail(vs)
    [] op = "global.get" -> IF ins.i < Len(ctx.globals) THEN Push(vs, ctx.globals[ins.i + 1].t) ELSE Fail(vs)
    [] op = "global.set" ->
         IF ins.i < Len(ctx.globals) /\ ctx.globals[ins.i + 1].mut THEN Pop(vs, ctx.globals[ins.i + 1].t) ELSE Fail(vs)
    [] op = "binop" -> LET p == PopAll(vs, <<ins.t, ins.t>>) IN IF p.ok THEN Push(p, ins.t) ELSE p
    [] op = "relop" -> LET p == PopAll(vs, <<ins.t, ins.t>>) IN IF p.ok THEN Push(p, 2) ELSE p
    [] op = "unop" -> LET p == Pop(vs, ins.t) IN IF p.ok THEN Push(p, ins.t) ELSE p
    [] op = "eqz" -> LET p == Pop(vs, ins.t) IN IF p.ok THEN Push(p, 2) ELSE p
    [] op = "cvt" ->
         LET sig == CASE ins.name = "wrap" -> <<4, 2, FALSE>>
                      [] ins.name \in {"extend_s", "extend_u"} -> <<2, 4, FALSE>>
                      [] ins.name \in {"i32.extend8_s", "i32.extend16_s"} -> <<2, 2, TRUE>>
                      [] ins.name \in {"i64.extend8_s", "i64.extend16_s", "i64.extend32_s"} -> <<4, 4, TRUE>>
         IN IF sig[3] /\ ~ctx.signExt THEN Fail(vs)
            ELSE LET p == Pop(vs, sig[1]) IN IF p.ok THEN Push(p, sig[2]) ELSE p
    [] op = "drop" -> Pop(vs, 0)
    [] op = "select" ->
         LET p1 == Pop(vs, 2) IN
         IF ~p1.ok THEN p1
         ELSE LET t1 == PeekType(p1)
                  p2 == Pop(p1, 0)
              IN IF ~p2.ok THEN p2
                 ELSE LET t2 == PeekType(p2)
                          p3 == Pop(p2, t1)
                      IN IF p3.ok THEN Push(p3, IF t1 = 0 THEN t2 ELSE t1) ELSE p3
    [] op = "load" ->
         IF ~ctx.hasMem THEN Fail(vs) ELSE LET p == Pop(vs, 2) IN IF p.ok THEN Push(p, ins.t) ELSE p
    [] op = "store" -> IF ~ctx.hasMem THEN Fail(vs) ELSE PopAll(vs, <<2, ins.t>>)
    [] op = "memory.size" -> IF ~ctx.hasMem THEN Fail(vs) ELSE Push(vs, 2)
    [] op = "memory.grow" -> IF ~ctx.hasMem THEN Fail(vs) ELSE LET p == Pop(vs, 2) IN IF p.ok THEN Push(p, 2) ELSE p
    [] op \in {"block", "loop"} ->
         [vs EXCEPT !.cs = Append(vs.cs, [kind |-> op, bt |-> ins.bt, height |-> Len(vs.ts), unr |-> FALSE])]
    [] op = "if" ->
         LET p == Pop(vs, 2) IN
         IF ~p.ok THEN p
         ELSE [p EXCEPT !.cs = Append(p.cs, [kind |-> "if", bt |-> ins.bt, height |-> Len(p.ts), unr |-> FALSE])]
    [] op = "else" ->
         LET F == VLast(vs.cs) IN
         IF F.kind # "if" THEN Fail(vs)
         ELSE LET p == PopAll(vs, BtTypes(F.bt)) IN
              IF ~p.ok \/ Len(p.ts) # F.height THEN Fail(vs)
              ELSE [p EXCEPT !.cs[Len(p.cs)] = [kind |-> "else", bt |-> F.bt, height |-> F.height, unr |-> FALSE]]
    [] op = "end" ->
         LET F == VLast(vs.cs)
             p == PopAll(vs, BtTypes(F.bt))
         IN IF ~p.ok \/ Len(p.ts) # F.height THEN Fail(vs)
            ELSE IF F.kind = "if" /\ F.bt # 0 THEN Fail(vs)      \* an if without else cannot produce a value
            ELSE IF F.kind = "func" THEN [p EXCEPT !.closed = TRUE, !.ts = BtTypes(F.bt)]
            ELSE PushAll([p EXCEPT !.cs = VFront(p.cs)], BtTypes(F.bt))
    [] op = "br" ->
         IF ~LabelOk(vs, ins.l) THEN Fail(vs)
         ELSE LET p == PopAll(vs, LabelTypes(LabelFrame(vs, ins.l))) IN IF p.ok THEN SetUnreachable(p) ELSE p
    [] op = "br_if" ->
         IF ~LabelOk(vs, ins.l) THEN Fail(vs)
         ELSE LET lt == LabelTypes(LabelFrame(vs, ins.l))
                  p == PopAll(Pop(vs, 2), lt)
              IN IF p.ok THEN PushAll(p, lt) ELSE p
    [] op = "br_table" ->
         IF ~LabelOk(vs, ins.d) \/ \E i \in 1..Len(ins.ls) : ~LabelOk(vs, ins.ls[i]) THEN Fail(vs)
         ELSE LET lt == LabelTypes(LabelFrame(vs, ins.d)) IN
              IF \E i \in 1..Len(ins.ls) : LabelTypes(LabelFrame(vs, ins.ls[i])) # lt THEN Fail(vs)
              ELSE LET p == PopAll(Pop(vs, 2), lt) IN IF p.ok THEN SetUnreachable(p) ELSE p
    [] op = "return" ->
         LET p == PopAll(vs, BtTypes(ctx.result)) IN IF p.ok THEN SetUnreachable(p) ELSE p
    [] op = "call" ->
         IF ins.f >= Len(ctx.funcs) THEN Fail(vs)
         ELSE LET ft == ctx.funcs[ins.f + 1]
                  p == PopAll(vs, ft.params)
              IN IF p.ok THEN PushAll(p, ft.results) ELSE p
    [] op = "call_indirect" ->
         IF ~ctx.hasTable \/ ins.ty >= Len(ctx.types) THEN Fail(vs)
         ELSE LET ft == ctx.types[ins.ty + 1]
                  p == PopAll(Pop(vs, 2), ft.params)
              IN IF p.ok THEN PushAll(p, ft.results) ELSE p

RECURSIVE VFold(_, _, _, _)
VFold(ctx, vs, body, i) == IF i > Len(body) THEN vs ELSE VFold(ctx, VStep(ctx, vs, body[i]), body, i + 1)

(* a function body (including its final end) is valid *)
ValidBody(ctx, body) ==
  LET vs == VFold(ctx, VInit(ctx.result), body, 1)
  IN vs.ok /\ vs.closed /\ Len(ctx.locals) + vs.maxh <= MAX_STACK
=============================================================================
