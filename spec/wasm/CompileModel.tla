---------------------------- MODULE CompileModel ----------------------------
(***************************************************************************)
(* As-built layer on top of the reference semantics (DESIGN 3.6).           *)
(*                                                                         *)
(* The engine compiles the operand stack to registers.  Five recorded       *)
(* defects of that scheme (known_findings.json D1, D2, D4, D5, D6) and one of *)
(* ALU (D3) make the engine deviate from WasmSem on specific programs.       *)
(* This module computes, along the *reference* run,                          *)
(*  - hz: the set of hazard predicates that held on the executed path, each  *)
(*    stating exactly the circumstances of one recorded defective site;      *)
(*  - for D3, whose effect is simple, an as-built run (dev) that predicts the   *)
(*    engine's actual (deviating) outcome.  (An as-built D4 that assigns the    *)
(*    carried value to local 0 was tried and rejected: the engine's outcome     *)
(*    also depends on which operands are pending references and on the          *)
(*    result-register short-circuit, so D4 is classified by its predicate.)     *)
(* A disagreement between the engine and WasmSem is attributed to a recorded *)
(* finding only if (D3) the engine's outcome equals the as-built outcome of  *)
(* a run in which the deviation fired, or (D1/D2/D4/D5/D6) the hazard predicate *)
(* held on the executed path.  Everything else is a violation.               *)
(*                                                                         *)
(* D1  a value that is on the operand stack as a pending reference to local  *)
(*     L (pushed by local.get L / local.tee L, L not written since) survives *)
(*     a control transfer that skips a code range containing local.set L or  *)
(*     local.tee L: the preserving copy is emitted at that site and never     *)
(*     runs, but the slot was redirected to the copy at compile time.         *)
(* D2  a br_if to a value-carrying block is not taken and the carried value  *)
(*     is consumed while the block is still open: its result register is      *)
(*     recycled while still reserved for later exits of the block.            *)
(*     The recycling is decided when the code is compiled, in code order: the    *)
(*     register is free for everything that FOLLOWS the br_if inside the block -   *)
(*     also on paths that never execute the br_if (the else arm of an `if` whose   *)
(*     then arm holds it), and also for values the metering transformation adds    *)
(*     (the flag of a metered br_if).  D2 is therefore also attributed to a run     *)
(*     that executes code located, inside a value-carrying block or if, after a      *)
(*     br_if to that block (D2Sites, computed from the program text).                *)
(* D3  rem_s(MIN, -1) traps (checked_rem); the specification says 0.          *)
(* D4  a br_if to the function-level label of a function with a result        *)
(*     copies the carried value into register 0 (= local 0) before the        *)
(*     condition is read and the jump decided: a later read of local 0 sees   *)
(*     the carried value, and a condition that is itself a pending reference   *)
(*     to local 0 is tested after it was overwritten.                          *)
(* D5  the mirror image of D1: the preserving copy emitted at a local.set /    *)
(*     local.tee L site (frame-local pc s) redirected a stack slot that was a  *)
(*     pending reference to L; a backward jump (next loop iteration) executes  *)
(*     site s again while that slot is still on the stack: the copy runs a     *)
(*     second time and overwrites the preserved value with the local's         *)
(*     current value.  ps[i] = the sites that redirected slot i.               *)
(* D6  a not-taken br_if to a value-carrying block leaves its carried value in *)
(*     the block's result register (D2).  If that value is the CONDITION of a   *)
(*     later br_if to the same block, the copy of the later br_if's carried      *)
(*     value into the result register precedes the test (D4) and the test reads  *)
(*     the carried value instead of the condition.  pk[i] = position in the       *)
(*     label stack of the block in whose result register slot i is parked.        *)
(***************************************************************************)
EXTENDS WasmSem

NPop(M, c, ins) ==
  LET op == ins.op IN
  CASE op \in {"const", "local.get", "global.get", "memory.size", "nop", "block", "loop", "else", "end", "unreachable"} -> 0
    [] op \in {"local.set", "local.tee", "global.set", "unop", "eqz", "cvt", "drop", "load", "memory.grow", "if", "br_if", "br_table"} -> 1
    [] op \in {"binop", "relop", "store"} -> 2
    [] op = "select" -> 3
    [] op = "call" -> Len(FuncType(M, ins.f + 1).params)
    [] op = "call_indirect" -> 1 + Len(M.types[ins.ty + 1].params)
    [] OTHER -> 0

Zeros(n) == [i \in 1..n |-> 0]

(* static range of instructions skipped by a control transfer from pc to target (exclusive) *)
SetsIn(body, from, to) ==
  {body[i].i : i \in {j \in from..to : j >= 1 /\ j <= Len(body) /\ body[j].op \in {"local.set", "local.tee"}}}

(* program points located, inside a value-carrying block / if, after a br_if to that block *)
EnclosesQ(body, ctlf, q, p) == body[q].op \in {"block", "loop", "if"} /\ q < p /\ ctlf[q].end > p
DepthBetween(body, ctlf, s, p) == Cardinality({q \in (s + 1)..(p - 1) : EnclosesQ(body, ctlf, q, p)})
D2Sites(body, ctlf) ==
  UNION { UNION { IF body[p].op = "br_if" /\ body[p].l = DepthBetween(body, ctlf, s, p) THEN (p + 1)..ctlf[s].end ELSE {} : p \in (s + 1)..(ctlf[s].end - 1) }
          : s \in { q \in 1..Len(body) : body[q].op \in {"block", "if"} /\ body[q].bt # 0 } }
D2SitesOf(M) == LET ctl == CtlOf(M) IN [f \in 1..Len(M.funcs) |-> IF M.funcs[f].host THEN {} ELSE D2Sites(M.funcs[f].body, ctl[f])]

StartH(M, f, args, hostq, dev) ==
  Start(M, f, args, hostq) @@ [hz |-> {}, so |-> <<>>, fso |-> <<>>, ps |-> <<>>, fps |-> <<>>, pk |-> <<>>, fpk |-> <<>>, d2s |-> D2SitesOf(M), watch |-> {}, dev |-> dev, fired |-> {}]

StepH(M, ctl, c) ==
  LET body == M.funcs[c.f].body
      ins == body[c.pc]
      op == ins.op
      n == Len(c.st)
      (* ---- as-built deviations applied before the reference step ---- *)
      d3 == op = "binop" /\ ins.name = "rem_s" /\ c.st[n - 1] = MinVal(ins.t) /\ c.st[n] = AllOnes(ins.t)
      notTaken == op = "br_if" /\ IsZero(Last(c.st))
      tgt == IF op = "br_if" THEN c.lb[Len(c.lb) - ins.l] ELSE [kind |-> "", arity |-> 0, height |-> 0, cont |-> 0]
      d4 == op = "br_if" /\ tgt.kind = "func" /\ tgt.arity = 1     \* taken or not: the copy precedes the test
      d2 == notTaken /\ tgt.kind = "block" /\ tgt.arity = 1
      cDev == c
      r == IF d3 /\ "D3" \in c.dev
           THEN TrapC([cDev EXCEPT !.pc = c.pc + 1, !.steps = c.steps + 1], "as-built: rem_s overflow")
           ELSE Step(M, ctl, cDev)
      (* ---- hazard bookkeeping on the executed path ---- *)
      sameFrame == Len(r.fr) = Len(c.fr) /\ r.status = "run"
      jumped == sameFrame /\ r.pc # c.pc + 1 /\ op \in {"if", "else", "br", "br_if", "br_table"}
      skipped == IF jumped /\ r.pc > c.pc THEN SetsIn(body, c.pc + 1, r.pc - 1) ELSE {}
      live == {c.so[i] : i \in 1..Len(c.so)} \ {0}
      d1 == \E L \in skipped : (L + 1) \in live
      written == IF op \in {"local.set", "local.tee"} THEN {ins.i + 1} ELSE {}
      keep == n - NPop(M, c, ins)
      brLabel == IF op = "br" \/ op = "br_if" THEN ins.l
                 ELSE IF op = "br_table"
                 THEN (LET i == Last(c.st) IN IF i[2] = 0 /\ i[1] < Len(ins.ls) THEN ins.ls[i[1] + 1] ELSE ins.d)
                 ELSE 0
      carried == IF jumped /\ op \in {"br", "br_if", "br_table"} THEN c.lb[Len(c.lb) - brLabel].arity ELSE 0
      so1 == [i \in 1..Len(r.st) |->
                IF i <= keep /\ i <= Len(c.so) /\ i <= Len(r.st) - carried
                THEN (IF c.so[i] \in written THEN 0 ELSE c.so[i]) ELSE 0]
      so2 == IF op \in {"local.get", "local.tee"} /\ Len(so1) > 0 THEN [so1 EXCEPT ![Len(so1)] = ins.i + 1] ELSE so1
      called == Len(r.fr) > Len(c.fr)
      returned == Len(r.fr) < Len(c.fr)
      newSo == IF r.status # "run" THEN <<>>
               ELSE IF called THEN Zeros(Len(r.st))
               ELSE IF returned THEN LET saved == Last(c.fso) IN [i \in 1..Len(r.st) |-> IF i <= Len(saved) THEN saved[i] ELSE 0]
               ELSE so2
      isSet == op \in {"local.set", "local.tee"}
      d5 == isSet /\ \E i \in 1..(n - 1) : i <= Len(c.ps) /\ c.pc \in c.ps[i]
      ps1 == [i \in 1..Len(r.st) |->
                IF i <= keep /\ i <= Len(c.ps) /\ i <= Len(c.so) /\ i <= Len(r.st) - carried
                THEN (IF isSet /\ c.so[i] = ins.i + 1 THEN c.ps[i] \cup {c.pc} ELSE c.ps[i]) ELSE {}]
      newPs == IF r.status # "run" THEN <<>>
               ELSE IF called THEN [i \in 1..Len(r.st) |-> {}]
               ELSE IF returned THEN LET saved == Last(c.fps) IN [i \in 1..Len(r.st) |-> IF i <= Len(saved) THEN saved[i] ELSE {}]
               ELSE ps1
      newFps == IF called THEN Append(c.fps, SubSeq(c.ps, 1, IF keep < Len(c.ps) THEN keep ELSE Len(c.ps)))
                ELSE IF returned /\ c.fps # <<>> THEN Front(c.fps) ELSE c.fps
      tgtPos == IF op = "br_if" THEN Len(c.lb) - ins.l ELSE 0
      valBrIf == op = "br_if" /\ tgt.kind = "block" /\ tgt.arity = 1
      d6 == valBrIf /\ n <= Len(c.pk) /\ c.pk[n] = tgtPos /\ tgtPos > 0
      pk1 == [i \in 1..Len(r.st) |->
                IF valBrIf /\ notTaken /\ i = n - 1 THEN tgtPos
                ELSE IF i <= keep /\ i <= Len(c.pk) /\ i <= Len(r.st) - carried THEN c.pk[i] ELSE 0]
      newPk == IF r.status # "run" THEN <<>>
               ELSE IF called THEN Zeros(Len(r.st))
               ELSE IF returned THEN LET saved == Last(c.fpk) IN [i \in 1..Len(r.st) |-> IF i <= Len(saved) THEN saved[i] ELSE 0]
               ELSE pk1
      newFpk == IF called THEN Append(c.fpk, SubSeq(c.pk, 1, IF keep < Len(c.pk) THEN keep ELSE Len(c.pk)))
                ELSE IF returned /\ c.fpk # <<>> THEN Front(c.fpk) ELSE c.fpk
      newFso == IF called THEN Append(c.fso, SubSeq(c.so, 1, IF keep < Len(c.so) THEN keep ELSE Len(c.so)))
                ELSE IF returned /\ c.fso # <<>> THEN Front(c.fso) ELSE c.fso
      depth == Len(c.fr)
      w1 == IF d2 THEN c.watch \cup {[depth |-> depth, lbl |-> Len(c.lb) - ins.l, h |-> n - 1]} ELSE c.watch
      w2 == {w \in w1 : w.depth <= Len(r.fr) /\ (w.depth < Len(r.fr) \/ Len(r.lb) >= w.lbl)}
      d2fire == \E w \in w2 : w.depth = Len(r.fr) /\ r.status = "run" /\ Len(r.st) < w.h
      d2static == c.pc \in c.d2s[c.f]
      newHz == c.hz \cup (IF d1 THEN {"D1"} ELSE {}) \cup (IF d2fire \/ d2static THEN {"D2"} ELSE {})
                    \cup (IF d3 THEN {"D3"} ELSE {}) \cup (IF d4 THEN {"D4"} ELSE {}) \cup (IF d5 THEN {"D5"} ELSE {}) \cup (IF d6 THEN {"D6"} ELSE {})
      newFired == c.fired \cup (IF d3 /\ "D3" \in c.dev THEN {"D3"} ELSE {}) 
  IN [r EXCEPT !.hz = newHz, !.so = newSo, !.fso = newFso, !.ps = newPs, !.fps = newFps, !.pk = newPk, !.fpk = newFpk, !.watch = w2, !.fired = newFired]

RECURSIVE RunFuelH(_, _, _, _)
RunFuelH(M, ctl, c, fuel) ==
  IF c.status # "run" THEN c
  ELSE IF fuel = 0 THEN [c EXCEPT !.status = "fuel"]
  ELSE RunFuelH(M, ctl, StepH(M, ctl, c), fuel - 1)

RunH(M, f, args, hostq, fuel, dev) == RunFuelH(M, CtlOf(M), StartH(M, f, args, hostq, dev), fuel)

SortedSet(S) == SelectSeq(<<"D1", "D2", "D3", "D4", "D5", "D6">>, LAMBDA x : x \in S)

(* reference outcome, hazards seen on the reference path, and - when a modelled deviation
   applies - the as-built outcome *)
OutcomeH(M, f, args, hostq, fuel) ==
  LET ref == RunH(M, f, args, hostq, fuel, {})
      out == Outcome(ref) @@ [hz |-> SortedSet(ref.hz)]
  IN IF "D3" \in ref.hz
     THEN LET ab1 == RunH(M, f, args, hostq, fuel, {"D3"})
          IN out @@ [abs |-> << Outcome(ab1) @@ [hz |-> SortedSet(ab1.hz)] >>]
     ELSE out
=============================================================================
