SPECIFICATION GSpec
CONSTANTS
  Template <- TemplateT
  GenIdx = 2
  EntryIdx = 1
  Alphabet <- AlphabetOf
  MaxLen = 6
  ArgSets <- ArgsT
  HostQ <- NoHostQ
  Fuel = 400
  SignExt = TRUE
  WithBad = FALSE
  Cfg = "ctl"
INVARIANT Export
CHECK_DEADLOCK FALSE
