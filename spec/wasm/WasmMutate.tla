----------------------------- MODULE WasmMutate -----------------------------
(* Mutation scripts for the totality part of C09: sequences of byte-level edits applied to valid
   module binaries.  There is no verdict for a mutated module: the engine must answer Ok or Err
   without panicking and in bounded time, and if it answers Ok the module must run safely. *)
EXTENDS Naturals, Integers, Sequences, FiniteSets, TLC, Json

(* mutation scripts: sequences of byte-level edits applied to valid module binaries; positions
   are fractions (per mille) of the module length so that the script is independent of it *)
MutKinds == {"flip", "truncate", "inflate_leb", "drop_section", "dup_section", "swap_sections", "grow_count", "set_byte", "insert"}
VARIABLE script
MInit == script = <<>>
MNext == /\ Len(script) < 3
         /\ \E k \in MutKinds, pos \in {0, 8, 15, 50, 120, 300, 500, 700, 900, 999}, val \in {0, 1, 127, 128, 255} :
              script' = Append(script, [k |-> k, pos |-> pos, val |-> val])
MSpec == MInit /\ [][MNext]_script
MExport == (Len(script) > 0) => PrintT(<<"REPLAY", ToJson(script)>>)
=============================================================================
