------------------------------ MODULE Interrupt ------------------------------
(***************************************************************************)
(* Interrupted execution (C13).  A call to a host function either answers  *)
(* inline (WasmSem's Invoke) or suspends the machine: the configuration is *)
(* frozen with the call's arguments consumed, and a later Resume(v) writes *)
(* v where the inline call would have left its result.  `sched` is the set *)
(* of host-call indices (in order of occurrence, 0-based) that interrupt.   *)
(* The design property is transparency: for every program, input and       *)
(* schedule the interrupted run ends in the same outcome (result, memory,  *)
(* globals, energy, host calls) as the uninterrupted run.                  *)
(***************************************************************************)
EXTENDS CompileModel

IsHostCall(M, c) ==
  c.status = "run" /\ LET ins == M.funcs[c.f].body[c.pc] IN ins.op = "call" /\ M.funcs[ins.f + 1].host

(* suspend: consume the arguments, log the call, remember what is pending *)
Suspend(M, c) ==
  LET ins == M.funcs[c.f].body[c.pc]
      g == ins.f + 1
      ft == FuncType(M, g)
      np == Len(ft.params)
  IN [c EXCEPT !.status = "suspended",
               !.st = DropN(c.st, np),
               !.hostlog = Append(c.hostlog, [name |-> M.funcs[g].name, args |-> TopN(c.st, np)])]

(* resume with the value the host provides (taken from the script, as the inline call does) *)
Resume(M, c) ==
  LET ins == M.funcs[c.f].body[c.pc]
      g == ins.f + 1
      ft == FuncType(M, g)
      callee == ft
      arityOf(l) == c.lb[Len(c.lb) - l].arity
      cost(v) == InstrCost(v, ins, arityOf, Arity(M, c.f), Len(callee.params), Len(callee.results))
      r == IF c.hostq = <<>> THEN ZeroOf(IF ft.results = <<>> THEN 2 ELSE ft.results[1]) ELSE c.hostq[1]
  IN [c EXCEPT !.status = "run", !.pc = c.pc + 1, !.steps = c.steps + 1,
               !.w0 = c.w0 + cost(0), !.w1 = c.w1 + cost(1),
               !.st = c.st \o (IF ft.results = <<>> THEN <<>> ELSE <<r>>),
               !.hostq = IF c.hostq = <<>> \/ ft.results = <<>> THEN c.hostq ELSE Tail(c.hostq)]

RECURSIVE RunSchedFuel(_, _, _, _, _)
RunSchedFuel(M, ctl, c, fuel, sched) ==
  IF c.status = "suspended" THEN RunSchedFuel(M, ctl, Resume(M, c), fuel, sched)
  ELSE IF c.status # "run" THEN c
  ELSE IF fuel = 0 THEN [c EXCEPT !.status = "fuel"]
  ELSE IF IsHostCall(M, c) /\ Len(c.hostlog) \in sched
       THEN RunSchedFuel(M, ctl, Suspend(M, c), fuel - 1, sched)
       ELSE RunSchedFuel(M, ctl, Step(M, ctl, c), fuel - 1, sched)

RunSched(M, f, args, hostq, fuel, sched) == RunSchedFuel(M, CtlOf(M), Start(M, f, args, hostq), fuel, sched)

Transparent(M, f, args, hostq, fuel, maxCalls) ==
  LET inline == Outcome(Run(M, f, args, hostq, fuel)) IN
  \A sched \in SUBSET (0..(maxCalls - 1)) : Outcome(RunSched(M, f, args, hostq, fuel, sched)) = inline
=============================================================================
