------------------------------- MODULE WasmGen -------------------------------
(***************************************************************************)
(* Program generator: grows the body of one function of a module template  *)
(* one instruction at a time, appending only instructions the validation   *)
(* algorithm (WasmValidate) admits - so nested blocks/loops/ifs, branches  *)
(* with and without values, and unreachable (stack-polymorphic) code are    *)
(* all generated - until the function body is closed.  Every complete       *)
(* program is then executed on the reference semantics (WasmSem) for each   *)
(* argument vector, and the module together with the expected outcomes is   *)
(* exported for replay on the real engine.                                  *)
(***************************************************************************)
EXTENDS CompileModel, WasmValidate, Json

CONSTANTS Template,   \* module record; the body of function GenIdx is the hole
          GenIdx,     \* 1-based index of the generated function in Template.funcs
          EntryIdx,   \* 1-based index of the exported entry function
          Alphabet,   \* set of instruction records
          MaxLen,     \* maximal length of the generated body, including the final end
          ArgSets,    \* set of argument vectors for the entry function
          HostQ,      \* scripted host results
          Fuel,       \* step bound for the reference run
          SignExt,    \* are sign-extension operators admitted
          WithBad     \* also emit minimal ill-typed bodies and truncated bodies (C09)

VARIABLES body, vs, phase

gvars == <<body, vs, phase>>

GenCtx ==
  LET ft == Template.types[Template.funcs[GenIdx].ty + 1] IN
  [locals |-> ft.params \o Template.funcs[GenIdx].locals,
   globals |-> [i \in 1..Len(Template.globals) |-> [t |-> Template.globals[i].t, mut |-> Template.globals[i].mut]],
   funcs |-> [i \in 1..Len(Template.funcs) |-> Template.types[Template.funcs[i].ty + 1]],
   types |-> Template.types,
   hasMem |-> Template.pages >= 0,
   hasTable |-> Len(Template.table) > 0,
   signExt |-> SignExt,
   result |-> IF ft.results = <<>> THEN 0 ELSE ft.results[1]]

GInit == body = <<>> /\ vs = VInit(GenCtx.result) /\ phase = "gen"

Gen(ins) ==
  /\ phase = "gen"
  /\ LET v2 == VStep(GenCtx, vs, ins) IN
     /\ v2.ok
     /\ Len(body) + 1 + (IF v2.closed THEN 0 ELSE Len(v2.cs)) <= MaxLen   \* every open frame still needs its end
     /\ Len(GenCtx.locals) + v2.maxh <= MAX_STACK
     /\ body' = Append(body, ins)
     /\ vs' = v2
     /\ phase' = IF v2.closed THEN "done" ELSE "gen"

(* C09: a valid prefix extended by one instruction the validation algorithm rejects; all open
   frames are then closed syntactically so that the rejection has to come from typing *)
RECURSIVE Ends(_)
Ends(n) == IF n = 0 THEN <<>> ELSE <<[op |-> "end"]>> \o Ends(n - 1)

GenBad(ins) ==
  /\ WithBad /\ phase = "gen"
  /\ Len(body) + 1 <= MaxLen
  /\ ~VStep(GenCtx, vs, ins).ok
  /\ body' = Append(body, ins) \o Ends(Len(vs.cs) + (IF ins.op \in {"block", "loop", "if"} THEN 1 ELSE 0)
                                       - (IF ins.op = "end" THEN 1 ELSE 0))
  /\ vs' = vs
  /\ phase' = "bad"

(* C09: a body whose frames are not all closed *)
GenTrunc ==
  /\ WithBad /\ phase = "gen" /\ body # <<>>
  /\ UNCHANGED <<body, vs>>
  /\ phase' = "trunc"

GNext == \E ins \in Alphabet : Gen(ins) \/ GenBad(ins) \/ GenTrunc

GSpec == GInit /\ [][GNext]_gvars

Module == [Template EXCEPT !.funcs[GenIdx].body = body]

SetAsSeq(S) == CHOOSE s \in [1..Cardinality(S) -> S] : \A x \in S : \E i \in 1..Cardinality(S) : s[i] = x

RunsOf(M) ==
  LET args == SetAsSeq(ArgSets)
  IN [i \in 1..Len(args) |-> [args |-> args[i], out |-> OutcomeH(M, EntryIdx, args[i], HostQ, Fuel)]]

(* the template is printed once, each complete program as its generated body plus expected outcomes *)
ASSUME PrintT(<<"TEMPLATE", ToJson([m |-> Template, gen |-> GenIdx - 1, entry |-> EntryIdx - 1, hostq |-> HostQ])>>)
Export ==
  /\ phase = "done" => PrintT(<<"REPLAY", ToJson([body |-> body, valid |-> TRUE, runs |-> RunsOf(Module)])>>)
  /\ phase \in {"bad", "trunc"} => PrintT(<<"REPLAY", ToJson([body |-> body, valid |-> FALSE, why |-> phase, runs |-> <<>>])>>)

(* the generator agrees with the recogniser: what it completes is valid, what it marks bad is not *)
GenAgreesWithValidator ==
  /\ phase = "done" => ValidBody(GenCtx, body)
  /\ phase \in {"bad", "trunc"} => ~ValidBody(GenCtx, body)
=============================================================================
