------------------------------- MODULE WasmSem -------------------------------
(***************************************************************************)
(* Reference small-step semantics of the WebAssembly 1.0 integer subset    *)
(* used on chain (plus the sign-extension operators), written from the W3C *)
(* specification, not from the engine.                                     *)
(*                                                                         *)
(* A module M is a record                                                  *)
(*   types   : sequence of [params, results]  (value types: 2 = i32, 4 = i64) *)
(*   funcs   : sequence of [ty, locals, body, host, name]  (imports first) *)
(*   globals : sequence of [t, mut, init]                                  *)
(*   pages, maxPages : memory size limits in 64 KiB pages (pages = -1: no memory) *)
(*   table   : sequence of function indices (0-based) or -1 for holes      *)
(*   data    : sequence of [off, bytes]                                    *)
(* A configuration c is a record, see Start.  Step(M, c) is the successor. *)
(***************************************************************************)
EXTENDS Naturals, Integers, Sequences, FiniteSets, TLC, ALU, Metering

PAGE == 65536

Last(s) == s[Len(s)]
Front(s) == SubSeq(s, 1, Len(s) - 1)
TopN(s, n) == SubSeq(s, Len(s) - n + 1, Len(s))
DropN(s, n) == SubSeq(s, 1, Len(s) - n)

FuncType(M, f) == M.types[M.funcs[f].ty + 1]      \* f is 1-based here
Arity(M, f) == Len(FuncType(M, f).results)

(* matching end / else of every block-like instruction of a body *)
RECURSIVE ScanCtl(_, _, _, _)
ScanCtl(body, pc, open, acc) ==
  IF pc > Len(body) THEN acc
  ELSE LET ins == body[pc] IN
       IF ins.op \in {"block", "loop", "if"}
       THEN ScanCtl(body, pc + 1, Append(open, pc), acc @@ (pc :> [end |-> 0, else |-> 0]))
       ELSE IF ins.op = "else" /\ open # <<>>
       THEN ScanCtl(body, pc + 1, open, [acc EXCEPT ![Last(open)].else = pc])
       ELSE IF ins.op = "end" /\ open # <<>>
       THEN ScanCtl(body, pc + 1, Front(open), [acc EXCEPT ![Last(open)].end = pc])
       ELSE ScanCtl(body, pc + 1, open, acc)
Ctl(body) == ScanCtl(body, 1, <<>>, [x \in {} |-> 0])
CtlOf(M) == [f \in 1..Len(M.funcs) |-> IF M.funcs[f].host THEN [x \in {} |-> 0] ELSE Ctl(M.funcs[f].body)]

ZeroOf(t) == Zero(t)

MemGet(mem, a) == IF a \in DOMAIN mem THEN mem[a] ELSE 0
MemPut(mem, a, bytes) ==
  LET new == {a + i - 1 : i \in 1..Len(bytes)} IN
  [x \in DOMAIN mem \cup new |-> IF x \in new THEN bytes[x - a + 1] ELSE mem[x]]

InitMem(M) ==
  LET RECURSIVE go(_, _)
      go(mem, i) == IF i > Len(M.data) THEN mem ELSE go(MemPut(mem, M.data[i].off, M.data[i].bytes), i + 1)
  IN go([x \in {} |-> 0], 1)

FuncLabel(M, f) == [kind |-> "func", cont |-> 0, arity |-> Arity(M, f), height |-> 0]

Start(M, f, args, hostq) ==
  [status |-> "run", trapk |-> "", f |-> f, pc |-> 1, st |-> <<>>,
   lb |-> <<FuncLabel(M, f)>>,
   lo |-> args \o [i \in 1..Len(M.funcs[f].locals) |-> ZeroOf(M.funcs[f].locals[i])],
   fr |-> <<>>, gl |-> [i \in 1..Len(M.globals) |-> M.globals[i].init],
   mem |-> InitMem(M), pg |-> M.pages, res |-> <<>>, steps |-> 0,
   hostq |-> hostq, hostlog |-> <<>>, grows |-> <<>>,
   w0 |-> InvokeAfter(0, Len(M.funcs[f].locals)), w1 |-> InvokeAfter(1, Len(M.funcs[f].locals))]

TrapC(c, k) == [c EXCEPT !.status = "trap", !.trapk = k]

DoReturn(M, c) ==
  LET vals == TopN(c.st, Arity(M, c.f)) IN
  IF c.fr = <<>>
  THEN [c EXCEPT !.status = "done", !.res = vals, !.st = vals]
  ELSE LET fr == Last(c.fr) IN
       [c EXCEPT !.f = fr.f, !.pc = fr.pc, !.st = fr.st \o vals, !.lb = fr.lb, !.lo = fr.lo, !.fr = Front(c.fr)]

Branch(M, c, l) ==
  LET idx == Len(c.lb) - l
      L == c.lb[idx]
      vals == TopN(c.st, L.arity)
  IN IF L.kind = "func" THEN DoReturn(M, c)
     ELSE IF L.kind = "loop"
     THEN [c EXCEPT !.st = SubSeq(c.st, 1, L.height) \o vals, !.lb = SubSeq(c.lb, 1, idx), !.pc = L.cont]
     ELSE [c EXCEPT !.st = SubSeq(c.st, 1, L.height) \o vals, !.lb = SubSeq(c.lb, 1, idx - 1), !.pc = L.cont]

MAXDEPTH == 64

Invoke(M, c, g, retpc) ==      \* g: 1-based function index; arguments are on the stack
  LET ft == FuncType(M, g)
      np == Len(ft.params)
      args == TopN(c.st, np)
      rest == DropN(c.st, np)
  IN IF M.funcs[g].host
     THEN LET r == IF c.hostq = <<>> THEN ZeroOf(IF ft.results = <<>> THEN 2 ELSE ft.results[1]) ELSE c.hostq[1]
          IN [c EXCEPT !.pc = retpc,
                       !.st = rest \o (IF ft.results = <<>> THEN <<>> ELSE <<r>>),
                       !.hostq = IF c.hostq = <<>> \/ ft.results = <<>> THEN c.hostq ELSE Tail(c.hostq),
                       !.hostlog = Append(c.hostlog, [name |-> M.funcs[g].name, args |-> args])]
     ELSE IF Len(c.fr) >= MAXDEPTH THEN TrapC(c, "call stack exhausted")
     ELSE [c EXCEPT !.fr = Append(c.fr, [f |-> c.f, pc |-> retpc, st |-> rest, lb |-> c.lb, lo |-> c.lo]),
                    !.f = g, !.pc = 1, !.st = <<>>, !.lb = <<FuncLabel(M, g)>>,
                    !.w0 = c.w0 + InvokeAfter(0, Len(M.funcs[g].locals)),
                    !.w1 = c.w1 + InvokeAfter(1, Len(M.funcs[g].locals)),
                    !.lo = args \o [i \in 1..Len(M.funcs[g].locals) |-> ZeroOf(M.funcs[g].locals[i])]]

U32Small(v) == v[2] < 32                     \* below 2^21: can be an address inside the largest memory
U32Int(v) == v[2] * 65536 + v[1]

Cvt(name, x) ==
  CASE name = "wrap" -> Wrap(x)
    [] name = "extend_s" -> ExtendS(x)
    [] name = "extend_u" -> ExtendU(x)
    [] name = "i32.extend8_s" -> SignExtendFrom(x, 8)
    [] name = "i32.extend16_s" -> SignExtendFrom(x, 16)
    [] name = "i64.extend8_s" -> SignExtendFrom(x, 8)
    [] name = "i64.extend16_s" -> SignExtendFrom(x, 16)
    [] name = "i64.extend32_s" -> SignExtendFrom(x, 32)

Step(M, ctl, c) ==
  LET body == M.funcs[c.f].body
      ins == body[c.pc]
      op == ins.op
      n == Len(c.st)
      arityOf(l) == c.lb[Len(c.lb) - l].arity
      callee == IF op = "call" THEN FuncType(M, ins.f + 1)
                ELSE IF op = "call_indirect" THEN M.types[ins.ty + 1] ELSE [params |-> <<>>, results |-> <<>>]
      taken == op = "br_if" /\ ~IsZero(Last(c.st))
      cost(v) == InstrCost(v, ins, arityOf, Arity(M, c.f), Len(callee.params), Len(callee.results))
                 + (IF taken THEN BranchCost(v, arityOf(ins.l)) ELSE 0)
      nx == [c EXCEPT !.pc = c.pc + 1, !.steps = c.steps + 1, !.w0 = c.w0 + cost(0), !.w1 = c.w1 + cost(1)]
  IN
  CASE op = "nop" -> nx
    [] op = "unreachable" -> TrapC(nx, "unreachable")
    [] op = "const" -> [nx EXCEPT !.st = Append(c.st, ins.v)]
    [] op = "local.get" -> [nx EXCEPT !.st = Append(c.st, c.lo[ins.i + 1])]
    [] op = "local.set" -> [nx EXCEPT !.st = Front(c.st), !.lo[ins.i + 1] = Last(c.st)]
    [] op = "local.tee" -> [nx EXCEPT !.lo[ins.i + 1] = Last(c.st)]
    [] op = "global.get" -> [nx EXCEPT !.st = Append(c.st, c.gl[ins.i + 1])]
    [] op = "global.set" -> [nx EXCEPT !.st = Front(c.st), !.gl[ins.i + 1] = Last(c.st)]
    [] op = "binop" ->
         LET r == Binop(ins.name, c.st[n - 1], c.st[n]) IN
         IF r.trap THEN TrapC(nx, "integer " \o ins.name) ELSE [nx EXCEPT !.st = Append(DropN(c.st, 2), r.v)]
    [] op = "relop" -> [nx EXCEPT !.st = Append(DropN(c.st, 2), Relop(ins.name, c.st[n - 1], c.st[n]))]
    [] op = "unop" -> [nx EXCEPT !.st = Append(Front(c.st), Unop(ins.name, Last(c.st)))]
    [] op = "eqz" -> [nx EXCEPT !.st = Append(Front(c.st), Eqz(Last(c.st)))]
    [] op = "cvt" -> [nx EXCEPT !.st = Append(Front(c.st), Cvt(ins.name, Last(c.st)))]
    [] op = "drop" -> [nx EXCEPT !.st = Front(c.st)]
    [] op = "select" ->
         [nx EXCEPT !.st = Append(DropN(c.st, 3), IF IsZero(c.st[n]) THEN c.st[n - 1] ELSE c.st[n - 2])]
    [] op = "block" ->
         [nx EXCEPT !.lb = Append(c.lb, [kind |-> "block", cont |-> ctl[c.f][c.pc].end + 1,
                                         arity |-> IF ins.bt = 0 THEN 0 ELSE 1, height |-> n])]
    [] op = "loop" ->
         [nx EXCEPT !.lb = Append(c.lb, [kind |-> "loop", cont |-> c.pc + 1, arity |-> 0, height |-> n])]
    [] op = "if" ->
         LET e == ctl[c.f][c.pc]
             lab == [kind |-> "block", cont |-> e.end + 1, arity |-> IF ins.bt = 0 THEN 0 ELSE 1, height |-> n - 1]
         IN IF ~IsZero(Last(c.st))
            THEN [nx EXCEPT !.st = Front(c.st), !.lb = Append(c.lb, lab)]
            ELSE IF e.else # 0
            THEN [nx EXCEPT !.st = Front(c.st), !.lb = Append(c.lb, lab), !.pc = e.else + 1]
            ELSE [nx EXCEPT !.st = Front(c.st), !.pc = e.end + 1]
    [] op = "else" ->    \* reached at the end of the then-branch: leave the block
         [nx EXCEPT !.pc = Last(c.lb).cont, !.lb = Front(c.lb)]
    [] op = "end" ->
         IF Last(c.lb).kind = "func" THEN DoReturn(M, nx) ELSE [nx EXCEPT !.lb = Front(c.lb)]
    [] op = "br" -> Branch(M, nx, ins.l)
    [] op = "br_if" ->
         IF IsZero(Last(c.st)) THEN [nx EXCEPT !.st = Front(c.st)]
         ELSE Branch(M, [nx EXCEPT !.st = Front(c.st)], ins.l)
    [] op = "br_table" ->
         LET i == Last(c.st)
             l == IF i[2] = 0 /\ i[1] < Len(ins.ls) THEN ins.ls[i[1] + 1] ELSE ins.d
         IN Branch(M, [nx EXCEPT !.st = Front(c.st)], l)
    [] op = "return" -> DoReturn(M, nx)
    [] op = "call" -> Invoke(M, nx, ins.f + 1, c.pc + 1)
    [] op = "call_indirect" ->
         LET i == Last(c.st)
             c1 == [nx EXCEPT !.st = Front(c.st)]
         IN IF i[2] # 0 \/ i[1] >= Len(M.table) THEN TrapC(c1, "undefined element")
            ELSE LET g == M.table[i[1] + 1] IN
                 IF g < 0 THEN TrapC(c1, "uninitialized element")
                 ELSE IF FuncType(M, g + 1) # M.types[ins.ty + 1] THEN TrapC(c1, "indirect call type mismatch")
                 ELSE Invoke(M, c1, g + 1, c.pc + 1)
    [] op = "load" ->
         LET base == Last(c.st) IN
         IF ~U32Small(base) \/ ~U32Small(ins.off) \/ U32Int(base) + U32Int(ins.off) + ins.n > c.pg * PAGE
         THEN TrapC(nx, "out of bounds memory access")
         ELSE LET ea == U32Int(base) + U32Int(ins.off)
                  bytes == [k \in 1..ins.n |-> MemGet(c.mem, ea + k - 1)]
              IN [nx EXCEPT !.st = Append(Front(c.st), BytesValue(bytes, ins.t, ins.sx))]
    [] op = "store" ->
         LET base == c.st[n - 1]
             v == c.st[n]
         IN IF ~U32Small(base) \/ ~U32Small(ins.off) \/ U32Int(base) + U32Int(ins.off) + ins.n > c.pg * PAGE
            THEN TrapC(nx, "out of bounds memory access")
            ELSE [nx EXCEPT !.st = DropN(c.st, 2),
                            !.mem = MemPut(c.mem, U32Int(base) + U32Int(ins.off), ValueBytes(v, ins.n))]
    [] op = "memory.size" -> [nx EXCEPT !.st = Append(c.st, FromNat(c.pg, 2))]
    [] op = "memory.grow" ->
         LET d == Last(c.st)
             ng == [nx EXCEPT !.grows = Append(c.grows, d)]     \* the request is announced whether or not it succeeds
         IN IF d[2] # 0 \/ c.pg + d[1] > M.maxPages
            THEN [ng EXCEPT !.st = Append(Front(c.st), AllOnes(2))]
            ELSE [ng EXCEPT !.st = Append(Front(c.st), FromNat(c.pg, 2)), !.pg = c.pg + d[1]]

RECURSIVE RunFuel(_, _, _, _)
RunFuel(M, ctl, c, fuel) ==
  IF c.status # "run" THEN c
  ELSE IF fuel = 0 THEN [c EXCEPT !.status = "fuel"]
  ELSE RunFuel(M, ctl, Step(M, ctl, c), fuel - 1)

Run(M, f, args, hostq, fuel) == RunFuel(M, CtlOf(M), Start(M, f, args, hostq), fuel)

(* the observable outcome of a finished run *)
MemSeq(mem) ==
  LET nz == {a \in DOMAIN mem : mem[a] # 0}
      RECURSIVE ToSeq(_)
      ToSeq(S) == IF S = {} THEN <<>>
                  ELSE LET a == CHOOSE x \in S : \A y \in S : x <= y IN << <<a, mem[a]>> >> \o ToSeq(S \ {a})
  IN ToSeq(nz)

Outcome(c) ==
  IF c.status = "done"
  THEN [status |-> "done", res |-> c.res, gl |-> c.gl, pg |-> c.pg, mem |-> MemSeq(c.mem), steps |-> c.steps,
        hostlog |-> c.hostlog, w0 |-> c.w0, w1 |-> c.w1, grows |-> c.grows]
  ELSE [status |-> c.status, trapk |-> c.trapk, steps |-> c.steps, hostlog |-> c.hostlog, w0 |-> c.w0, w1 |-> c.w1]
=============================================================================
