----------------------------- MODULE MC_WasmGen -----------------------------
(* Model-checking instances of WasmGen: the module template and the focused alphabets. *)
EXTENDS WasmGen, Interrupt

CONSTANT Cfg

I32(n) == FromInt(n, 2)
I64(n) == FromInt(n, 4)
C32(n) == [op |-> "const", t |-> 2, v |-> I32(n)]
C64(n) == [op |-> "const", t |-> 4, v |-> I64(n)]
LGet(i) == [op |-> "local.get", i |-> i]
LSet(i) == [op |-> "local.set", i |-> i]
LTee(i) == [op |-> "local.tee", i |-> i]
GGet(i) == [op |-> "global.get", i |-> i]
GSet(i) == [op |-> "global.set", i |-> i]
Bin(t, n) == [op |-> "binop", t |-> t, name |-> n]
Rel(t, n) == [op |-> "relop", t |-> t, name |-> n]
Un(t, n) == [op |-> "unop", t |-> t, name |-> n]
EqzI(t) == [op |-> "eqz", t |-> t]
Cv(n) == [op |-> "cvt", name |-> n]
Blk(bt) == [op |-> "block", bt |-> bt]
Lop(bt) == [op |-> "loop", bt |-> bt]
Iff(bt) == [op |-> "if", bt |-> bt]
Els == [op |-> "else"]
End == [op |-> "end"]
Br(l) == [op |-> "br", l |-> l]
BrIf(l) == [op |-> "br_if", l |-> l]
BrTab(ls, d) == [op |-> "br_table", ls |-> ls, d |-> d]
Ret == [op |-> "return"]
Call(f) == [op |-> "call", f |-> f]
CallInd(ty) == [op |-> "call_indirect", ty |-> ty]
Load(t, n, sx, off) == [op |-> "load", t |-> t, n |-> n, sx |-> sx, off |-> I32(off)]
Store(t, n, off) == [op |-> "store", t |-> t, n |-> n, off |-> I32(off)]
Drop == [op |-> "drop"]
Sel == [op |-> "select"]
Nop == [op |-> "nop"]
Unr == [op |-> "unreachable"]
MSize == [op |-> "memory.size"]
MGrow == [op |-> "memory.grow"]

(* Template.  Function indices (0-based, as in the binary):
     0  f : (i32, i32) -> i32   exported wrapper: calls g, stores its result and the globals into
                                the memory window at 256.., returns the result
     1  g : (i32, i32) -> i32   generated; declared locals (i32, i64)
     2  h : (i32) -> i32        helper: adds global 0 to its argument and increments global 0
     3  k : () -> ()            helper: global1 := global1 + 1
   Types: 0 (i32,i32)->i32, 1 (i32)->i32, 2 ()->(), 3 (i32)->i32 (duplicate of 1).  Table: [2, hole, 3, 1].  Globals: i32 7, i64 -5 (negative: exercises the signed encoding in stored artifacts), immutable i32 3.  h declares two i32 locals (one group of multiplicity 2).
   Memory: 1 page, at most 2.  Data at 0: 01 02 03 04 05 06 07 80 FF. *)
TypesT == << [params |-> <<2, 2>>, results |-> <<2>>], [params |-> <<2>>, results |-> <<2>>], [params |-> <<>>, results |-> <<>>],
            [params |-> <<2>>, results |-> <<2>>] >>   \* type 3 is structurally equal to type 1 (indirect calls compare types structurally)

WrapperBody ==
  << C32(256), LGet(0), LGet(1), Call(1), Store(2, 4, 0),
     C32(264), GGet(0), Store(2, 4, 0),
     C32(272), GGet(1), Store(4, 8, 0),
     C32(256), Load(2, 4, FALSE, 0), End >>
HBody == << LGet(0), GGet(0), Bin(2, "add"), GGet(0), C32(1), Bin(2, "add"), GSet(0), End >>
KBody == << GGet(1), C64(1), Bin(4, "add"), GSet(1), End >>

TemplateT ==
  [types |-> TypesT,
   funcs |-> << [ty |-> 0, locals |-> <<>>, body |-> WrapperBody, host |-> FALSE, name |-> "f"],
                [ty |-> 0, locals |-> <<2, 4>>, body |-> <<>>, host |-> FALSE, name |-> "g"],
                [ty |-> 1, locals |-> <<2, 2>>, body |-> HBody, host |-> FALSE, name |-> "h"],
                [ty |-> 2, locals |-> <<>>, body |-> KBody, host |-> FALSE, name |-> "k"] >>,
   globals |-> << [t |-> 2, mut |-> TRUE, init |-> I32(7)], [t |-> 4, mut |-> TRUE, init |-> I64(-5)],
                  [t |-> 2, mut |-> FALSE, init |-> I32(3)] >>,
   pages |-> 1, maxPages |-> 2,
   table |-> <<2, -1, 3, 1>>,
   data |-> << [off |-> 0, bytes |-> <<1, 2, 3, 4, 5, 6, 7, 128, 255>>] >>]

(* Template with a host import (C13): index 0 = env.hostf : (i32) -> i32, the others shifted by one *)
WrapperBodyH ==
  << C32(256), LGet(0), LGet(1), Call(2), Store(2, 4, 0),
     C32(264), GGet(0), Store(2, 4, 0),
     C32(272), GGet(1), Store(4, 8, 0),
     C32(256), Load(2, 4, FALSE, 0), End >>
TemplateH ==
  [TemplateT EXCEPT
     !.funcs = << [ty |-> 1, locals |-> <<>>, body |-> <<>>, host |-> TRUE, name |-> "hostf"],
                  [ty |-> 0, locals |-> <<>>, body |-> WrapperBodyH, host |-> FALSE, name |-> "f"],
                  [ty |-> 0, locals |-> <<2, 4>>, body |-> <<>>, host |-> FALSE, name |-> "g"],
                  [ty |-> 1, locals |-> <<2, 2>>, body |-> HBody, host |-> FALSE, name |-> "h"],
                  [ty |-> 2, locals |-> <<>>, body |-> KBody, host |-> FALSE, name |-> "k"] >>,
     !.table = <<3, -1, 4, 2>>]
HostQT == << I32(5), I32(0), I32(7), I32(1), I32(-1), I32(2) >>
AlphaHost == { LGet(0), LGet(1), LSet(0), C32(1), C32(3), Call(0), Call(3), Bin(2, "add"), Drop,
               Blk(2), Lop(0), Iff(0), Els, End, BrIf(0), Br(1), GGet(0), GSet(0), Store(2, 4, 300), Load(2, 4, FALSE, 300), CallInd(1) }

(* design property of Interrupt.tla evaluated on every generated program *)
InterruptTransparent ==
  phase = "done" => \A a \in ArgSets : Transparent(Module, EntryIdx, a, HostQ, Fuel, 3)

(* control flow and locals: the area where the engine's register allocation is intricate *)
AlphaCtl == { LGet(0), LGet(1), LSet(0), LTee(0), C32(5), Bin(2, "add"), Drop,
              Blk(0), Blk(2), Iff(0), Els, End, Br(0), BrIf(0), BrIf(1), Ret }
AlphaCtl2 == { LGet(0), LGet(1), LSet(0), LSet(1), LTee(1), C32(1), Bin(2, "sub"), Drop, Sel,
               Blk(2), Lop(0), Iff(2), Els, End, Br(0), Br(1), BrIf(0), BrTab(<<0, 1>>, 0) }
AlphaLoop == { LGet(0), LGet(1), LSet(1), LTee(0), C32(1), C32(-1), Bin(2, "add"), EqzI(2), Drop,
               Blk(0), Lop(0), Lop(2), End, Br(0), BrIf(0), BrIf(1), GGet(0), GSet(0) }
(* conditional branches to void labels whose being taken or not is observable afterwards *)
AlphaBrIf == { LGet(0), LGet(1), C32(5), LSet(0), Blk(0), Lop(0), BrIf(0), BrIf(1), End, Ret }
AlphaBrIf2 == { LGet(0), LGet(1), C32(5), LSet(0), Blk(0), BrIf(0), End }
(* memory *)
AlphaMem == { LGet(0), LGet(1), C32(0), C32(4), C32(65532), C32(65536), C32(-1), C64(-2),
              Load(2, 4, FALSE, 0), Load(2, 1, TRUE, 7), Load(2, 2, FALSE, 65534), Load(4, 8, FALSE, 1), Load(4, 4, TRUE, 5),
              Store(2, 4, 0), Store(2, 1, 65535), Store(4, 8, 65528), Store(2, 2, 4),
              MSize, MGrow, Drop, Cv("wrap"), End }
(* calls *)
AlphaCall == { LGet(0), LGet(1), C32(0), C32(1), C32(2), C32(3), C32(4), Call(2), Call(3), CallInd(1), CallInd(2), CallInd(0), CallInd(3),
               Drop, Bin(2, "add"), GGet(0), LSet(0), End, Blk(2), BrIf(0) }
(* 64-bit locals and conversions *)
AlphaI64 == { LGet(0), LGet(3), LSet(3), LTee(3), C64(-1), C64(5), Cv("extend_s"), Cv("extend_u"), Cv("wrap"),
              Bin(4, "add"), Bin(4, "mul"), Bin(4, "shr_s"), Rel(4, "lt_s"), EqzI(4), Un(4, "clz"), GGet(1), GSet(1), Drop, End,
              Cv("i64.extend8_s"), Cv("i32.extend16_s") }

(* validation: mixed types, out-of-range indices, immutable global, sign extension, polymorphic stack *)
AlphaVal == { C32(1), C64(1), LGet(0), LGet(3), LGet(4), LSet(0), LSet(3), LTee(3), Bin(2, "add"), Bin(4, "add"), Rel(4, "eq"), EqzI(4),
              Drop, Sel, Blk(0), Blk(2), Blk(4), Iff(2), Iff(0), Els, End, Br(0), Br(1), Br(2), BrIf(0), BrIf(1),
              BrTab(<<0, 1>>, 0), Ret, Unr, Call(2), Call(3), Call(4), CallInd(1), CallInd(4),
              Load(4, 8, FALSE, 0), Store(2, 4, 0), GGet(2), GSet(2), GSet(1), GGet(3), Cv("wrap"), Cv("extend_u"),
              Cv("i32.extend8_s"), MGrow, Nop }

AlphabetOf ==
  CASE Cfg = "ctl" -> AlphaCtl [] Cfg = "ctl2" -> AlphaCtl2 [] Cfg = "loop" -> AlphaLoop
    [] Cfg = "brif" -> AlphaBrIf
    [] Cfg = "brif2" -> AlphaBrIf2
    [] Cfg = "mem" -> AlphaMem [] Cfg = "call" -> AlphaCall [] Cfg = "i64" -> AlphaI64
    [] Cfg \in {"witness", "alu", "struct", "valstruct", "stress", "valstress", "valstress2"} -> {}
    [] Cfg = "val" -> AlphaVal
    [] Cfg = "host" -> AlphaHost
    [] Cfg = "all" -> AlphaCtl \cup AlphaCtl2 \cup AlphaLoop \cup AlphaMem \cup AlphaCall \cup AlphaI64 \cup AlphaBrIf

NoHostQ == <<>>

(* ---- fixed bodies: pinned witnesses of the recorded findings, and ALU vectors ---- *)
MIN32 == MinVal(2)
CV(t, v) == [op |-> "const", t |-> t, v |-> v]
Witnesses == {
  \* D1: preserving copy inside an untaken if
  << LGet(0), LGet(1), Iff(0), C32(99), LSet(0), End, End >>,
  \* D1 variant: the local.set is skipped by a taken br_if
  << LGet(0), Blk(0), LGet(1), BrIf(0), C32(9), LSet(0), End, End >>,
  \* D1 variant: if/else where only the else branch runs
  << LGet(0), LGet(1), Iff(0), C32(1), LSet(0), Els, C32(2), LSet(0), End, End >>,
  \* D2: block-result register recycled after a not-taken br_if
  << Blk(2), C32(1), C32(0), BrIf(0), Drop, LGet(0), C32(5), Bin(2, "add"), C32(7), C32(0), BrIf(0), Drop, End, End >>,
  \* D2, static: the recycled result register is handed to the metering flag of a br_if in the else arm (the then arm is never executed)
  << LGet(0), Iff(2), LGet(1), C32(0), BrIf(0), Drop, C32(7), Els, LGet(0), LGet(1), BrIf(0), Drop, C32(8), End, End >>,
  \* D3: rem_s(MIN, -1)
  << CV(2, MIN32), C32(-1), Bin(2, "rem_s"), End >>,
  << C32(300), CV(4, MinVal(4)), C64(-1), Bin(4, "rem_s"), Store(4, 8, 0), C32(300), Load(2, 4, FALSE, 0), End >>,
  \* D4: br_if to the function label clobbers local 0
  << C32(42), C32(0), BrIf(0), Drop, LGet(0), End >>,
  \* D5: the preserving copy of a local.set inside a loop runs again on the next iteration and overwrites the preserved value
  << LGet(0), Lop(0), C32(5), LSet(0), LGet(1), C32(-1), Bin(2, "add"), LTee(1), BrIf(0), End, End >>,
  \* D6: the condition of a br_if is the value a not-taken br_if to the same block left in the block's result register
  << Blk(2), LGet(0), LGet(1), C32(0), BrIf(0), BrIf(0), Drop, C32(3), End, End >> }

B32 == { I32(0), I32(1), I32(2), I32(-1), I32(-2), MIN32, MaxVal(2), I32(31), I32(32), I32(33), I32(65535), I32(65536), I32(-65536), <<21845, 21845>> }
B64 == { I64(0), I64(1), I64(-1), I64(-2), MinVal(4), MaxVal(4), I64(63), I64(64), I64(65), <<0, 0, 1, 0>>, <<65535, 65535, 0, 0>>,
         <<0, 32768, 65535, 65535>>, <<21845, 21845, 21845, 21845>>, I64(7) }
BV(t) == IF t = 2 THEN B32 ELSE B64
Res32(bodyOps) == bodyOps \o <<End>>
Res64(bodyOps) == << C32(300) >> \o bodyOps \o << Store(4, 8, 0), C32(300), Load(2, 4, FALSE, 0), End >>
ALUBodies(dummy) ==   \* parameterised so that TLC does not evaluate it eagerly at start-up
  { Res32(<< CV(2, a), CV(2, b), Bin(2, n) >>) : a \in B32, b \in B32, n \in BinopNames }
  \cup { Res64(<< CV(4, a), CV(4, b), Bin(4, n) >>) : a \in B64, b \in B64, n \in BinopNames }
  \cup { Res32(<< CV(t, a), CV(t, b), Rel(t, n) >>) : t \in {2, 4}, a \in B32 \cup B64, b \in B32 \cup B64, n \in RelopNames }
  \cup { Res32(<< CV(2, a), Un(2, n) >>) : a \in B32, n \in UnopNames }
  \cup { Res64(<< CV(4, a), Un(4, n) >>) : a \in B64, n \in UnopNames }
  \cup { Res32(<< CV(t, a), EqzI(t) >>) : t \in {2, 4}, a \in B32 \cup B64 }
  \cup { Res32(<< CV(4, a), Cv("wrap") >>) : a \in B64 }
  \cup { Res64(<< CV(2, a), Cv(n) >>) : a \in B32, n \in {"extend_s", "extend_u"} }
  \cup { Res32(<< CV(2, a), Cv(n) >>) : a \in B32, n \in {"i32.extend8_s", "i32.extend16_s"} }
  \cup { Res64(<< CV(4, a), Cv(n) >>) : a \in B64, n \in {"i64.extend8_s", "i64.extend16_s", "i64.extend32_s"} }
(* structured programs: control skeletons whose holes are filled from small snippet sets; every
   combination the validator admits.  Reaches shapes (if/else with a transfer in one arm, block with
   a conditional exit, counting loop, br_table over nested blocks, value-carrying if) that need more
   instructions than the flat enumerations can afford. *)
Snip == { <<>>, <<Nop>>, << C32(5), LSet(0) >>, << LGet(1), LSet(0) >>, << Br(0) >>, << Br(1) >>, << C32(9), Ret >>,
          << LGet(0), BrIf(0) >>, << GGet(0), C32(1), Bin(2, "add"), GSet(0) >>, << Call(3) >>,
          << C32(300), LGet(0), Store(2, 4, 0) >>, << LGet(0), C32(1), Bin(2, "add"), LSet(0) >> }
VSnip == { << C32(5) >>, << LGet(0) >>, << LGet(1), C32(2), Bin(2, "mul") >>, << C32(1), Ret >>, << C32(7), Br(0) >>,
           << GGet(0) >>, << C32(300), Load(2, 4, FALSE, 0) >>, << LGet(0), Call(2) >> }
Tails == { << LGet(0), End >>, << GGet(0), End >>, << C32(300), Load(2, 4, FALSE, 0), End >>, << LGet(1), End >> }
Conds == { << LGet(0) >>, << LGet(1) >>, << LGet(0), EqzI(2) >> }
StructBodies(dummy) ==
  { c \o << Iff(0) >> \o a \o << Els >> \o b \o << End >> \o t : c \in Conds, a \in Snip, b \in Snip, t \in Tails }
  \cup { c \o << Iff(0) >> \o a \o << End >> \o t : c \in Conds, a \in Snip, t \in Tails }
  \cup { << Blk(0) >> \o a \o c \o << BrIf(0) >> \o b \o << End >> \o t : c \in Conds, a \in Snip, b \in Snip, t \in Tails }
  \cup { << Lop(0) >> \o a \o << LGet(1), C32(-1), Bin(2, "add"), LTee(1), BrIf(0), End >> \o t : a \in Snip, t \in Tails }
  \cup { p \o << Lop(0) >> \o a \o << LGet(1), C32(-1), Bin(2, "add"), LTee(1), BrIf(0), End >> \o t :     \* a value pushed before a counting loop and used after it (D5)
            p \in { << LGet(0) >>, << LGet(1) >>, << C32(7) >> }, a \in Snip, t \in { << End >>, << Drop, LGet(0), End >>, << LGet(0), Bin(2, "add"), End >> } }
  \cup { << Blk(0), Blk(0) >> \o c \o << BrTab(<<0, 1>>, 1) >> \o a \o << End >> \o b \o << End >> \o t : c \in Conds, a \in Snip, b \in Snip, t \in Tails }
  \cup { c \o << Iff(2) >> \o a \o << Els >> \o b \o << End, End >> : c \in Conds, a \in VSnip, b \in VSnip }
  \cup { c \o << Iff(2) >> \o a \o << Els >> \o b \o << End, LGet(0), Bin(2, "add"), End >> : c \in Conds, a \in VSnip, b \in VSnip }
  \cup { << Blk(2) >> \o a \o c \o << Iff(0) >> \o b \o << End >> \o v \o << End, End >> : c \in Conds, a \in Snip, b \in Snip, v \in VSnip }

(* validation skeletons (C09): two nested frames of every kind, a branch instruction over label lists, values of both
   types on the stack, and closing code; every combination is classified by the recogniser ValidBody *)
Frames == { Blk(0), Blk(2), Blk(4), Lop(0), Lop(2), Lop(4) }
Pre == { << C32(0) >>, << C32(1), C32(0) >>, << C64(1), C32(0) >>, <<>> }
Brs == { BrTab(<<0>>, 1), BrTab(<<1>>, 0), BrTab(<<0, 1>>, 2), BrTab(<<2>>, 2), BrTab(<<0, 1, 2>>, 0), BrTab(<<3>>, 0), Br(0), Br(1), Br(2), BrIf(0), BrIf(1), Sel, Ret }
Post == { <<>>, << Drop >>, << C32(5) >>, << C64(5) >> }
ValBodies(dummy) ==
  { << f1, f2 >> \o pr \o << br, End >> \o p1 \o << End >> \o p2 \o << End >> : f1 \in Frames, f2 \in Frames, pr \in Pre, br \in Brs, p1 \in Post, p2 \in {<<>>, << C32(5) >>} }
  \cup { c \o << Iff(bt) >> \o a \o << Els >> \o b \o << End >> \o p2 \o << End >> :
            c \in {<< C32(1) >>, << C64(1) >>, <<>>}, bt \in {0, 2, 4}, a \in Post, b \in Post, p2 \in {<<>>, << C32(5) >>, << Drop, C32(1) >>} }
  \cup { c \o << Iff(bt) >> \o a \o << End >> \o p2 \o << End >> : c \in {<< C32(1) >>}, bt \in {0, 2, 4}, a \in Post, p2 \in {<<>>, << C32(5) >>} }

(* register-allocation stress (D1, D5 and their relatives): values are pushed before a void control skeleton whose holes write
   the locals those values refer to, and are consumed after it.  Conditions are themselves pending references. *)
Pend == { << LGet(0) >>, << LGet(1) >>, << LGet(0), LGet(1) >>, << LGet(0), LGet(0) >>, << C32(7), LGet(0) >> }
Wr == { <<>>, << C32(5), LSet(0) >>, << LGet(1), LSet(0) >>, << LGet(0), C32(1), Bin(2, "add"), LSet(0) >>, << C32(5), LTee(0), Drop >>, << LGet(0), LSet(1) >> }
CountDown == << LGet(1), C32(-1), Bin(2, "add"), LTee(1), BrIf(0) >>
Skel(dummy) ==
  { c \o << Iff(0) >> \o a \o << Els >> \o b \o << End >> : c \in Conds, a \in Wr, b \in Wr }
  \cup { << Blk(0) >> \o a \o c \o << BrIf(0) >> \o b \o << End >> : c \in Conds, a \in Wr, b \in Wr }
  \cup { << Lop(0) >> \o a \o CountDown \o << End >> : a \in Wr }
  \cup { << Lop(0) >> \o c \o << Iff(0) >> \o a \o << End >> \o CountDown \o << End >> : c \in Conds, a \in Wr }
  \cup { << Blk(0), Blk(0) >> \o c \o << BrTab(<<0, 1>>, 1) >> \o a \o << End >> \o b \o << End >> : c \in Conds, a \in Wr, b \in Wr }
  \cup { << Blk(0), Lop(0) >> \o a \o c \o << BrIf(1) >> \o CountDown \o << End, End >> : c \in Conds, a \in Wr }
Use(n) == IF n = 1 THEN { << End >>, << LGet(0), Bin(2, "add"), End >> } ELSE { << Bin(2, "add"), End >>, << Drop, End >>, << LGet(0), Bin(2, "add"), Bin(2, "add"), End >> }
StressBodies(dummy) == { p \o k \o u : p \in Pend, k \in Skel(0), u \in Use(1) \cup Use(2) }

(* value-carrying blocks (D2, D6 and their relatives): inside a block with a result, every sequence of four steps after a first
   value - push a value, leave conditionally with the top value, drop, add - that the validator admits *)
VVals == { << LGet(0) >>, << LGet(1) >>, << C32(5) >> }
VSteps == VVals \cup { c \o << BrIf(0) >> : c \in { << LGet(0) >>, << LGet(1) >>, << C32(0) >>, << C32(1) >> } } \cup { <<>> \o << BrIf(0) >>, << Drop >>, << Bin(2, "add") >> }
ValStressBodies(dummy) ==
  { pre \o << Blk(2) >> \o v \o s1 \o s2 \o s3 \o s4 \o << End >> \o post :
      pre \in { <<>> }, post \in { << End >> }, v \in VVals, s1 \in VSteps, s2 \in VSteps, s3 \in VSteps, s4 \in VSteps }
  \cup { << LGet(0), Blk(2) >> \o v \o s1 \o s2 \o s3 \o << End, Bin(2, "add"), End >> : v \in VVals, s1 \in VSteps, s2 \in VSteps, s3 \in VSteps }

(* br_table carrying a value out of nested value blocks, and value-carrying if arms that write the locals their values refer to *)
TabLabels == { << <<0, 1>>, 1 >>, << <<1, 0>>, 0 >>, << <<0>>, 1 >>, << <<1>>, 0 >>, << <<0, 0>>, 1 >> }
TabConds == { << LGet(0) >>, << LGet(1) >>, << C32(0) >>, << C32(1) >>, << C32(2) >> }
AfterInner == { <<>>, << C32(1), Bin(2, "add") >>, << LGet(1), BrIf(0) >>, << Drop, LGet(0) >> }
PreWrite == { <<>>, << C32(9), LSet(0) >>, << LGet(1), LSet(0) >> }
ArmVals == { << LGet(0) >>, << LGet(1) >>, << C32(5) >>, << LGet(0), C32(9), LSet(0) >>, << LGet(0), LGet(1), LSet(0) >>, << LGet(0), C32(1), BrIf(0) >>, << LGet(1), LGet(0), BrIf(0) >>,
             << LGet(0), LGet(1), BrIf(0), Drop, C32(7) >> }
ValStress2Bodies(dummy) ==
  { << Blk(2), Blk(2) >> \o v \o w \o c \o << BrTab(t[1], t[2]), End >> \o a \o << End, End >> : v \in VVals, w \in PreWrite, c \in TabConds, t \in TabLabels, a \in AfterInner }
  \cup { << LGet(0), Blk(2), Blk(2) >> \o v \o w \o c \o << BrTab(t[1], t[2]), End >> \o a \o << End, Bin(2, "add"), End >> : v \in VVals, w \in PreWrite, c \in TabConds, t \in TabLabels, a \in AfterInner }
  \cup { c \o << Iff(2) >> \o a \o << Els >> \o b \o << End, End >> : c \in Conds, a \in ArmVals, b \in ArmVals }
  \cup { << LGet(0) >> \o c \o << Iff(2) >> \o a \o << Els >> \o b \o << End, Bin(2, "add"), End >> : c \in Conds, a \in ArmVals, b \in ArmVals }

WellTyped(b) == \A i \in 1..Len(b) : (b[i].op = "const" => Len(b[i].v) = b[i].t)
FixedBodies == IF Cfg = "witness" THEN Witnesses
               ELSE IF Cfg = "struct" THEN {b \in StructBodies(0) : ValidBody(GenCtx, b)}
               ELSE IF Cfg = "valstruct" THEN ValBodies(0)
               ELSE IF Cfg = "stress" THEN {b \in StressBodies(0) : ValidBody(GenCtx, b)}
               ELSE IF Cfg = "valstress2" THEN {b \in ValStress2Bodies(0) : ValidBody(GenCtx, b)}
               ELSE IF Cfg = "valstress" THEN {b \in ValStressBodies(0) : ValidBody(GenCtx, b)}
               ELSE {b \in ALUBodies(0) : WellTyped(b)}
(* fixed bodies are classified by the recogniser: valid ones are executed by the reference, invalid ones only carry the verdict *)
FInit == body \in FixedBodies /\ vs = VInit(2) /\ phase = (IF ValidBody(GenCtx, body) THEN "done" ELSE "bad")
FSpec == FInit /\ [][UNCHANGED gvars]_gvars
ArgsT == { <<I32(10), I32(0)>>, <<I32(10), I32(1)>>, <<I32(0), I32(7)>>, <<I32(-1), I32(3)>> }
=============================================================================
