---------------------------- MODULE ModuleLimits ----------------------------
(***************************************************************************)
(* Module-level restrictions of the chain on top of WebAssembly 1.0        *)
(* validity, as a predicate over a module skeleton, and the enumeration of *)
(* limit vectors: a valid baseline with one or two parameters moved to     *)
(* {limit-1, limit, limit+1} or switched to a forbidden construct.         *)
(* Also: mutation scripts for the totality part of C09 (no verdict, the    *)
(* engine must answer Ok/Err without panicking; if Ok the module runs).    *)
(***************************************************************************)
EXTENDS Naturals, Integers, Sequences, FiniteSets, TLC, Json

PAGE_BYTES == 65536
MAX_INIT_MEMORY == 32
MAX_INIT_TABLE == 1000
MAX_GLOBALS == 1024
MAX_LOCALS == 1024
MAX_STACK_HEIGHT == 1024
MAX_EXPORTS == 100
MAX_SWITCH == 4096
MAX_NAME == 100     \* names of exported functions (MAX_FUNC_NAME_SIZE); other names are limited to 512 bytes

Baseline ==
  [nMems |-> 1, memMin |-> 1, memMax |-> 2, nTabs |-> 1, tabMin |-> 4, tabMax |-> -1,
   nGlobals |-> 2, nParams |-> 2, nLocals |-> 2, pushes |-> 1, nExports |-> 1, dupExport |-> FALSE,
   brLabels |-> 2, nameLen |-> 4, hasStart |-> FALSE, floatUse |-> "none", elemOff |-> 0, elemLen |-> 2,
   dataOff |-> 0, dataLen |-> 4, importKind |-> "none", nResults |-> 1, sectionOrder |-> "ok", badMagic |-> FALSE,
   exportMissing |-> FALSE, nonAsciiName |-> FALSE]

Accept(s) ==
  /\ s.nMems <= 1
  /\ (s.nMems = 1 => /\ s.memMin <= MAX_INIT_MEMORY
                     /\ (s.memMax = -1 \/ (s.memMin <= s.memMax /\ s.memMax <= 65536)))
  /\ s.nTabs <= 1
  /\ (s.nTabs = 1 => s.tabMin <= MAX_INIT_TABLE /\ (s.tabMax = -1 \/ s.tabMin <= s.tabMax))
  /\ s.nGlobals <= MAX_GLOBALS
  /\ s.nParams + s.nLocals <= MAX_LOCALS
  /\ s.nParams + s.nLocals + s.pushes <= MAX_STACK_HEIGHT
  /\ s.nExports <= MAX_EXPORTS /\ ~s.dupExport /\ ~s.exportMissing
  /\ s.brLabels <= MAX_SWITCH
  /\ s.nameLen <= MAX_NAME /\ ~s.nonAsciiName
  /\ ~s.hasStart
  /\ s.floatUse = "none"
  /\ (s.elemLen > 0 => s.nTabs = 1 /\ s.elemOff + s.elemLen <= s.tabMin)
  /\ (s.dataLen > 0 => s.nMems = 1 /\ s.dataOff + s.dataLen <= s.memMin * PAGE_BYTES)
  /\ s.importKind \in {"none", "func"}
  /\ s.nResults <= 1
  /\ s.sectionOrder = "ok"
  /\ ~s.badMagic

Around(l) == {l - 1, l, l + 1}

Variants ==
  [nMems : {0, 1, 2}] \cup [memMin : Around(MAX_INIT_MEMORY) \cup {0}] \cup [memMax : {-1, 0, 1, 2, 512, 513, 65536, 65537}]
  \cup [nTabs : {0, 1, 2}] \cup [tabMin : Around(MAX_INIT_TABLE) \cup {2, 1}] \cup [tabMax : {-1, 3, 4, 5}]
  \cup [nGlobals : Around(MAX_GLOBALS) \cup {0}] \cup [nLocals : {MAX_LOCALS - 3, MAX_LOCALS - 2, MAX_LOCALS - 1, 0}]
  \cup [pushes : {MAX_STACK_HEIGHT - 5, MAX_STACK_HEIGHT - 4, MAX_STACK_HEIGHT - 3, 600}]
  \cup [nExports : Around(MAX_EXPORTS)] \cup [dupExport : {TRUE}] \cup [exportMissing : {TRUE}]
  \cup [brLabels : Around(MAX_SWITCH) \cup {0}] \cup [nameLen : Around(MAX_NAME) \cup {0}] \cup [nonAsciiName : {TRUE}]
  \cup [hasStart : {TRUE}] \cup [floatUse : {"type", "local", "global", "instr", "blocktype"}]
  \cup [elemOff : {2, 3}] \cup [elemLen : {0, 4, 5}] \cup [dataOff : {65532, 65533, 65536}] \cup [dataLen : {0, 65536, 65537}]
  \cup [importKind : {"func", "global", "memory", "table"}] \cup [nResults : {0, 1, 2}]
  \cup [sectionOrder : {"swapped", "duplicate", "unknown_id", "trailing"}] \cup [badMagic : {TRUE}]

Apply(s, v) == [k \in DOMAIN s |-> IF k \in DOMAIN v THEN v[k] ELSE s[k]]

VARIABLE sk
LInit == \/ sk = Baseline
         \/ \E v \in Variants : sk = Apply(Baseline, v)
         \/ \E v \in Variants, w \in Variants : DOMAIN v # DOMAIN w /\ sk = Apply(Apply(Baseline, v), w)
LNext == UNCHANGED sk
LSpec == LInit /\ [][LNext]_sk

LExport == PrintT(<<"REPLAY", ToJson([sk |-> sk, valid |-> Accept(sk)])>>)

(* sanity of the table: the baseline is accepted, and exceeding a pure upper bound by one rejects
   whatever else is varied *)
Sanity ==
  /\ Accept(Baseline)
  /\ \A v \in [nGlobals : {MAX_GLOBALS + 1}] \cup [nExports : {MAX_EXPORTS + 1}] \cup [brLabels : {MAX_SWITCH + 1}]
               \cup [nameLen : {MAX_NAME + 1}] \cup [hasStart : {TRUE}] \cup [nMems : {2}] \cup [nTabs : {2}] : ~Accept(Apply(sk, v))
=============================================================================
