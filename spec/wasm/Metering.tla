------------------------------ MODULE Metering ------------------------------
(***************************************************************************)
(* The two protocol cost schedules of the Wasm interpreter (consensus      *)
(* constants, see metering_transformation.rs cost_v0 / cost_v1) and the    *)
(* definition of the work of an execution:                                 *)
(*   work = sum over executed instructions of InstrCost                    *)
(*          + InvokeAfter(#declared locals) at every function entry        *)
(*          + Branch(label arity) for every br_if that is taken.           *)
(* Charging is segment-wise and in advance, so the energy the host is      *)
(* asked to pay is >= work at every moment and = work for a run that does  *)
(* not trap.  v is the schedule version (0 or 1).  arity(l) is the branch  *)
(* arity of label l (0 for loops), np/nr the callee's parameter/result     *)
(* counts.                                                                 *)
(***************************************************************************)
EXTENDS Naturals, Integers, Sequences

JUMP(v) == IF v = 0 THEN 8 ELSE 2
FRAME(v) == IF v = 0 THEN 10 ELSE 2
TEST == 2
BOUNDS == 2
BranchCost(v, arity) == IF v = 0 THEN 8 + arity ELSE 2
InvokeBefore(v, np, nr) == FRAME(v) + np + JUMP(v) + nr + JUMP(v)
TypeCheck(v, n) == IF v = 0 THEN n ELSE n \div 10
CallIndirectCost(v, np, nr) == BOUNDS + TypeCheck(v, np + nr) + InvokeBefore(v, np, nr)
InvokeAfter(v, nlocals) == IF v = 0 THEN 4 * nlocals ELSE nlocals \div 16
BrTableCost(v, arity) == IF v = 0 THEN BOUNDS + BranchCost(0, arity) ELSE BOUNDS + 3 + 2

StoreCost(v, t, n) ==
  IF v = 1 THEN BOUNDS
  ELSE CASE t = 2 /\ n = 4 -> BOUNDS + 2 + 4
         [] t = 4 /\ n = 8 -> BOUNDS + 2 + 6
         [] t = 2 /\ n = 1 -> BOUNDS + 2 + 1
         [] t = 2 /\ n = 2 -> BOUNDS + 2 + 4
         [] t = 4 /\ n = 1 -> BOUNDS + 2 + 1 + 2
         [] t = 4 /\ n = 2 -> BOUNDS + 2 + 2 + 3
         [] t = 4 /\ n = 4 -> BOUNDS + 2 + 2 + 4

(* static cost of one instruction; arityOf(l) gives the branch arity of label l, funcArity the
   arity of the enclosing function, np/nr the callee type for call / call_indirect *)
InstrCost(v, ins, arityOf(_), funcArity, np, nr) ==
  LET op == ins.op IN
  CASE op = "nop" -> 1
    [] op \in {"unreachable", "block", "loop", "end", "else"} -> 0
    [] op = "if" -> TEST + JUMP(v)
    [] op = "br" -> IF v = 0 THEN BranchCost(0, arityOf(ins.l)) ELSE 2
    [] op = "br_if" -> TEST + JUMP(v)
    [] op = "br_table" -> BrTableCost(v, arityOf(ins.d))
    [] op = "return" -> IF v = 0 THEN BranchCost(0, funcArity) ELSE 2
    [] op = "call" -> InvokeBefore(v, np, nr)
    [] op = "call_indirect" -> CallIndirectCost(v, np, nr)
    [] op = "drop" -> IF v = 0 THEN 2 ELSE 0
    [] op = "select" -> IF v = 0 THEN TEST + 1 ELSE TEST
    [] op \in {"local.get", "local.set", "local.tee"} -> IF v = 0 THEN 3 ELSE 0
    [] op \in {"global.get", "global.set"} -> IF v = 0 THEN 3 ELSE 1
    [] op = "load" -> IF v = 0 THEN 4 ELSE 1
    [] op = "store" -> StoreCost(v, ins.t, ins.n)
    [] op = "memory.size" -> IF v = 0 THEN 4 ELSE 1
    [] op = "memory.grow" -> 10
    [] op = "const" -> IF v = 0 THEN 2 ELSE 0
    [] op \in {"unop", "eqz", "cvt"} -> IF v = 0 THEN 3 ELSE 1
    [] op = "relop" -> IF v = 0 THEN 4 ELSE 1
    [] op = "binop" -> IF ins.name \in {"mul", "div_s", "div_u", "rem_s", "rem_u"}
                       THEN (IF v = 0 THEN 5 ELSE 2) ELSE (IF v = 0 THEN 4 ELSE 1)
=============================================================================
