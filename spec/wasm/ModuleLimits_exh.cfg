SPECIFICATION LSpec
INVARIANTS LExport Sanity
CHECK_DEADLOCK FALSE
