SPECIFICATION ASpec
CONSTANTS
  CredIdx = {0, 1}
  KeyIdx = {0, 1}
  SigCredIdx = {0, 1, 2}
  SigKeyIdx = {0, 1, 2}
  Thresholds = {1, 2, 3}
  MaxSigs = 3
  MaxFaulty = 1
INVARIANTS SelfSignedVerifies UnknownRejects FaultyRejects AExport
CHECK_DEADLOCK FALSE
