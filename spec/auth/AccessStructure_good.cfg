SPECIFICATION ASpec
CONSTANTS
  CredIdx = {0, 1, 5}
  KeyIdx = {0, 3}
  SigCredIdx = {0, 1, 5}
  SigKeyIdx = {0, 3}
  Thresholds = {1, 2}
  MaxSigs = 6
  MaxFaulty = 0
INVARIANTS SelfSignedVerifies UnknownRejects FaultyRejects AExport
CHECK_DEADLOCK FALSE
