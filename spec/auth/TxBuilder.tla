----------------------------- MODULE TxBuilder -----------------------------
(***************************************************************************)
(* The builder of extended (v1, optionally sponsored) account transactions *)
(* as a state machine (C06): extend, add_sponsor, sign (sender), sponsor    *)
(* (sign as sponsor) and finalize may be called in any order; each call is  *)
(* one action.  The header is the v0 header preceded by a 16-bit feature    *)
(* bitmap (bit 0: sponsor present) and followed by the sponsor address when *)
(* present.  The digest that is signed is                                    *)
(*     SHA-256( 31 zero bytes ++ 1 ++ header ++ payload )                    *)
(* and `digestHdr` records the header the builder's stored digest was        *)
(* computed from.  A signature records the header it was made over; the      *)
(* finalized transaction verifies iff every signature in it was made over    *)
(* the final header.                                                          *)
(*   energy: extend adds 2 (the bitmap); add_sponsor adds 32 + A * #sigs     *)
(***************************************************************************)
EXTENDS Naturals, Integers, Sequences, FiniteSets, TLC, Json

CONSTANT MaxOps

Pay == [kind |-> "transfer", to |-> 9, amount |-> 1]
Sender == 3
Nonce == 7
Expiry == 1700000000
NSig == 1
INSTANCE TxEnvelope WITH p <- Pay, nsigs <- NSig

VARIABLES st, hist
bvars == <<st, hist>>

Hdr(s) == <<s.energy, s.sponsor>>

HeaderV1Term(s) ==
  << <<"u16", IF s.sponsor # 0 THEN 1 ELSE 0>>, Addr(Sender), <<"u64", 0, Nonce>>, <<"u64", 0, s.energy>>, <<"u32", PayloadSize(Pay)>>, <<"u64", 0, Expiry>> >>
  \o (IF s.sponsor # 0 THEN <<Addr(s.sponsor)>> ELSE <<>>)

DigestPrefix == << <<"r", 0, 31>>, <<"b", <<1>> >> >>

BInit ==
  /\ st = [stage |-> "v0", energy |-> EnergyOf(Pay, NSig), sponsor |-> 0, digestHdr |-> <<EnergyOf(Pay, NSig), 0>>,
           senderSig |-> <<>>, sponsorSig |-> <<>>]
  /\ hist = <<>>

Rec(op, arg, ok, s, verifies) ==
  [op |-> op, arg |-> arg, ok |-> ok, energy |-> s.energy, sponsor |-> s.sponsor,
   header |-> IF s.stage = "v0" THEN HeaderTerm(Pay, NSig, Sender, Nonce, Expiry) ELSE HeaderV1Term(s),
   digest_current |-> s.digestHdr = Hdr(s), verifies |-> verifies]

Extend ==
  /\ st.stage = "v0"
  /\ LET s == [st EXCEPT !.stage = "v1", !.energy = @ + 2, !.digestHdr = <<st.energy + 2, 0>>] IN
     /\ st' = s
     /\ hist' = Append(hist, Rec("extend", 0, TRUE, s, FALSE))

AddSponsor(a, n) ==
  /\ st.stage = "v1"
  /\ IF st.sponsor # 0
       THEN /\ st' = st
            /\ hist' = Append(hist, Rec("add_sponsor", <<a, n>>, FALSE, st, FALSE))
       ELSE LET e == st.energy + 32 + A * n
                s == [st EXCEPT !.sponsor = a, !.energy = e, !.digestHdr = <<e, a>>] IN
            /\ st' = s
            /\ hist' = Append(hist, Rec("add_sponsor", <<a, n>>, TRUE, s, FALSE))

SignSender ==
  /\ st.stage = "v1"
  /\ LET s == [st EXCEPT !.senderSig = <<st.digestHdr>>] IN
     /\ st' = s
     /\ hist' = Append(hist, Rec("sign", 0, TRUE, s, FALSE))

SignSponsor ==
  /\ st.stage = "v1"
  /\ IF st.sponsor = 0
       THEN /\ st' = st
            /\ hist' = Append(hist, Rec("sponsor", 0, FALSE, st, FALSE))
       ELSE LET s == [st EXCEPT !.sponsorSig = <<st.digestHdr>>] IN
            /\ st' = s
            /\ hist' = Append(hist, Rec("sponsor", 0, TRUE, s, FALSE))

Verifies(s) ==
  /\ s.senderSig = <<Hdr(s)>>
  /\ s.sponsorSig = <<>> \/ s.sponsorSig = <<Hdr(s)>>

Finalize ==
  /\ st.stage = "v1"
  /\ st' = st
  /\ hist' = Append(hist, Rec("finalize", 0, st.senderSig # <<>>, st, st.senderSig # <<>> /\ Verifies(st)))

BNext == Extend \/ (\E a \in {5, 6}, n \in {1, 2} : AddSponsor(a, n)) \/ SignSender \/ SignSponsor \/ Finalize
BSpec == BInit /\ [][BNext]_bvars

(* the stored digest is always the digest of the current header *)
DigestCurrent == st.digestHdr = Hdr(st)
(* signatures made when the header was final verify: in every reachable state, a signature over the current header is accepted *)
SignThenVerify ==
  (st.senderSig = <<Hdr(st)>> /\ st.sponsorSig \in {<<>>, <<Hdr(st)>>}) => Verifies(st)
(* the header is only changed by extend and a successful add_sponsor, and energy only grows *)
EnergyGrows == [][st'.energy >= st.energy]_bvars

Bound == Len(hist) <= MaxOps
view == st
ExportEdge == PrintT(<<"REPLAY", ToJson([payload |-> PayloadTerm(Pay), prefix |-> DigestPrefix, ops |-> hist'])>>)
=============================================================================
