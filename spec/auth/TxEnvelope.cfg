SPECIFICATION ESpec
INVARIANTS EnergyMonotone EExport
CHECK_DEADLOCK FALSE
