SPECIFICATION USpec
CONSTANTS
  NKeys = 3
  KeyIds = {0, 1, 2, 3}
  MaxActual = 3
INVARIANT UExport
CHECK_DEADLOCK FALSE
