-------------------------- MODULE AccessStructure --------------------------
(***************************************************************************)
(* The threshold authorisation policy of account transactions (C06).       *)
(*                                                                         *)
(* acct  = [threshold, creds] with creds a function                        *)
(*         credential index -> [threshold, keys (set of key indices)]      *)
(* sigs  = function credential index -> (key index -> kind), kind in       *)
(*         "good"  a valid signature by the registered key at that index    *)
(*                 (or, for an unregistered index, by some other key),      *)
(*         "bad"   a corrupted signature,                                   *)
(*         "other" a valid signature over a different digest.               *)
(* A (plain) transaction is authorised iff at least `threshold` credentials *)
(* supply signatures, every supplying credential is registered and supplies *)
(* at least its own threshold of signatures, and every supplied signature   *)
(* is by a registered key of that credential and valid for the digest.      *)
(* A sponsored transaction needs this for the sender and for the sponsor.   *)
(***************************************************************************)
EXTENDS Naturals, Integers, Sequences, FiniteSets, TLC, Json

CredAuthorized(cred, ks) ==     \* ks: key index -> kind
  /\ cred.threshold <= Cardinality(DOMAIN ks)
  /\ \A k \in DOMAIN ks : k \in cred.keys /\ ks[k] = "good"

Authorized(acct, sigs) ==
  /\ acct.threshold <= Cardinality(DOMAIN sigs)
  /\ \A c \in DOMAIN sigs : c \in DOMAIN acct.creds /\ CredAuthorized(acct.creds[c], sigs[c])

AuthorizedSponsored(sender, sponsor, ssigs, psigs, hasSponsorSig) ==
  Authorized(sender, ssigs) /\ (hasSponsorSig => Authorized(sponsor, psigs))

(* what signing with the account's own keys produces (TransactionSigner for AccountKeys): the first
   `threshold` credentials, each with its first `threshold` keys *)
FirstN(S, n) == {x \in S : Cardinality({y \in S : y < x}) < n}
SelfSigned(acct) ==
  [c \in FirstN(DOMAIN acct.creds, acct.threshold) |->
     [k \in FirstN(acct.creds[c].keys, acct.creds[c].threshold) |-> "good"]]

-----------------------------------------------------------------------------
CONSTANTS CredIdx,    \* credential indices that may be registered
          KeyIdx,     \* key indices that may be registered
          SigCredIdx, \* credential indices that may appear in a signature map (superset: unknown ones)
          SigKeyIdx,  \* key indices that may appear in a signature map
          Thresholds, \* thresholds to try (including ones above the number of keys)
          MaxSigs,    \* bound on the number of supplied signatures
          MaxFaulty   \* bound on the number of bad/other signatures

VARIABLES acct, sigs
avars == <<acct, sigs>>

Creds == UNION {[C -> [threshold : Thresholds, keys : (SUBSET KeyIdx) \ {{}}]] : C \in (SUBSET CredIdx) \ {{}}}
Accts == [threshold : Thresholds, creds : Creds]
KeySigs == UNION {[K -> {"good", "bad", "other"}] : K \in (SUBSET SigKeyIdx) \ {{}}}
SigMaps == UNION {[C -> KeySigs] : C \in SUBSET SigCredIdx}

NSigs(s) == LET RECURSIVE sum(_)
                sum(C) == IF C = {} THEN 0 ELSE LET c == CHOOSE x \in C : TRUE IN Cardinality(DOMAIN s[c]) + sum(C \ {c})
            IN sum(DOMAIN s)
NFaulty(s) == LET RECURSIVE sum(_)
                  sum(C) == IF C = {} THEN 0
                            ELSE LET c == CHOOSE x \in C : TRUE IN Cardinality({k \in DOMAIN s[c] : s[c][k] # "good"}) + sum(C \ {c})
              IN sum(DOMAIN s)

AInit == acct \in Accts /\ sigs \in {s \in SigMaps : NSigs(s) <= MaxSigs /\ NFaulty(s) <= MaxFaulty}
ANext == UNCHANGED avars
ASpec == AInit /\ [][ANext]_avars

(* design-level facts about the policy *)
(* removing a faulty signature or adding a good one by a registered key of a supplying credential never revokes *)
SelfSignedVerifies ==
  (acct.threshold <= Cardinality(DOMAIN acct.creds) /\ \A c \in DOMAIN acct.creds : acct.creds[c].threshold <= Cardinality(acct.creds[c].keys))
     => Authorized(acct, SelfSigned(acct))
UnknownRejects ==
  (\E c \in DOMAIN sigs : c \notin DOMAIN acct.creds \/ \E k \in DOMAIN sigs[c] : k \notin acct.creds[c].keys) => ~Authorized(acct, sigs)
FaultyRejects == NFaulty(sigs) > 0 => ~Authorized(acct, sigs)

SeqOfSet(S) == LET RECURSIVE go(_)
                   go(T) == IF T = {} THEN <<>> ELSE LET x == CHOOSE y \in T : \A z \in T : y <= z IN <<x>> \o go(T \ {x})
               IN go(S)
AcctJson(a) == [threshold |-> a.threshold,
                creds |-> [i \in 1..Cardinality(DOMAIN a.creds) |->
                             LET c == SeqOfSet(DOMAIN a.creds)[i] IN
                             [idx |-> c, threshold |-> a.creds[c].threshold, keys |-> SeqOfSet(a.creds[c].keys)]]]
SigsJson(s) == [i \in 1..Cardinality(DOMAIN s) |->
                  LET c == SeqOfSet(DOMAIN s)[i] IN
                  [idx |-> c, keys |-> [j \in 1..Cardinality(DOMAIN s[c]) |->
                                          LET k == SeqOfSet(DOMAIN s[c])[j] IN <<k, s[c][k]>>]]]
AExport == PrintT(<<"REPLAY", ToJson([acct |-> AcctJson(acct), sigs |-> SigsJson(sigs), ok |-> Authorized(acct, sigs),
                                      self |-> SigsJson(SelfSigned(acct)), selfok |-> Authorized(acct, SelfSigned(acct))])>>)
=============================================================================
