SPECIFICATION BSpec
CONSTANT MaxOps = 7
INVARIANTS DigestCurrent SignThenVerify
PROPERTY EnergyGrows
VIEW view
CONSTRAINT Bound
ACTION_CONSTRAINT ExportEdge
CHECK_DEADLOCK FALSE
