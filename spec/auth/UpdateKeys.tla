----------------------------- MODULE UpdateKeys -----------------------------
(***************************************************************************)
(* Construction of the signer of a chain update (C06, Rust side):           *)
(* find_authorized_keys(keys, access structure, actual keys) succeeds iff   *)
(* every supplied key is one of the listed update keys, its index is         *)
(* authorised for this update type, and no key is supplied twice; the result *)
(* maps exactly the indices of the supplied keys to those keys.  Whether the *)
(* signer set reaches the threshold is decided by the chain (Haskell node);  *)
(* MeetsThreshold states that rule for completeness.                         *)
(***************************************************************************)
EXTENDS Naturals, Integers, Sequences, FiniteSets, TLC, Json

CONSTANTS NKeys,     \* number of listed update keys (indices 0..NKeys-1)
          KeyIds,    \* identities of keys that may be supplied (ids >= NKeys are not listed)
          MaxActual  \* bound on the number of supplied keys

VARIABLES authorized, threshold, actual
uvars == <<authorized, threshold, actual>>

Known(k) == k < NKeys
SignerOk == /\ \A i \in 1..Len(actual) : Known(actual[i]) /\ actual[i] \in authorized
            /\ \A i, j \in 1..Len(actual) : i # j => actual[i] # actual[j]
SignerSet == {actual[i] : i \in 1..Len(actual)}
MeetsThreshold == SignerOk /\ Cardinality(SignerSet) >= threshold

UInit == /\ authorized \in SUBSET (0..(NKeys - 1))
         /\ threshold \in 1..NKeys
         /\ actual \in UNION {[1..n -> KeyIds] : n \in 0..MaxActual}
USpec == UInit /\ [][UNCHANGED uvars]_uvars

SeqOfSet(S) == LET RECURSIVE go(_)
                   go(T) == IF T = {} THEN <<>> ELSE LET x == CHOOSE y \in T : \A z \in T : y <= z IN <<x>> \o go(T \ {x})
               IN go(S)
UExport == PrintT(<<"REPLAY", ToJson([nkeys |-> NKeys, authorized |-> SeqOfSet(authorized), threshold |-> threshold, actual |-> actual,
                                      ok |-> SignerOk, signers |-> IF SignerOk THEN SeqOfSet(SignerSet) ELSE <<>>, meets |-> MeetsThreshold])>>)
=============================================================================
