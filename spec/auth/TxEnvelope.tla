----------------------------- MODULE TxEnvelope -----------------------------
(***************************************************************************)
(* The envelope of constructed account transactions (C06): serialised       *)
(* header and payload bytes, declared payload size, energy, sign digest     *)
(* and block-item hash as the documented functions of the serialised bytes. *)
(* Byte strings are terms: <<"b", bytes>> literal, <<"r", byte, n>> repeat, *)
(* <<"u64", hi, lo>> a big-endian u64 given as two 32-bit halves (hi, lo <   *)
(* 2^31 here), <<"u32", n>>, <<"u16", n>>.  The harness evaluates terms and  *)
(* applies SHA-256 itself.                                                   *)
(*   energy = B * (HEADER_SIZE + payload size) + A * #signatures + specific *)
(***************************************************************************)
EXTENDS Naturals, Integers, Sequences, FiniteSets, TLC, Json

HEADER_SIZE == 60       \* sender 32 + nonce 8 + energy 8 + payload size 4 + expiry 8
A == 100
B == 1

Len1(t) == CASE t[1] = "b" -> Len(t[2]) [] t[1] = "r" -> t[3] [] t[1] = "u64" -> 8 [] t[1] = "u32" -> 4 [] t[1] = "u16" -> 2
RECURSIVE TermLen(_)
TermLen(ts) == IF ts = <<>> THEN 0 ELSE Len1(ts[1]) + TermLen(Tail(ts))

Addr(b) == <<"r", b, 32>>

(* payload terms and the type-specific energy *)
PayloadTerm(p) ==
  CASE p.kind = "transfer" -> << <<"b", <<3>> >>, Addr(p.to), <<"u64", 0, p.amount>> >>
    [] p.kind = "transfer_memo" -> << <<"b", <<22>> >>, Addr(p.to), <<"u16", p.memoLen>>, <<"r", 77, p.memoLen>>, <<"u64", 0, p.amount>> >>
    [] p.kind = "register_data" -> << <<"b", <<21>> >>, <<"u16", p.dataLen>>, <<"r", 68, p.dataLen>> >>
    [] p.kind = "schedule" -> << <<"b", <<19>> >>, Addr(p.to), <<"b", <<p.n>> >> >>
                              \o [i \in 1..(2 * p.n) |-> IF i % 2 = 1 THEN <<"u64", 0, 1000 * ((i + 1) \div 2)>> ELSE <<"u64", 0, p.amount>>]
    \* contract and stake payloads: deploy = 0 ++ version u32 ++ length u32 ++ source; init = 1 ++ amount ++ module reference (32) ++ name ++ parameter;
    \* update = 2 ++ amount ++ contract address ++ receive name ++ message; remove baker = 5; update stake = 6 ++ amount; restake = 7 ++ flag; to encrypted = 17 ++ amount
    [] p.kind = "deploy_module" -> << <<"b", <<0>> >>, <<"u32", p.version>>, <<"u32", p.size>>, <<"r", 0, p.size>> >>
    [] p.kind = "init_contract" -> << <<"b", <<1>> >>, <<"u64", 0, p.amount>>, <<"r", 7, 32>>, <<"u16", 6>>, <<"b", <<105, 110, 105, 116, 95, 99>> >>, <<"u16", p.plen>>, <<"r", 1, p.plen>> >>
    [] p.kind = "update_contract" -> << <<"b", <<2>> >>, <<"u64", 0, p.amount>>, <<"u64", 0, 3>>, <<"u64", 0, 0>>, <<"u16", 3>>, <<"b", <<99, 46, 102>> >>, <<"u16", p.plen>>, <<"r", 1, p.plen>> >>
    [] p.kind = "remove_baker" -> << <<"b", <<5>> >> >>
    [] p.kind = "update_baker_stake" -> << <<"b", <<6>> >>, <<"u64", 0, p.amount>> >>
    [] p.kind = "update_baker_restake" -> << <<"b", <<7>> >>, <<"b", <<IF p.flag THEN 1 ELSE 0>> >> >>
    [] p.kind = "transfer_to_encrypted" -> << <<"b", <<17>> >>, <<"u64", 0, p.amount>> >>

Specific(p) ==
  CASE p.kind = "transfer" -> 300
    [] p.kind = "transfer_memo" -> 300
    [] p.kind = "register_data" -> 300
    [] p.kind = "schedule" -> p.n * (300 + 64)
    [] p.kind = "deploy_module" -> p.size \div 10
    [] p.kind \in {"init_contract", "update_contract"} -> p.given          \* the execution energy is chosen by the caller and added on top
    [] p.kind \in {"remove_baker", "update_baker_stake", "update_baker_restake"} -> 300
    [] p.kind = "transfer_to_encrypted" -> 600

PayloadSize(p) == TermLen(PayloadTerm(p))
EnergyOf(p, nsigs) == B * (HEADER_SIZE + PayloadSize(p)) + A * nsigs + Specific(p)

HeaderTerm(p, nsigs, sender, nonce, expiry) ==
  << Addr(sender), <<"u64", 0, nonce>>, <<"u64", 0, EnergyOf(p, nsigs)>>, <<"u32", PayloadSize(p)>>, <<"u64", 0, expiry>> >>

Payloads ==
  [kind : {"transfer"}, to : {0, 9}, amount : {0, 1, 2147483647}]
  \cup [kind : {"transfer_memo"}, to : {9}, amount : {5}, memoLen : {0, 1, 255, 256}]
  \cup [kind : {"register_data"}, dataLen : {0, 1, 256}]
  \cup [kind : {"schedule"}, to : {9}, amount : {1, 7}, n : {1, 2, 255}]
  \cup [kind : {"deploy_module"}, version : {0, 1}, size : {0, 9, 10, 1000}]
  \cup [kind : {"init_contract", "update_contract"}, amount : {0, 5}, plen : {0, 3, 1024}, given : {0, 1, 10000}]
  \cup [kind : {"remove_baker"}] \cup [kind : {"update_baker_stake", "transfer_to_encrypted"}, amount : {0, 1000}] \cup [kind : {"update_baker_restake"}, flag : BOOLEAN]

VARIABLES p, nsigs
EInit == p \in Payloads /\ nsigs \in {1, 2, 3, 255}
ESpec == EInit /\ [][UNCHANGED <<p, nsigs>>]_<<p, nsigs>>

(* the declared size is the size of the payload, and energy grows with size and signatures *)
EnergyMonotone == \A q \in Payloads : (q.kind = p.kind /\ PayloadSize(q) >= PayloadSize(p) /\ Specific(q) >= Specific(p)) => EnergyOf(q, nsigs) >= EnergyOf(p, nsigs)

EExport == PrintT(<<"REPLAY", ToJson([p |-> p, nsigs |-> nsigs, payload |-> PayloadTerm(p), payload_size |-> PayloadSize(p),
                                      energy |-> EnergyOf(p, nsigs), header |-> HeaderTerm(p, nsigs, 3, 7, 1700000000)])>>)
=============================================================================
