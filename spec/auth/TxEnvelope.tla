----------------------------- MODULE TxEnvelope -----------------------------
(***************************************************************************)
(* The envelope of constructed account transactions (C06): serialised       *)
(* header and payload bytes, declared payload size, energy, sign digest     *)
(* and block-item hash as the documented functions of the serialised bytes. *)
(* Byte strings are terms: <<"b", bytes>> literal, <<"r", byte, n>> repeat, *)
(* <<"u64", hi, lo>> a big-endian u64 given as two 32-bit halves (hi, lo <   *)
(* 2^31 here), <<"u32", n>>, <<"u16", n>>.  The harness evaluates terms and  *)
(* applies SHA-256 itself.                                                   *)
(*   energy = B * (HEADER_SIZE + payload size) + A * #signatures + specific *)
(***************************************************************************)
EXTENDS Naturals, Integers, Sequences, FiniteSets, TLC, Json

HEADER_SIZE == 60       \* sender 32 + nonce 8 + energy 8 + payload size 4 + expiry 8
A == 100
B == 1

Len1(t) == CASE t[1] = "b" -> Len(t[2]) [] t[1] = "r" -> t[3] [] t[1] = "u64" -> 8 [] t[1] = "u32" -> 4 [] t[1] = "u16" -> 2
RECURSIVE TermLen(_)
TermLen(ts) == IF ts = <<>> THEN 0 ELSE Len1(ts[1]) + TermLen(Tail(ts))

Addr(b) == <<"r", b, 32>>

(* payload terms and the type-specific energy *)
PayloadTerm(p) ==
  CASE p.kind = "transfer" -> << <<"b", <<3>> >>, Addr(p.to), <<"u64", 0, p.amount>> >>
    [] p.kind = "transfer_memo" -> << <<"b", <<22>> >>, Addr(p.to), <<"u16", p.memoLen>>, <<"r", 77, p.memoLen>>, <<"u64", 0, p.amount>> >>
    [] p.kind = "register_data" -> << <<"b", <<21>> >>, <<"u16", p.dataLen>>, <<"r", 68, p.dataLen>> >>
    [] p.kind = "schedule" -> << <<"b", <<19>> >>, Addr(p.to), <<"b", <<p.n>> >> >>
                              \o [i \in 1..(2 * p.n) |-> IF i % 2 = 1 THEN <<"u64", 0, 1000 * ((i + 1) \div 2)>> ELSE <<"u64", 0, p.amount>>]

Specific(p) ==
  CASE p.kind = "transfer" -> 300
    [] p.kind = "transfer_memo" -> 300
    [] p.kind = "register_data" -> 300
    [] p.kind = "schedule" -> p.n * (300 + 64)

PayloadSize(p) == TermLen(PayloadTerm(p))
EnergyOf(p, nsigs) == B * (HEADER_SIZE + PayloadSize(p)) + A * nsigs + Specific(p)

HeaderTerm(p, nsigs, sender, nonce, expiry) ==
  << Addr(sender), <<"u64", 0, nonce>>, <<"u64", 0, EnergyOf(p, nsigs)>>, <<"u32", PayloadSize(p)>>, <<"u64", 0, expiry>> >>

Payloads ==
  [kind : {"transfer"}, to : {0, 9}, amount : {0, 1, 2147483647}]
  \cup [kind : {"transfer_memo"}, to : {9}, amount : {5}, memoLen : {0, 1, 255, 256}]
  \cup [kind : {"register_data"}, dataLen : {0, 1, 256}]
  \cup [kind : {"schedule"}, to : {9}, amount : {1, 7}, n : {1, 2, 255}]

VARIABLES p, nsigs
EInit == p \in Payloads /\ nsigs \in {1, 2, 3, 255}
ESpec == EInit /\ [][UNCHANGED <<p, nsigs>>]_<<p, nsigs>>

(* the declared size is the size of the payload, and energy grows with size and signatures *)
EnergyMonotone == \A q \in Payloads : (q.kind = p.kind /\ PayloadSize(q) >= PayloadSize(p) /\ Specific(q) >= Specific(p)) => EnergyOf(q, nsigs) >= EnergyOf(p, nsigs)

EExport == PrintT(<<"REPLAY", ToJson([p |-> p, nsigs |-> nsigs, payload |-> PayloadTerm(p), payload_size |-> PayloadSize(p),
                                      energy |-> EnergyOf(p, nsigs), header |-> HeaderTerm(p, nsigs, 3, 7, 1700000000)])>>)
=============================================================================
