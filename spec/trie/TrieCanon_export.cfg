SPECIFICATION Spec
CONSTANTS
  CKeys <- CKeysFull
  CVals = {0, 3}
INVARIANTS Refines Export
CHECK_DEADLOCK FALSE
