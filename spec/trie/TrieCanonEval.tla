---------------------------- MODULE TrieCanonEval ----------------------------
(* Evaluates the Merkle and serialisation terms of TrieCanon for maps supplied in a file
   (ndjson, one {"m": [[key, valueclass], ...]} per line; env MAPS). *)
EXTENDS TrieCanon, Json, IOUtils

Maps == ndJsonDeserialize(IOEnv.MAPS)

VARIABLE i

AsMap(seq) == [k \in {seq[j][1] : j \in 1..Len(seq)} |-> (CHOOSE j \in 1..Len(seq) : seq[j][1] = k) ]
MapOf(seq) == LET idx == AsMap(seq) IN [k \in DOMAIN idx |-> seq[idx[k]][2]]

Init == i = 1
Next == i <= Len(Maps) /\ i' = i + 1
         /\ PrintT(<<"CANON", ToJson([i |-> i, hash |-> HashTerm(MapOf(Maps[i].m)), ser |-> SerTerm(MapOf(Maps[i].m))])>>)
Spec == Init /\ [][Next]_i
=============================================================================
