SPECIFICATION TraceSpec
CONSTANTS
  Keys = {}
  Prefs = {}
  Vals = {}
  MaxGens = 0
  MaxIters = 0
  PersistModes = {}
  KeepHist = FALSE
INVARIANT TraceInv
POSTCONDITION TraceAccepted
CHECK_DEADLOCK FALSE
