SPECIFICATION Spec
CONSTANTS
  CKeys <- CKeysDeep
  CVals = {0, 2, 3}
INVARIANTS Refines Export
CHECK_DEADLOCK FALSE
