------------------------------ MODULE StateTrie ------------------------------
(***************************************************************************)
(* Abstract specification of the V1 contract state (MutableTrie /          *)
(* MutableState / PersistentState of smart-contracts/wasm-chain-integration *)
(* src/v1/trie): an ordered byte-string map with                            *)
(*   - generations (checkpoints) that can be rolled back,                   *)
(*   - entry handles that die with their entry,                             *)
(*   - prefix iterators that lock their prefix against structural change,   *)
(*   - freeze / thaw cycles against a persistent map.                       *)
(* One action per API entry point; every action records the value the API   *)
(* returns.  Actions take their arguments (keys, ids) as parameters and do   *)
(* not require them to come from the model constants, so the same actions   *)
(* are used (a) by TLC to enumerate behaviours that are replayed into the   *)
(* Rust code, and (b) by StateTrieTrace to validate traces recorded from     *)
(* the Rust code with arbitrary keys.                                        *)
(***************************************************************************)
EXTENDS Naturals, Integers, Sequences, FiniteSets, SequencesExt, TLC

CONSTANTS Keys,        \* byte-string keys used by the model checker
          Prefs,    \* prefixes used for Iter / DeletePrefix by the model checker
          Vals,        \* value classes
          MaxGens,     \* bound on live generations (model checking only)
          MaxIters,    \* bound on iterators ever created (model checking only)
          PersistModes, \* how the frozen state is persisted between freeze and thaw
          KeepHist     \* TRUE: hist is the whole history (replay export); FALSE: only the last step

VARIABLES persist,  \* the persistent map the mutable trie was derived from
          gens,     \* sequence of generations, each a map key -> value; last = current
          ent,      \* entry handles: id -> [gen, key, alive]
          iters,    \* iterators: id -> [gen, prefix, started, last, live, snap]
          nextId,   \* next fresh handle / iterator id (model checking only)
          hist      \* observation history, exported for replay (hidden by VIEW)

vars == <<persist, gens, ent, iters, nextId, hist>>
view == <<persist, gens, ent, iters>>

-----------------------------------------------------------------------------
(* Byte strings *)

RECURSIVE LexLess(_, _)
LexLess(a, b) ==
  IF a = <<>> THEN b # <<>>
  ELSE IF b = <<>> THEN FALSE
  ELSE IF a[1] < b[1] THEN TRUE
  ELSE IF a[1] > b[1] THEN FALSE
  ELSE LexLess(Tail(a), Tail(b))

Under(m, p) == {k \in DOMAIN m : IsPrefix(p, k)}

EmptyMap == [k \in {} |-> 0]

MapPut(m, k, v) == [x \in DOMAIN m \cup {k} |-> IF x = k THEN v ELSE m[x]]
MapDel(m, K) == [x \in DOMAIN m \ K |-> m[x]]

SortedKeys(S) == SetToSortSeq(S, LexLess)
MapSeq(m) == LET ks == SortedKeys(DOMAIN m) IN [i \in 1..Len(ks) |-> <<ks[i], m[ks[i]]>>]

-----------------------------------------------------------------------------
Cur == Len(gens)                \* index of the current generation (1-based; the code's root = Cur-1)
CurMap == gens[Cur]

LiveIters == {i \in DOMAIN iters : iters[i].live /\ iters[i].gen = Cur}

(* insert / delete are refused iff some lock is a prefix of the key *)
Locked(k) == \E i \in LiveIters : IsPrefix(iters[i].prefix, k)
(* delete_prefix is refused iff some lock is a prefix of, or extends, the argument *)
LockedPrefix(p) == \E i \in LiveIters : IsPrefix(iters[i].prefix, p) \/ IsPrefix(p, iters[i].prefix)

LiveEnt(k) == {e \in DOMAIN ent : ent[e].gen = Cur /\ ent[e].key = k /\ ent[e].alive}

KillKeys(K) == [e \in DOMAIN ent |->
                  IF ent[e].gen = Cur /\ ent[e].key \in K THEN [ent[e] EXCEPT !.alive = FALSE] ELSE ent[e]]

Bind(e, k) == [x \in DOMAIN ent \cup {e} |-> IF x = e THEN [gen |-> Cur, key |-> k, alive |-> TRUE] ELSE ent[x]]

(* An id the implementation hands out for key k must either be unbound or already denote
   the live entry of k in the current generation. *)
IdOkFor(e, k) == e \in DOMAIN ent => (ent[e].gen = Cur /\ ent[e].key = k /\ ent[e].alive)

HandleSeq ==
  LET S == {e \in DOMAIN ent' : ent'[e].gen = Len(gens')}
      ids == SetToSortSeq(S, LAMBDA a, b : a < b)
  IN [i \in 1..Len(ids) |-> <<ids[i], ent'[ids[i]].key, ent'[ids[i]].alive>>]

(* every step records: the call, its result r, the current map m after the step, and the
   handles h of the current generation with their liveness *)
Log(rec) == hist' = Append(IF KeepHist THEN hist ELSE <<>>, rec @@ [m |-> MapSeq(gens'[Len(gens')]), h |-> HandleSeq])

-----------------------------------------------------------------------------
Init ==
  /\ persist = EmptyMap
  /\ gens = <<EmptyMap>>
  /\ ent = [e \in {} |-> 0]
  /\ iters = [e \in {} |-> 0]
  /\ nextId = 1
  /\ hist = <<>>

(* insert(key, value): create or overwrite.  e is the entry id the call returns. *)
Insert(k, v, e) ==
  IF Locked(k)
  THEN /\ UNCHANGED <<persist, gens, ent, iters>>
       /\ Log([a |-> "insert", k |-> k, v |-> v, r |-> <<"locked">>])
  ELSE /\ IdOkFor(e, k)
       /\ gens' = [gens EXCEPT ![Cur] = MapPut(CurMap, k, v)]
       /\ ent' = Bind(e, k)
       /\ UNCHANGED <<persist, iters>>
       /\ Log([a |-> "insert", k |-> k, v |-> v,
               r |-> <<"ok", e, IF k \in DOMAIN CurMap THEN 1 ELSE 0>>])

(* get_entry(key) *)
GetEntry(k, e) ==
  IF k \in DOMAIN CurMap
  THEN /\ IdOkFor(e, k)
       /\ ent' = Bind(e, k)
       /\ UNCHANGED <<persist, gens, iters>>
       /\ Log([a |-> "get", k |-> k, r |-> <<"some", e>>])
  ELSE /\ UNCHANGED <<persist, gens, ent, iters>>
       /\ Log([a |-> "get", k |-> k, r |-> <<"none">>])

UsableEnt(e) == e \in DOMAIN ent /\ ent[e].gen = Cur

(* with_entry(e): read the value through a handle *)
Read(e) ==
  /\ UsableEnt(e)
  /\ UNCHANGED <<persist, gens, ent, iters>>
  /\ Log([a |-> "read", e |-> e,
          r |-> IF ent[e].alive THEN <<"some", CurMap[ent[e].key]>> ELSE <<"none">>])

(* set(e, v) and get_mut(e) followed by a whole-value write: via = "set" | "getmut" *)
Write(e, v, via) ==
  /\ UsableEnt(e)
  /\ IF ent[e].alive
     THEN /\ gens' = [gens EXCEPT ![Cur] = MapPut(CurMap, ent[e].key, v)]
          /\ UNCHANGED <<persist, ent, iters>>
          /\ Log([a |-> via, e |-> e, v |-> v, r |-> <<"ok">>])
     ELSE /\ UNCHANGED <<persist, gens, ent, iters>>
          /\ Log([a |-> via, e |-> e, v |-> v, r |-> <<"none">>])

(* delete(key) *)
Delete(k) ==
  IF Locked(k)
  THEN /\ UNCHANGED <<persist, gens, ent, iters>>
       /\ Log([a |-> "delete", k |-> k, r |-> <<"locked">>])
  ELSE /\ gens' = [gens EXCEPT ![Cur] = MapDel(CurMap, {k})]
       /\ ent' = KillKeys({k})
       /\ UNCHANGED <<persist, iters>>
       /\ Log([a |-> "delete", k |-> k, r |-> <<"ok", IF k \in DOMAIN CurMap THEN 1 ELSE 0>>])

(* delete_prefix(prefix) *)
DeletePrefix(p) ==
  IF LockedPrefix(p)
  THEN /\ UNCHANGED <<persist, gens, ent, iters>>
       /\ Log([a |-> "delprefix", k |-> p, r |-> <<"locked">>])
  ELSE /\ gens' = [gens EXCEPT ![Cur] = MapDel(CurMap, Under(CurMap, p))]
       /\ ent' = KillKeys(Under(CurMap, p))
       /\ UNCHANGED <<persist, iters>>
       /\ Log([a |-> "delprefix", k |-> p,
               r |-> <<"ok", IF Under(CurMap, p) # {} THEN 1 ELSE 0>>])

(* iter(prefix): an iterator exists only if some key lies under the prefix; it locks the prefix *)
Iter(p, i) ==
  IF Under(CurMap, p) = {}
  THEN /\ UNCHANGED <<persist, gens, ent, iters>>
       /\ Log([a |-> "iter", k |-> p, r |-> <<"none">>])
  ELSE /\ i \notin DOMAIN iters
       /\ iters' = [x \in DOMAIN iters \cup {i} |->
                      IF x = i THEN [gen |-> Cur, prefix |-> p, started |-> FALSE, last |-> <<>>,
                                     live |-> TRUE, snap |-> Under(CurMap, p)]
                      ELSE iters[x]]
       /\ UNCHANGED <<persist, gens, ent>>
       /\ Log([a |-> "iter", k |-> p, r |-> <<"some", i>>])

Remaining(i) == {k \in Under(CurMap, iters[i].prefix) :
                    ~iters[i].started \/ LexLess(iters[i].last, k)}
Least(S) == CHOOSE k \in S : \A o \in S : o = k \/ LexLess(k, o)

(* next(iterator): the least key under the prefix not yet given out; e is the returned entry id *)
NextKey(i, e) ==
  /\ i \in LiveIters
  /\ IF Remaining(i) = {}
     THEN /\ UNCHANGED <<persist, gens, ent, iters>>
          /\ Log([a |-> "next", i |-> i, r |-> <<"none">>])
     ELSE LET k == Least(Remaining(i)) IN
          /\ IdOkFor(e, k)
             /\ ent' = Bind(e, k)
          /\ iters' = [iters EXCEPT ![i].started = TRUE, ![i].last = k]
          /\ UNCHANGED <<persist, gens>>
          /\ Log([a |-> "next", i |-> i, r |-> <<"some", e, k>>])

(* delete_iter(iterator): releases exactly one occurrence of the iterator's own prefix *)
DeleteIter(i) ==
  /\ i \in LiveIters
  /\ iters' = [iters EXCEPT ![i].live = FALSE]
  /\ UNCHANGED <<persist, gens, ent>>
  /\ Log([a |-> "deliter", i |-> i, r |-> <<"ok", 1>>])

(* new_generation / make_fresh_generation: checkpoint.  Locks are per generation. *)
NewGen ==
  /\ gens' = Append(gens, CurMap)
  /\ UNCHANGED <<persist, ent, iters>>
  /\ Log([a |-> "newgen", r |-> <<"ok", Cur>>])

(* normalize(g) / get_inner on an older handle: roll back to generation g (1-based) *)
Normalize(g) ==
  /\ g \in 1..Cur
  /\ gens' = SubSeq(gens, 1, g)
  /\ ent' = [e \in {x \in DOMAIN ent : ent[x].gen <= g} |-> ent[e]]
  /\ iters' = [i \in {x \in DOMAIN iters : iters[x].gen <= g} |-> iters[i]]
  /\ UNCHANGED persist
  /\ Log([a |-> "normalize", g |-> g, r |-> <<"ok">>])

(* freeze the current generation into a persistent state, persist it in some way, thaw it *)
FreezeThaw(mode) ==
  /\ persist' = CurMap
  /\ gens' = <<CurMap>>
  /\ ent' = [e \in {} |-> 0]
  /\ iters' = [e \in {} |-> 0]
  /\ Log([a |-> "freeze", mode |-> mode, r |-> <<"ok">>])

-----------------------------------------------------------------------------
(* Model-checking instance: ids are chosen deterministically *)

IdFor(k) == IF LiveEnt(k) # {} THEN CHOOSE e \in LiveEnt(k) : TRUE ELSE nextId
Bump(k) == nextId' = IF LiveEnt(k) # {} THEN nextId ELSE nextId + 1

NextIterKeyId(i) == IF Remaining(i) = {} THEN nextId ELSE IdFor(Least(Remaining(i)))

Next ==
  \/ \E k \in Keys, v \in Vals : Insert(k, v, IdFor(k)) /\ nextId' = (IF Locked(k) THEN nextId ELSE IF LiveEnt(k) # {} THEN nextId ELSE nextId + 1)
  \/ \E k \in Keys : GetEntry(k, IdFor(k)) /\ nextId' = (IF k \in DOMAIN CurMap /\ LiveEnt(k) = {} THEN nextId + 1 ELSE nextId)
  \/ \E e \in DOMAIN ent : Read(e) /\ UNCHANGED nextId
  \/ \E e \in DOMAIN ent, v \in Vals, via \in {"set", "getmut"} : Write(e, v, via) /\ UNCHANGED nextId
  \/ \E k \in Keys : Delete(k) /\ UNCHANGED nextId
  \/ \E p \in Prefs : DeletePrefix(p) /\ UNCHANGED nextId
  \/ \E p \in Prefs :
        /\ Cardinality(DOMAIN iters) < MaxIters
        /\ Iter(p, nextId)
        /\ nextId' = (IF Under(CurMap, p) = {} THEN nextId ELSE nextId + 1)
  \/ \E i \in DOMAIN iters :
        /\ i \in LiveIters
        /\ NextKey(i, NextIterKeyId(i))
        /\ nextId' = (IF Remaining(i) # {} /\ LiveEnt(Least(Remaining(i))) = {} THEN nextId + 1 ELSE nextId)
  \/ \E i \in DOMAIN iters : DeleteIter(i) /\ UNCHANGED nextId
  \/ Cur < MaxGens /\ NewGen /\ UNCHANGED nextId
  \/ \E g \in 1..(Cur - 1) : Normalize(g) /\ UNCHANGED nextId
  \/ \E mode \in PersistModes : FreezeThaw(mode) /\ UNCHANGED nextId

Spec == Init /\ [][Next]_vars

-----------------------------------------------------------------------------
(* Properties of the design *)

TypeOK ==
  /\ Len(gens) >= 1
  /\ \A e \in DOMAIN ent : ent[e].gen \in 1..Cur
  /\ \A i \in DOMAIN iters : iters[i].gen \in 1..Cur

(* A live handle always denotes a key that is present *)
LiveHandlesPresent ==
  \A e \in DOMAIN ent : ent[e].alive => ent[e].key \in DOMAIN gens[ent[e].gen]

(* At most one live handle per (generation, key): no two ids alias different incarnations *)
HandleUnique ==
  \A e1, e2 \in DOMAIN ent :
     (ent[e1].alive /\ ent[e2].alive /\ ent[e1].gen = ent[e2].gen /\ ent[e1].key = ent[e2].key) => e1 = e2

(* C15: while an iterator is alive, the set of keys under its prefix is the one at creation *)
IterSnapshot ==
  \A i \in DOMAIN iters :
     iters[i].live => Under(gens[iters[i].gen], iters[i].prefix) = iters[i].snap

(* C15: an iterator never runs ahead of its snapshot, and what it has given out is a key of it *)
IterWithinSnapshot ==
  \A i \in DOMAIN iters : (iters[i].live /\ iters[i].started) => iters[i].last \in iters[i].snap

(* C03: generations below the current one, and the persistent map, never change except by
   Normalize (which only truncates) and FreezeThaw (which replaces everything). *)
NoLeak ==
  [][ \/ \E mode \in PersistModes : persist' = CurMap /\ Len(gens') = 1
      \/ /\ persist' = persist
         /\ \A g \in 1..(Len(gens') - 1) : g <= Len(gens) /\ gens'[g] = gens[g]
         /\ Len(gens') < Len(gens) => gens'[Len(gens')] = gens[Len(gens')] ]_vars

(* C15: a refused operation changes nothing *)
RefusalIsNoop ==
  [][ (Len(hist') = Len(hist) + 1 /\ hist'[Len(hist')].r = <<"locked">>)
        => UNCHANGED <<persist, gens, ent, iters>> ]_vars

=============================================================================
