SPECIFICATION Spec
CONSTANTS
  Keys <- IKeys
  InnerKeys <- IKeys2
  Prefs <- IPrefs
  Srcs <- ISrcs
  Offsets <- IOffs
  Lens <- ILens
  Sizes <- ISizes
  MaxHandles = 4
  KeepHist = TRUE
  MaxOps = 5
VIEW view
CONSTRAINT BoundC
INVARIANTS IterSnapshot NoForeignData StaleInvalid
PROPERTIES RefusalIsNoop
CHECK_DEADLOCK FALSE
