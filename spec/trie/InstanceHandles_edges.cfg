SPECIFICATION Spec
CONSTANTS
  Keys <- IKeys
  InnerKeys <- IKeys2
  Prefs <- IPrefs
  Srcs <- ISrcs
  Offsets <- IOffs
  Lens <- ILens
  Sizes <- ISizes
  MaxHandles = 3
  KeepHist = TRUE
  MaxOps = 3
VIEW view
CONSTRAINT Bound
ACTION_CONSTRAINT ExportEdge
CHECK_DEADLOCK FALSE
