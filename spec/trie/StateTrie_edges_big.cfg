SPECIFICATION Spec
CONSTANTS
  Keys <- KeysFull
  Prefs <- PrefFull
  Vals = {0, 3}
  MaxGens = 3
  MaxIters = 2
  PersistModes <- ModesAll
  KeepHist = TRUE
  MaxOps = 4
VIEW view
CONSTRAINT Bound
ACTION_CONSTRAINT ExportEdge
CHECK_DEADLOCK FALSE
