SPECIFICATION Spec
CONSTANTS
  Keys <- IKeys2
  InnerKeys = {}
  Prefs <- IPrefs2
  Srcs <- ISrcs2
  Offsets = {0}
  Lens = {2}
  Sizes = {1}
  MaxHandles = 8
  KeepHist = TRUE
  MaxOps = 30
CONSTRAINT Bound
INVARIANTS IterSnapshot NoForeignData StaleInvalid ExportDone
CHECK_DEADLOCK FALSE
