--------------------------- MODULE InstanceHandles ---------------------------
(***************************************************************************)
(* The contract-visible view of the V1 state (InstanceState in             *)
(* wasm-chain-integration/src/v1/types.rs): entry and iterator handles are *)
(* pairs <<instance generation, index>>, entries die when their key is     *)
(* deleted, iterators lock their prefix, and an interrupt during which the *)
(* state was updated invalidates every handle and iterator handed out      *)
(* before it.  Result encodings follow the host interface:                 *)
(*   "none" / "err" / "max" (= u32::MAX, invalid handle) / numbers.        *)
(* Values are byte sequences; writes and resizes follow the documented     *)
(* semantics (zero fill, no write past the end).                           *)
(***************************************************************************)
EXTENDS Naturals, Integers, Sequences, FiniteSets, SequencesExt, TLC

CONSTANTS Keys, Prefs, Srcs, Offsets, Lens, Sizes, MaxHandles, KeepHist,
          InnerKeys  \* keys touched by re-entrant calls during an interrupt

VARIABLES map,     \* key -> byte sequence
          inc,     \* key -> incarnation counter (bumped whenever the key is deleted)
          igen,    \* instance generation
          emap,    \* entry handle table: sequence of [key, inc]
          imap,    \* iterator table: sequence of [prefix, started, last, deleted, snap]
          hist

vars == <<map, inc, igen, emap, imap, hist>>
view == <<map, inc, igen, emap, imap>>

MAX_ENTRY_SIZE == 1073741824   \* 2^30 (constants.rs)

RECURSIVE LexLess(_, _)
LexLess(a, b) ==
  IF a = <<>> THEN b # <<>>
  ELSE IF b = <<>> THEN FALSE
  ELSE IF a[1] < b[1] THEN TRUE
  ELSE IF a[1] > b[1] THEN FALSE
  ELSE LexLess(Tail(a), Tail(b))

Under(p) == {k \in DOMAIN map : IsPrefix(p, k)}
MapPut(m, k, v) == [x \in DOMAIN m \cup {k} |-> IF x = k THEN v ELSE m[x]]
MapDel(m, K) == [x \in DOMAIN m \ K |-> m[x]]
MapSeq(m) == LET ks == SetToSortSeq(DOMAIN m, LexLess) IN [i \in 1..Len(ks) |-> <<ks[i], m[ks[i]]>>]
IncOf(k) == IF k \in DOMAIN inc THEN inc[k] ELSE 0
BumpInc(K) == [x \in DOMAIN inc \cup K |-> IF x \in K THEN IncOf(x) + 1 ELSE inc[x]]

LiveIterIdx == {i \in 1..Len(imap) : ~imap[i].deleted}
Locked(k) == \E i \in LiveIterIdx : IsPrefix(imap[i].prefix, k)
LockedPrefix(p) == \E i \in LiveIterIdx : IsPrefix(imap[i].prefix, p) \/ IsPrefix(p, imap[i].prefix)

(* a handle is <<generation, index>> with a 0-based index, as the contract sees it *)
ValidEntry(h) == h[1] = igen /\ h[2] + 1 \in 1..Len(emap)
EntryAlive(h) == LET s == emap[h[2] + 1] IN s.key \in DOMAIN map /\ IncOf(s.key) = s.inc
ValidIter(h) == h[1] = igen /\ h[2] + 1 \in 1..Len(imap) /\ ~imap[h[2] + 1].deleted

Log(rec) == hist' = Append(IF KeepHist THEN hist ELSE <<>>, rec @@ [m |-> MapSeq(map')])

Init ==
  /\ map = [k \in {} |-> <<>>]
  /\ inc = [k \in {} |-> 0]
  /\ igen = 0
  /\ emap = <<>>
  /\ imap = <<>>
  /\ hist = <<>>

Lookup(k) ==
  /\ UNCHANGED <<map, inc, igen, imap>>
  /\ IF k \in DOMAIN map
     THEN /\ emap' = Append(emap, [key |-> k, inc |-> IncOf(k)])
          /\ Log([a |-> "lookup", k |-> k, r |-> <<"some", igen, Len(emap)>>])
     ELSE /\ UNCHANGED emap
          /\ Log([a |-> "lookup", k |-> k, r |-> <<"none">>])

(* state_create_entry: refuses under a lock; otherwise the entry exists afterwards and is EMPTY *)
Create(k) ==
  /\ UNCHANGED <<inc, igen, imap>>
  /\ IF Locked(k)
     THEN /\ UNCHANGED <<map, emap>>
          /\ Log([a |-> "create", k |-> k, rf |-> TRUE, r |-> <<"none">>])
     ELSE /\ map' = MapPut(map, k, <<>>)
          /\ emap' = Append(emap, [key |-> k, inc |-> IncOf(k)])
          /\ Log([a |-> "create", k |-> k, r |-> <<"some", igen, Len(emap)>>])

Delete(k) ==
  /\ UNCHANGED <<igen, emap, imap>>
  /\ IF Locked(k)
     THEN UNCHANGED <<map, inc>> /\ Log([a |-> "delete", k |-> k, rf |-> TRUE, r |-> <<0>>])
     ELSE IF k \notin DOMAIN map
     THEN UNCHANGED <<map, inc>> /\ Log([a |-> "delete", k |-> k, r |-> <<1>>])
     ELSE /\ map' = MapDel(map, {k})
          /\ inc' = BumpInc({k})
          /\ Log([a |-> "delete", k |-> k, r |-> <<2>>])

DeletePrefix(p) ==
  /\ UNCHANGED <<igen, emap, imap>>
  /\ IF LockedPrefix(p)
     THEN UNCHANGED <<map, inc>> /\ Log([a |-> "delprefix", k |-> p, rf |-> TRUE, r |-> <<0>>])
     ELSE IF Under(p) = {}
     THEN UNCHANGED <<map, inc>> /\ Log([a |-> "delprefix", k |-> p, r |-> <<1>>])
     ELSE /\ map' = MapDel(map, Under(p))
          /\ inc' = BumpInc(Under(p))
          /\ Log([a |-> "delprefix", k |-> p, r |-> <<2>>])

Iterator(p) ==
  /\ UNCHANGED <<map, inc, igen, emap>>
  /\ IF Under(p) = {}
     THEN UNCHANGED imap /\ Log([a |-> "iterator", k |-> p, r |-> <<"none">>])
     ELSE /\ imap' = Append(imap, [prefix |-> p, started |-> FALSE, last |-> <<>>, deleted |-> FALSE, snap |-> Under(p), exhausted |-> FALSE])
          /\ Log([a |-> "iterator", k |-> p, r |-> <<"some", igen, Len(imap)>>])

Remaining(i) == {k \in Under(imap[i].prefix) : ~imap[i].started \/ LexLess(imap[i].last, k)}
Least(S) == CHOOSE k \in S : \A o \in S : o = k \/ LexLess(k, o)

IterNext(h) ==
  /\ UNCHANGED <<map, inc, igen>>
  /\ IF ~ValidIter(h)
     THEN UNCHANGED <<emap, imap>> /\ Log([a |-> "iternext", h |-> h, rf |-> TRUE, r |-> <<"err">>])
     ELSE LET i == h[2] + 1 IN
          IF Remaining(i) = {}
          THEN /\ UNCHANGED emap
               /\ imap' = [imap EXCEPT ![i].exhausted = TRUE]    \* the documentation says where the key points after a next that RETURNED an entry; after an exhausted next it is unspecified
               /\ Log([a |-> "iternext", h |-> h, r |-> <<"none">>])
          ELSE LET k == Least(Remaining(i)) IN
               /\ imap' = [imap EXCEPT ![i].started = TRUE, ![i].last = k]
               /\ emap' = Append(emap, [key |-> k, inc |-> IncOf(k)])
               /\ Log([a |-> "iternext", h |-> h, r |-> <<"some", igen, Len(emap)>>])

IterDelete(h) ==
  /\ UNCHANGED <<map, inc, igen, emap>>
  /\ IF h[1] # igen \/ h[2] + 1 \notin 1..Len(imap)
     THEN UNCHANGED imap /\ Log([a |-> "iterdelete", h |-> h, rf |-> TRUE, r |-> <<"max">>])
     ELSE IF imap[h[2] + 1].deleted
     THEN UNCHANGED imap /\ Log([a |-> "iterdelete", h |-> h, rf |-> TRUE, r |-> <<0>>])
     ELSE /\ imap' = [imap EXCEPT ![h[2] + 1].deleted = TRUE]
          /\ Log([a |-> "iterdelete", h |-> h, r |-> <<1>>])

IterKey(i) == IF imap[i].started THEN imap[i].last ELSE imap[i].prefix

Min2(a, b) == IF a < b THEN a ELSE b
Slice(s, off, n) == SubSeq(s, off + 1, off + n)

IterKeyRead(h, len, off) ==
  /\ UNCHANGED <<map, inc, igen, emap, imap>>
  /\ IF ~ValidIter(h)
     THEN Log([a |-> "iterkey", h |-> h, len |-> len, off |-> off, r |-> <<"max">>])
     ELSE IF imap[h[2] + 1].exhausted
     THEN Log([a |-> "iterkey", h |-> h, len |-> len, off |-> off, r |-> <<"any">>])
     ELSE LET key == IterKey(h[2] + 1)
              o == Min2(Len(key), off)
              n == Min2(Len(key) - o, len)
          IN Log([a |-> "iterkey", h |-> h, len |-> len, off |-> off, r |-> <<Len(key), n, Slice(key, o, n)>>])

EntryRead(h, len, off) ==
  /\ UNCHANGED <<map, inc, igen, emap, imap>>
  /\ IF ~(ValidEntry(h) /\ EntryAlive(h))
     THEN Log([a |-> "read", h |-> h, len |-> len, off |-> off, r |-> <<"max">>])
     ELSE LET v == map[emap[h[2] + 1].key]
              o == Min2(Len(v), off)
              n == Min2(Len(v) - o, len)
          IN Log([a |-> "read", h |-> h, len |-> len, off |-> off, r |-> <<Len(v), n, Slice(v, o, n)>>])

ZeroExtend(v, n) == IF Len(v) >= n THEN v ELSE v \o [i \in 1..(n - Len(v)) |-> 0]

EntryWrite(h, src, off) ==
  /\ UNCHANGED <<inc, igen, emap, imap>>
  /\ IF ~(ValidEntry(h) /\ EntryAlive(h))
     THEN UNCHANGED map /\ Log([a |-> "write", h |-> h, src |-> src, off |-> off, rf |-> TRUE, r |-> <<"max">>])
     ELSE LET k == emap[h[2] + 1].key
              v == map[k]
          IN IF off > Len(v)
             THEN UNCHANGED map /\ Log([a |-> "write", h |-> h, src |-> src, off |-> off, rf |-> TRUE, r |-> <<0>>])
             ELSE LET w == ZeroExtend(v, off + Len(src))
                      nv == [i \in 1..Len(w) |-> IF i > off /\ i <= off + Len(src) THEN src[i - off] ELSE w[i]]
                  IN /\ map' = MapPut(map, k, nv)
                     /\ Log([a |-> "write", h |-> h, src |-> src, off |-> off, r |-> <<Len(src)>>])

EntryResize(h, n) ==
  /\ UNCHANGED <<inc, igen, emap, imap>>
  /\ IF ~ValidEntry(h)
     THEN UNCHANGED map /\ Log([a |-> "resize", h |-> h, n |-> n, rf |-> TRUE, r |-> <<"max">>])
     ELSE IF n > MAX_ENTRY_SIZE
     THEN UNCHANGED map /\ Log([a |-> "resize", h |-> h, n |-> n, rf |-> TRUE, r |-> <<0>>])
     ELSE IF ~EntryAlive(h)
     THEN UNCHANGED map /\ Log([a |-> "resize", h |-> h, n |-> n, rf |-> TRUE, r |-> <<"max">>])
     ELSE LET k == emap[h[2] + 1].key
              v == map[k]
          IN /\ map' = MapPut(map, k, IF n <= Len(v) THEN SubSeq(v, 1, n) ELSE ZeroExtend(v, n))
             /\ Log([a |-> "resize", h |-> h, n |-> n, r |-> <<1>>])

(* Interrupt during which nothing happened to this instance's state, or whose effects were rolled
   back (failed inner call): resumed with the original state handle and state_updated = false.
   `scratch` are modifications made in a newer generation that is discarded. *)
ResumeUnchanged(scratch) ==
  /\ UNCHANGED <<map, inc, igen, emap, imap>>
  /\ Log([a |-> "resume_same", scratch |-> scratch, r |-> <<"ok">>])

(* Interrupt during which the state was updated (re-entrant call that succeeded): resumed with the
   new generation and state_updated = true; every handle and iterator from before is invalid and
   the new generation carries no locks.  `ops` is what the inner call did: <<"put", k, v>> / <<"del", k>>. *)
ApplyOps(m, ops) ==
  LET RECURSIVE go(_, _)
      go(mm, i) == IF i > Len(ops) THEN mm
                   ELSE go(IF ops[i][1] = "put" THEN MapPut(mm, ops[i][2], ops[i][3]) ELSE MapDel(mm, {ops[i][2]}), i + 1)
  IN go(m, 1)

ResumeUpdated(ops) ==
  /\ map' = ApplyOps(map, ops)
  /\ inc' = BumpInc({ops[i][2] : i \in {j \in 1..Len(ops) : ops[j][1] = "del"}})
  /\ igen' = igen + 1
  /\ emap' = <<>>
  /\ imap' = <<>>
  /\ Log([a |-> "resume_updated", ops |-> ops, r |-> <<"ok">>])

-----------------------------------------------------------------------------
EntryHandles == {<<g, i>> : g \in 0..igen, i \in 0..Len(emap)}   \* includes one out-of-range index and stale generations
IterHandles == {<<g, i>> : g \in 0..igen, i \in 0..Len(imap)}

InnerOps == {<<>>} \cup {<< <<"put", k, <<5>> >> >> : k \in InnerKeys} \cup {<< <<"del", k>> >> : k \in InnerKeys}

Next ==
  \/ \E k \in Keys : Len(emap) < MaxHandles /\ (Lookup(k) \/ Create(k))
  \/ \E k \in Keys : Delete(k)
  \/ \E p \in Prefs : DeletePrefix(p)
  \/ \E p \in Prefs : Len(imap) < MaxHandles /\ Iterator(p)
  \/ \E h \in IterHandles : (Len(emap) < MaxHandles /\ IterNext(h)) \/ IterDelete(h)
  \/ \E h \in IterHandles, len \in Lens, off \in Offsets : IterKeyRead(h, len, off)
  \/ \E h \in EntryHandles, len \in Lens, off \in Offsets : EntryRead(h, len, off)
  \/ \E h \in EntryHandles, src \in Srcs, off \in Offsets : EntryWrite(h, src, off)
  \/ \E h \in EntryHandles, n \in Sizes : EntryResize(h, n)
  \/ \E ops \in InnerOps : ResumeUnchanged(ops) \/ ResumeUpdated(ops)

Spec == Init /\ [][Next]_vars

-----------------------------------------------------------------------------
(* C15 design properties *)

(* while an iterator is alive the keys under its prefix are those present at creation *)
IterSnapshot == \A i \in LiveIterIdx : Under(imap[i].prefix) = imap[i].snap

(* a handle never exposes another entry's data: whatever a read/size through a handle returns is
   the value currently stored at the key the handle was issued for, in the incarnation it was issued for *)
NoForeignData ==
  \A i \in 1..Len(emap) :
     (emap[i].key \in DOMAIN map /\ IncOf(emap[i].key) = emap[i].inc) \/ ~EntryAlive(<<igen, i - 1>>)

(* refused operations change nothing; handles of older instance generations are always invalid *)
StaleInvalid == \A g \in 0..(igen - 1), i \in 0..(Len(emap) + 1) : ~ValidEntry(<<g, i>>) /\ ~ValidIter(<<g, i>>)

RefusalIsNoop ==
  [][ (Len(hist') = Len(hist) + 1 /\ "rf" \in DOMAIN hist'[Len(hist')])
        => UNCHANGED <<map, inc, igen, imap>> ]_vars
=============================================================================
