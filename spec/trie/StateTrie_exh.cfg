SPECIFICATION Spec
CONSTANTS
  Keys <- KeysSmall
  Prefs <- PrefSmall
  Vals = {0, 3}
  MaxGens = 2
  MaxIters = 2
  PersistModes <- ModesOne
  KeepHist = TRUE
  MaxOps = 5
VIEW view
CONSTRAINT BoundC
INVARIANTS TypeOK LiveHandlesPresent HandleUnique IterSnapshot IterWithinSnapshot
PROPERTIES NoLeak RefusalIsNoop
CHECK_DEADLOCK FALSE
