------------------------------ MODULE TrieCanon ------------------------------
(***************************************************************************)
(* The canonical compressed radix tree of a byte-string map, its Merkle    *)
(* hash as a *term* over SHA-256, and the byte layout of the full          *)
(* serialisation (PersistentState::serialize).  Everything is a function   *)
(* of the map contents alone; the implementation must agree whatever the   *)
(* history that produced the contents (property C04).                      *)
(*                                                                         *)
(* Terms: a term is a sequence of parts; a part is                          *)
(*   <<"b", bytes>>      literal bytes                                      *)
(*   <<"r", byte, n>>    the byte repeated n times                          *)
(*   <<"h", term>>       SHA-256 of the bytes denoted by the sub-term       *)
(* The harness only knows how to concatenate and how to apply SHA-256.     *)
(***************************************************************************)
EXTENDS Naturals, Integers, Sequences, FiniteSets, SequencesExt, TLC

(* value classes shared with the harness (util.rs value_of_class) *)
ValLen(c)  == CASE c = 0 -> 0 [] c = 1 -> 1 [] c = 2 -> 64 [] c = 3 -> 65 [] c = 4 -> 300 [] OTHER -> 2
ValByte(c) == CASE c = 0 -> 0 [] c = 1 -> 17 [] c = 2 -> 34 [] c = 3 -> 51 [] c = 4 -> 68 [] OTHER -> c
INLINE_VALUE_LEN == 64
INLINE_STEM_LENGTH == 63

Nibbles(k) == FlattenSeq([i \in 1..Len(k) |-> <<k[i] \div 16, k[i] % 16>>])

U16BE(n) == <<(n \div 256) % 256, n % 256>>
U32BE(n) == <<0, (n \div 65536) % 256, (n \div 256) % 256, n % 256>>
U64BE(n) == <<0, 0, 0, 0>> \o U32BE(n)
U64LE(n) == <<n % 256, (n \div 256) % 256, (n \div 65536) % 256, 0, 0, 0, 0, 0>>

(* nibbles packed two per byte; an odd trailing nibble occupies the high half, low half 0 *)
PackNibbles(p) ==
  [i \in 1..((Len(p) + 1) \div 2) |->
      p[2 * i - 1] * 16 + (IF 2 * i <= Len(p) THEN p[2 * i] ELSE 0)]

-----------------------------------------------------------------------------
(* Canonical tree.  S is a non-empty set of <<nibble sequence, value>> pairs with distinct
   sequences.  A node is [path, hasval, val, kids] with kids a sequence of <<nibble, node>>
   in increasing nibble order. *)

RECURSIVE LCP(_)
LCP(S) ==  \* longest common prefix of the nibble sequences in S
  LET any == CHOOSE e \in S : TRUE IN
  IF \E e \in S : e[1] = <<>> THEN <<>>
  ELSE IF \A e \in S : e[1][1] = any[1][1]
       THEN <<any[1][1]>> \o LCP({<<Tail(e[1]), e[2]>> : e \in S})
       ELSE <<>>

Drop(s, n) == SubSeq(s, n + 1, Len(s))

RECURSIVE Build(_)
Build(S) ==
  LET path == LCP(S)
      here == {e \in S : e[1] = path}
      rest == {<<Drop(e[1], Len(path)), e[2]>> : e \in S \ here}
      firsts == {e[1][1] : e \in rest}
      order == SetToSortSeq(firsts, LAMBDA a, b : a < b)
  IN [path |-> path,
      hasval |-> here # {},
      val |-> IF here # {} THEN (CHOOSE e \in here : TRUE)[2] ELSE 0,
      kids |-> [i \in 1..Len(order) |->
                  <<order[i], Build({<<Tail(e[1]), e[2]>> : e \in {x \in rest : x[1][1] = order[i]}})>>]]

Pairs(m) == {<<Nibbles(k), m[k]>> : k \in DOMAIN m}

IsEmptyMap(m) == DOMAIN m = {}

Canon(m) == Build(Pairs(m))   \* only for non-empty m

-----------------------------------------------------------------------------
(* Contents of a tree (inverse of Canon), for the refinement check *)
RECURSIVE TreePairs(_, _)
TreePairs(n, prefix) ==
  LET p == prefix \o n.path IN
  (IF n.hasval THEN {<<p, n.val>>} ELSE {})
  \cup UNION {TreePairs(n.kids[i][2], p \o <<n.kids[i][1]>>) : i \in 1..Len(n.kids)}

RECURSIVE WellFormed(_, _)
WellFormed(n, isRoot) ==
  /\ (n.hasval \/ Len(n.kids) >= 2 \/ (isRoot /\ Len(n.kids) # 1))
  /\ \A i \in 1..Len(n.kids) : WellFormed(n.kids[i][2], FALSE)
  /\ \A i \in 1..(Len(n.kids) - 1) : n.kids[i][1] < n.kids[i + 1][1]

-----------------------------------------------------------------------------
(* Merkle term *)
ValueBytesParts(c) == IF ValLen(c) = 0 THEN <<>> ELSE << <<"r", ValByte(c), ValLen(c)>> >>

(* hash of a value: H(len as u64 big-endian ++ bytes) *)
ValueHashTerm(c) == << <<"b", U64BE(ValLen(c))>> >> \o ValueBytesParts(c)

RECURSIVE NodeTerm(_)
NodeTerm(n) ==
  (IF n.hasval THEN << <<"b", <<1>> >>, <<"h", ValueHashTerm(n.val)>> >> ELSE << <<"b", <<0>> >> >>)
  \o << <<"b", U64LE(Len(n.path))>>, <<"b", PackNibbles(n.path)>> >>
  \o << <<"h", << <<"b", U16BE(Len(n.kids))>> >>
              \o FlattenSeq([i \in 1..Len(n.kids) |->
                    << <<"b", <<n.kids[i][1]>> >>, <<"h", NodeTerm(n.kids[i][2])>> >>]) >> >>

EmptyStateBytes ==  \* "empty contract state"
  <<101, 109, 112, 116, 121, 32, 99, 111, 110, 116, 114, 97, 99, 116, 32, 115, 116, 97, 116, 101>>

(* the state hash is the SHA-256 of this term *)
HashTerm(m) == IF IsEmptyMap(m) THEN << <<"b", EmptyStateBytes>> >> ELSE NodeTerm(Canon(m))

-----------------------------------------------------------------------------
(* Serialisation layout: nodes in breadth-first order.  Each node: distance back to its parent
   (u32 BE, 0 for the root), node hash, tag byte (bit 7: long stem, bit 6: has value, low 6 bits:
   stem length if <= 63), [u32 BE stem length if long], packed stem, [u32 BE value length,
   [value hash if length > 64], value bytes], number of children (u8), child nibbles. *)

Tag(n) == (IF Len(n.path) <= INLINE_STEM_LENGTH THEN Len(n.path) ELSE 128) + (IF n.hasval THEN 64 ELSE 0)

NodeSer(n, back) ==
  << <<"b", U32BE(back)>>, <<"h", NodeTerm(n)>>, <<"b", <<Tag(n)>> >> >>
  \o (IF Len(n.path) > INLINE_STEM_LENGTH THEN << <<"b", U32BE(Len(n.path))>> >> ELSE <<>>)
  \o << <<"b", PackNibbles(n.path)>> >>
  \o (IF n.hasval
      THEN << <<"b", U32BE(ValLen(n.val))>> >>
           \o (IF ValLen(n.val) > INLINE_VALUE_LEN THEN << <<"h", ValueHashTerm(n.val)>> >> ELSE <<>>)
           \o ValueBytesParts(n.val)
      ELSE <<>>)
  \o << <<"b", <<Len(n.kids)>> >>, <<"b", [i \in 1..Len(n.kids) |-> n.kids[i][1]]>> >>

(* BFS: queue of <<node, index of parent>>; counter = index of the node being written *)
RECURSIVE SerBFS(_, _)
SerBFS(queue, counter) ==
  IF queue = <<>> THEN <<>>
  ELSE LET n == queue[1][1]
           pidx == queue[1][2]
       IN NodeSer(n, counter - pidx)
          \o SerBFS(Tail(queue) \o [i \in 1..Len(n.kids) |-> <<n.kids[i][2], counter>>], counter + 1)

SerTerm(m) ==
  IF IsEmptyMap(m) THEN << <<"b", <<0>> >> >>
  ELSE << <<"b", <<1>> >> >> \o SerBFS(<< <<Canon(m), 0>> >>, 0)

=============================================================================
