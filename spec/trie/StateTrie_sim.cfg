SPECIFICATION Spec
CONSTANTS
  Keys <- KeysFull
  Prefs <- PrefFull
  Vals = {0, 1, 2, 3}
  MaxGens = 3
  MaxIters = 3
  PersistModes <- ModesAll
  KeepHist = TRUE
  MaxOps = 40
CONSTRAINT Bound
INVARIANTS TypeOK LiveHandlesPresent HandleUnique IterSnapshot IterWithinSnapshot ExportDone
CHECK_DEADLOCK FALSE
