---------------------------- MODULE MC_StateTrie ----------------------------
(* Model-checking instance of StateTrie: constants, bounds, behaviour export. *)
EXTENDS StateTrie, Json, IOUtils

CONSTANTS MaxOps

\* keys chosen for the implementation's case analysis: empty key, keys that are prefixes of
\* each other, keys that differ in the high (16) or low (1) nibble of a byte
KeysSmall == {<<>>, <<0>>, <<0, 0>>, <<0, 1>>, <<0, 16>>}
KeysFull  == {<<>>, <<0>>, <<1>>, <<16>>, <<0, 0>>, <<0, 1>>, <<0, 16>>}
PrefSmall == {<<>>, <<0>>, <<0, 0>>, <<1>>}
PrefFull  == {<<>>, <<0>>, <<1>>, <<0, 0>>, <<0, 1>>, <<16>>}
ModesAll  == {"plain", "store_reload", "serialize", "cache", "migrate"}
ModesOne  == {"plain"}

Bound == Len(hist) <= MaxOps
BoundC == Len(hist) < MaxOps

\* one replay line per transition of the (VIEW-reduced) state graph
ExportEdge == PrintT(<<"REPLAY", ToJson(hist')>>)
\* one replay line per behaviour (simulation mode)
ExportDone == (Len(hist) = MaxOps) => PrintT(<<"REPLAY", ToJson(hist)>>)
=============================================================================
