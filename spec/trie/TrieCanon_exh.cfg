SPECIFICATION Spec
CONSTANTS
  CKeys <- CKeysFull
  CVals = {0, 3}
INVARIANTS Refines
CHECK_DEADLOCK FALSE
