---------------------------- MODULE MC_TrieCanon ----------------------------
(* Exhaustive check of the canonical-tree construction over all maps of a small key universe,
   and export of (map, hash term, serialisation term) vectors. *)
EXTENDS TrieCanon, Json

CONSTANTS CKeys, CVals

VARIABLE m

CKeysFull == {<<>>, <<0>>, <<1>>, <<16>>, <<0, 0>>, <<0, 1>>, <<0, 16>>}
CKeysDeep == {<<>>, <<0>>, <<0, 0>>, <<0, 0, 0>>, <<0, 0, 1>>, <<0, 16>>, <<255>>, <<255, 255, 255, 255>>}

AllMaps == UNION {[D -> CVals] : D \in SUBSET CKeys}

RECURSIVE LexLess(_, _)
LexLess(a, b) ==
  IF a = <<>> THEN b # <<>>
  ELSE IF b = <<>> THEN FALSE
  ELSE IF a[1] < b[1] THEN TRUE
  ELSE IF a[1] > b[1] THEN FALSE
  ELSE LexLess(Tail(a), Tail(b))
MapSeq(mm) == LET ks == SetToSortSeq(DOMAIN mm, LexLess) IN [i \in 1..Len(ks) |-> <<ks[i], mm[ks[i]]>>]

Init == m \in AllMaps
Next == UNCHANGED m
Spec == Init /\ [][Next]_m

(* the canonical tree denotes exactly the map, and is compressed *)
Refines == IsEmptyMap(m) \/ (TreePairs(Canon(m), <<>>) = Pairs(m) /\ WellFormed(Canon(m), TRUE))

Export == PrintT(<<"CANON", ToJson([m |-> MapSeq(m), hash |-> HashTerm(m), ser |-> SerTerm(m)])>>)
=============================================================================
