--------------------------- MODULE StateTrieTrace ---------------------------
(* impl -> spec: validates an ndjson trace recorded from the real trie (harness `trie-record`)
   against StateTrie.  Every event carries the call, its arguments, the value the real code
   returned (r) and the projected contents of the current generation after the call (m); an
   event is accepted iff the corresponding StateTrie action, with the same arguments, is enabled
   and produces exactly that result and those contents. *)
EXTENDS StateTrie, Json, IOUtils, TLCExt

Rec == ndJsonDeserialize(IOEnv.TRACE)

VARIABLE l

Ev == Rec[l]
LastRec == hist'[Len(hist')]

Reset ==
  /\ persist' = EmptyMap
  /\ gens' = <<EmptyMap>>
  /\ ent' = [e \in {} |-> 0]
  /\ iters' = [e \in {} |-> 0]
  /\ hist' = <<[a |-> "reset", r |-> <<"ok">>, m |-> <<>>]>>

RetId(pos) == IF Len(Ev.r) >= pos THEN Ev.r[pos] ELSE 0

Step ==
  \/ Ev.a = "reset" /\ Reset
  \/ Ev.a = "insert" /\ Insert(Ev.k, Ev.v, RetId(2))
  \/ Ev.a = "get" /\ GetEntry(Ev.k, RetId(2))
  \/ Ev.a = "read" /\ Read(Ev.e)
  \/ Ev.a \in {"set", "getmut"} /\ Write(Ev.e, Ev.v, Ev.a)
  \/ Ev.a = "delete" /\ Delete(Ev.k)
  \/ Ev.a = "delprefix" /\ DeletePrefix(Ev.k)
  \/ Ev.a = "iter" /\ Iter(Ev.k, RetId(2))
  \/ Ev.a = "next" /\ NextKey(Ev.i, RetId(2))
  \/ Ev.a = "deliter" /\ DeleteIter(Ev.i)
  \/ Ev.a = "newgen" /\ NewGen
  \/ Ev.a = "normalize" /\ Normalize(Ev.g)
  \/ Ev.a = "freeze" /\ FreezeThaw(Ev.mode)

TraceInit == Init /\ l = 1

TraceNext ==
  /\ l <= Len(Rec)
  /\ l' = l + 1
  /\ Step
  /\ nextId' = nextId
  /\ LastRec.r = Ev.r
  /\ LastRec.m = Ev.m

TraceSpec == TraceInit /\ [][TraceNext]_<<vars, l>>

TraceAccepted ==
  LET d == TLCGet("stats").diameter IN
  IF d - 1 = Len(Rec) THEN TRUE
  ELSE Print(<<"TRACE_REJECT", ToJson([line |-> d, event |-> Rec[d]])>>, FALSE)

(* the design invariants are evaluated at every step of every validated trace *)
TraceInv == TypeOK /\ LiveHandlesPresent /\ IterSnapshot /\ IterWithinSnapshot
=============================================================================
