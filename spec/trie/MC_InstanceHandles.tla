------------------------- MODULE MC_InstanceHandles -------------------------
EXTENDS InstanceHandles, Json

CONSTANTS MaxOps

IKeys  == {<<>>, <<0>>, <<0, 0>>, <<0, 16>>, <<1>>}
IPrefs == {<<>>, <<0>>, <<0, 0>>, <<2>>}
ISrcs  == {<<>>, <<7>>, <<8, 9>>}
IOffs  == {0, 1, 3}
ILens  == {0, 1, 4}
ISizes == {0, 1, 3, 1073741825}

IKeys2 == {<<0>>, <<0, 0>>, <<1>>}
IPrefs2 == {<<>>, <<0>>}
ISrcs2 == {<<7>>}
Bound == Len(hist) <= MaxOps
BoundC == Len(hist) < MaxOps
ExportEdge == PrintT(<<"REPLAY", ToJson(hist')>>)
ExportDone == (Len(hist) = MaxOps) => PrintT(<<"REPLAY", ToJson(hist)>>)
=============================================================================
