SPECIFICATION Spec
CONSTANTS
  Keys <- KeysSmall
  Prefs <- PrefSmall
  Vals = {0, 3}
  MaxGens = 2
  MaxIters = 2
  PersistModes <- ModesOne
  KeepHist = TRUE
  MaxOps = 4
VIEW view
CONSTRAINT Bound
ACTION_CONSTRAINT ExportEdge
CHECK_DEADLOCK FALSE
