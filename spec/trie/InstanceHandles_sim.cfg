SPECIFICATION Spec
CONSTANTS
  Keys <- IKeys
  InnerKeys <- IKeys2
  Prefs <- IPrefs
  Srcs <- ISrcs
  Offsets <- IOffs
  Lens <- ILens
  Sizes <- ISizes
  MaxHandles = 6
  KeepHist = TRUE
  MaxOps = 30
CONSTRAINT Bound
INVARIANTS IterSnapshot NoForeignData StaleInvalid ExportDone
CHECK_DEADLOCK FALSE
