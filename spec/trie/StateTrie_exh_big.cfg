SPECIFICATION Spec
CONSTANTS
  Keys <- KeysFull
  Prefs <- PrefFull
  Vals = {0, 3}
  MaxGens = 3
  MaxIters = 2
  PersistModes <- ModesOne
  KeepHist = TRUE
  MaxOps = 5
VIEW view
CONSTRAINT BoundC
INVARIANTS TypeOK LiveHandlesPresent HandleUnique IterSnapshot IterWithinSnapshot
PROPERTIES NoLeak RefusalIsNoop
CHECK_DEADLOCK FALSE
