--------------------------- MODULE ContractsCommon ---------------------------
(***************************************************************************)
(* Contract-side binary encoding (C16): little-endian integers, u32 length *)
(* prefixes for collections and strings, u16 for names and parameters,      *)
(* one-byte tags for bool / Option / Address, fixed-size arrays and tuples   *)
(* by concatenation.  Ordered collections read with the order-checking       *)
(* readers reject duplicate and unordered input; the default BTreeSet /      *)
(* BTreeMap readers are documented to reject duplicates only.                *)
(* Terms: <<"b", bytes>>, <<"r", byte, n>>, <<"le64", hi, lo>> (hi, lo < 2^31;  *)
(* value = hi * 2^32 + lo), <<"le32", n>>, <<"le16", n>>.                     *)
(***************************************************************************)
EXTENDS Naturals, Integers, Sequences, FiniteSets, TLC, Json

B(bs) == <<"b", bs>>
R(b, n) == <<"r", b, n>>
L64(n) == <<"le64", 0, n>>
L64hl(h, l) == <<"le64", h, l>>
L32(n) == <<"le32", n>>
L16(n) == <<"le16", n>>
U8(n) == <<"b", <<n>> >>
NoFields == [x \in {} |-> 0]
Vec(ty, bytes, expect, class, json) == [ty |-> ty, bytes |-> bytes, expect |-> expect, class |-> class, json |-> json]
Str(chars) == [i \in 1..Len(chars) |-> chars[i]]
INIT == <<105, 110, 105, 116, 95>>     \* "init_"

AllVectors ==
  { Vec("u8", << U8(n) >>, "accept", "canonical", n) : n \in {0, 1, 255} }
  \cup { Vec("u16", << L16(n) >>, "accept", "canonical", n) : n \in {0, 1, 256, 65535} }
  \cup { Vec("u32", << L32(n) >>, "accept", "canonical", n) : n \in {0, 1, 65536, 2147483647} }
  \cup { Vec("u64", << L64(n) >>, "accept", "canonical", n) : n \in {0, 1, 2147483647} }
  \cup { Vec("i8", << U8(255) >>, "accept", "canonical", -1), Vec("i8", << U8(128) >>, "accept", "canonical", -128),
         Vec("i16", << L16(65535) >>, "accept", "canonical", -1), Vec("i16", << L16(32768) >>, "accept", "canonical", -32768),
         Vec("i32", << B(<<255, 255, 255, 255>>) >>, "accept", "canonical", -1), Vec("i32", << B(<<0, 0, 0, 128>>) >>, "accept", "canonical", -2147483647 - 1),
         Vec("i64", << R(255, 8) >>, "accept", "canonical", -1) }
  \cup { Vec("bool", << U8(0) >>, "accept", "canonical", FALSE), Vec("bool", << U8(1) >>, "accept", "canonical", TRUE) }
  \cup { Vec("bool", << U8(n) >>, "reject", "undefined tag", 0) : n \in {2, 255} }
  \cup { Vec("OptionU16", << U8(0) >>, "accept", "canonical", "null"), Vec("OptionU16", << U8(1), L16(513) >>, "accept", "canonical", 513),
         Vec("OptionU16", << U8(2), L16(1) >>, "reject", "undefined tag", 0), Vec("OptionU16", << U8(1), U8(1) >>, "reject", "truncated", 0) }
  \cup { Vec("TupleU8U16", << U8(7), L16(258) >>, "accept", "canonical", <<7, 258>>),
         Vec("ArrayU8x4", << B(<<1, 2, 3, 4>>) >>, "accept", "canonical", <<1, 2, 3, 4>>),
         Vec("ArrayU8x4", << B(<<1, 2, 3>>) >>, "reject", "truncated", 0) }
  \cup { Vec("VecU16", << L32(0) >>, "accept", "canonical", <<>>), Vec("VecU16", << L32(2), L16(1), L16(65535) >>, "accept", "canonical", <<1, 65535>>),
         Vec("VecU16", << L32(3), L16(1), L16(2) >>, "reject", "count larger than content", 0),
         Vec("VecU16", << B(<<255, 255, 255, 255>>), L16(1) >>, "reject", "hostile length", 0) }
  \cup { Vec("String", << L32(2), B(<<104, 105>>) >>, "accept", "canonical", "hi"), Vec("String", << L32(0) >>, "accept", "canonical", ""),
         Vec("String", << L32(2), B(<<195, 40>>) >>, "reject", "invalid UTF-8", 0),
         Vec("String", << B(<<255, 255, 255, 127>>), B(<<104>>) >>, "reject", "hostile length", 0) }
  \cup { Vec("SetU8", << L32(3), B(<<1, 2, 9>>) >>, "accept", "canonical", <<1, 2, 9>>),
         Vec("SetU8", << L32(2), B(<<5, 5>>) >>, "reject", "duplicate element", 0),
         Vec("SetU8", << L32(2), B(<<9, 1>>) >>, "any", "unordered (default reader is documented not to check order)", 0),
         Vec("SetU8Ordered", << L32(3), B(<<1, 2, 9>>) >>, "accept", "canonical", <<1, 2, 9>>),
         Vec("SetU8Ordered", << L32(2), B(<<5, 5>>) >>, "reject", "duplicate element", 0),
         Vec("SetU8Ordered", << L32(2), B(<<9, 1>>) >>, "reject", "unordered", 0),
         Vec("SetU8Ordered", << L32(3), B(<<1, 9, 2>>) >>, "reject", "unordered", 0) }
  \cup { Vec("MapU8U16", << L32(2), U8(1), L16(10), U8(2), L16(20) >>, "accept", "canonical", << <<1, 10>>, <<2, 20>> >>),
         Vec("MapU8U16", << L32(2), U8(1), L16(10), U8(1), L16(20) >>, "reject", "duplicate key", 0),
         Vec("MapU8U16", << L32(2), U8(2), L16(10), U8(1), L16(20) >>, "any", "unordered (default reader is documented not to check order)", 0),
         Vec("MapU8U16Ordered", << L32(2), U8(1), L16(10), U8(2), L16(20) >>, "accept", "canonical", << <<1, 10>>, <<2, 20>> >>),
         Vec("MapU8U16Ordered", << L32(2), U8(1), L16(10), U8(1), L16(20) >>, "reject", "duplicate key", 0),
         Vec("MapU8U16Ordered", << L32(2), U8(2), L16(10), U8(1), L16(20) >>, "reject", "unordered", 0) }
  \cup { Vec("ContractAddress", << L64(5), L64(0) >>, "accept", "canonical", [index |-> 5, subindex |-> 0]),
         Vec("ContractAddress", << L64hl(1, 2), L64hl(2147483647, 2147483647) >>, "accept", "canonical", 0),
         Vec("Address", << U8(0), R(3, 32) >>, "accept", "canonical", 0),
         Vec("Address", << U8(1), L64(5), L64(7) >>, "accept", "canonical", 0),
         Vec("Address", << U8(2), R(3, 32) >>, "reject", "undefined tag", 0),
         Vec("Address", << U8(0), R(3, 31) >>, "reject", "truncated", 0),
         Vec("Amount", << L64(1500000) >>, "accept", "canonical", "1500000"),
         Vec("Timestamp", << L64(1000) >>, "accept", "canonical", "1970-01-01T00:00:01+00:00"),
         Vec("Duration", << L64(90061001) >>, "accept", "canonical", "1d 1h 1m 1s 1ms"),
         Vec("ExchangeRate", << L64(1), L64(2) >>, "accept", "canonical", [numerator |-> 1, denominator |-> 2]),
         Vec("ExchangeRate", << L64(0), L64(2) >>, "reject", "zero numerator", 0),
         Vec("ExchangeRate", << L64(1), L64(0) >>, "reject", "zero denominator", 0),
         Vec("ExchangeRate", << L64(2), L64(4) >>, "any", "not in lowest terms", 0) }
  \cup { Vec("OwnedContractName", << L16(6), B(INIT \o <<97>>) >>, "accept", "canonical", "init_a"),
         Vec("OwnedContractName", << L16(5), B(INIT) >>, "accept", "canonical", "init_"),
         Vec("OwnedContractName", << L16(100), B(INIT), R(97, 95) >>, "accept", "canonical", 0),
         Vec("OwnedContractName", << L16(101), B(INIT), R(97, 96) >>, "reject", "name longer than 100", 0),
         Vec("OwnedContractName", << L16(7), B(INIT \o <<97, 46>>) >>, "reject", "contract name with a dot", 0),
         Vec("OwnedContractName", << L16(6), B(<<73, 110, 105, 116, 95, 97>>) >>, "reject", "missing init_ prefix", 0),
         Vec("OwnedContractName", << L16(6), B(INIT \o <<32>>) >>, "reject", "space in name", 0),
         Vec("OwnedContractName", << L16(7), B(INIT \o <<195, 169>>) >>, "reject", "non-ASCII in name", 0),
         Vec("OwnedReceiveName", << L16(3), B(<<97, 46, 98>>) >>, "accept", "canonical", "a.b"),
         Vec("OwnedReceiveName", << L16(2), B(<<97, 98>>) >>, "reject", "receive name without a dot", 0),
         Vec("OwnedReceiveName", << L16(100), B(<<97, 46>>), R(98, 98) >>, "accept", "canonical", 0),
         Vec("OwnedReceiveName", << L16(101), B(<<97, 46>>), R(98, 99) >>, "reject", "name longer than 100", 0),
         Vec("OwnedEntrypointName", << L16(99), R(98, 99) >>, "accept", "canonical", 0),
         Vec("OwnedEntrypointName", << L16(100), R(98, 100) >>, "reject", "entrypoint name of 100 bytes", 0),
         Vec("OwnedEntrypointName", << L16(0) >>, "accept", "canonical", ""),
         Vec("OwnedParameter", << L16(3), B(<<1, 2, 3>>) >>, "accept", "canonical", 0),
         Vec("OwnedParameter", << L16(65535), B(<<1, 2, 3>>) >>, "reject", "hostile length", 0),
         Vec("OwnedParameter", << L16(0) >>, "accept", "canonical", 0),
         \* attribute values: one length byte (at most 31) and that many bytes - also none at all
         Vec("AttributeValue", << U8(0) >>, "accept", "canonical", 0),
         Vec("AttributeValue", << U8(1), U8(7) >>, "accept", "canonical", 0),
         Vec("AttributeValue", << U8(31), R(9, 31) >>, "accept", "canonical", 0),
         Vec("AttributeValue", << U8(32), R(9, 32) >>, "reject", "attribute value of 32 bytes", 0),
         Vec("AttributeValue", << U8(255), R(9, 31) >>, "reject", "attribute value of 255 bytes", 0),
         Vec("AttributeValue", << U8(5), R(9, 4) >>, "reject", "truncated", 0),
         \* policies: identity provider u32, created_at and valid_to u64, u16 count of (tag, attribute value)
         Vec("OwnedPolicy", << L32(3), L64(1000), L64(2000), L16(0) >>, "accept", "canonical", 0),
         Vec("OwnedPolicy", << L32(3), L64(1000), L64(2000), L16(1), U8(4), U8(0) >>, "accept", "canonical", 0),
         Vec("OwnedPolicy", << L32(0), L64(0), L64hl(2147483647, 5), L16(2), U8(0), U8(2), B(<<68, 75>>), U8(255), U8(31), R(1, 31) >> , "accept", "canonical", 0),
         Vec("OwnedPolicy", << L32(3), L64(1000), L64(2000), L16(2), U8(4), U8(0) >>, "reject", "fewer items than declared", 0),
         Vec("OwnedPolicy", << L32(3), L64(1000), L64(2000), L16(1), U8(4), U8(32), R(1, 32) >>, "reject", "attribute value of 32 bytes", 0),
         Vec("OwnedPolicy", << L32(3), L64(1000), L64(2000), L16(65535), U8(4), U8(0) >>, "reject", "hostile length", 0),
         \* empty fixed-size arrays, strings and collections consume nothing / only their prefix
         Vec("ArrayU8x0", << R(0, 0) >>, "accept", "canonical", 0),
         Vec("String", << L32(0) >>, "accept", "canonical", ""),
         Vec("VecU16", << L32(0) >>, "accept", "canonical", <<>>) }

VARIABLE vec
CInit == vec \in AllVectors
CSpec == CInit /\ [][UNCHANGED vec]_vec
Canonical(ty) == {v \in AllVectors : v.ty = ty /\ v.expect = "accept"}
NearMissDistinct == vec.expect = "reject" => \A c \in Canonical(vec.ty) : c.bytes # vec.bytes
CExport == PrintT(<<"REPLAY", ToJson(vec)>>)
=============================================================================
