SPECIFICATION TSpec
INVARIANTS Sane TExport
CHECK_DEADLOCK FALSE
