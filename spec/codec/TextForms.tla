------------------------------ MODULE TextForms ------------------------------
(***************************************************************************)
(* Textual forms and validators of the contract-side basic types (C16),    *)
(* from their documentation: Amount "n[.m]" in CCD, contract / receive /    *)
(* entrypoint names, contract addresses "<index,subindex>", durations       *)
(* "<n>d <n>h <n>m <n>s <n>ms", timestamps (RFC 3339 <-> milliseconds), and  *)
(* checked arithmetic that reports overflow.                                 *)
(* Strings are sequences of one-character strings.  64-bit quantities are    *)
(* pairs or symbolic values so that TLC's 32-bit integers suffice:           *)
(*   amounts     <<ccd, micro>>         value = ccd * 10^6 + micro            *)
(*   timestamps  <<days, msOfDay>>      value = days * 86400000 + msOfDay     *)
(*   u64 values  <<"n", k>> = k   or   <<"max", k>> = 2^64 - 1 - k            *)
(***************************************************************************)
EXTENDS Naturals, Integers, Sequences, FiniteSets, TLC, Json

Digits == {"0", "1", "2", "3", "4", "5", "6", "7", "8", "9"}
DigitVal(c) == CASE c = "0" -> 0 [] c = "1" -> 1 [] c = "2" -> 2 [] c = "3" -> 3 [] c = "4" -> 4
                 [] c = "5" -> 5 [] c = "6" -> 6 [] c = "7" -> 7 [] c = "8" -> 8 [] c = "9" -> 9
IsDigits(s) == \A i \in 1..Len(s) : s[i] \in Digits
RECURSIVE NumVal(_)
NumVal(s) == IF s = <<>> THEN 0 ELSE NumVal(SubSeq(s, 1, Len(s) - 1)) * 10 + DigitVal(s[Len(s)])
Pow10(k) == CASE k = 0 -> 1 [] k = 1 -> 10 [] k = 2 -> 100 [] k = 3 -> 1000 [] k = 4 -> 10000 [] k = 5 -> 100000 [] k = 6 -> 1000000

IndexOf(s, c) == IF \E i \in 1..Len(s) : s[i] = c THEN CHOOSE i \in 1..Len(s) : s[i] = c /\ \A j \in 1..(i - 1) : s[j] # c ELSE 0

-----------------------------------------------------------------------------
(* Amount: n[.m]; n has no leading zero unless it is "0"; m has 1..6 digits *)
AmountParse(s) ==
  LET d == IndexOf(s, ".")
      n == IF d = 0 THEN s ELSE SubSeq(s, 1, d - 1)
      m == IF d = 0 THEN <<>> ELSE SubSeq(s, d + 1, Len(s))
      nOk == n # <<>> /\ IsDigits(n) /\ (n[1] = "0" => Len(n) = 1)
      mOk == d = 0 \/ (Len(m) >= 1 /\ Len(m) <= 6 /\ IsDigits(m))
  IN IF nOk /\ mOk THEN [ok |-> TRUE, ccd |-> NumVal(n), micro |-> NumVal(m) * Pow10(6 - Len(m))]
     ELSE [ok |-> FALSE, ccd |-> 0, micro |-> 0]

AmountAlphabet == {"0", "1", "9", ".", "a"}

-----------------------------------------------------------------------------
(* Names: ASCII alphanumeric or punctuation only; contract names start with init_ and contain no '.';
   receive names contain a '.'; at most 100 bytes (entrypoint names: fewer than 100).
   A name is given as a sequence of characters followed by `pad` times "a". *)
AsciiOk(c) == c \notin {" ", "NONASCII", "TAB"}   \* tokens: the harness substitutes a non-ASCII letter and a tab
NameLen(body, pad) == Len(body) + pad      \* only ASCII characters are padded or counted below the limit
ContractNameOk(body, pad) ==
  /\ Len(body) >= 5 /\ SubSeq(body, 1, 5) = <<"i", "n", "i", "t", "_">>
  /\ NameLen(body, pad) <= 100
  /\ \A i \in 1..Len(body) : body[i] # "." /\ AsciiOk(body[i])
ReceiveNameOk(body, pad) ==
  /\ \E i \in 1..Len(body) : body[i] = "."
  /\ NameLen(body, pad) <= 100
  /\ \A i \in 1..Len(body) : AsciiOk(body[i])
EntrypointOk(body, pad) ==
  /\ NameLen(body, pad) < 100
  /\ \A i \in 1..Len(body) : AsciiOk(body[i])

-----------------------------------------------------------------------------
(* Civil date from days since 1970-01-01 (proleptic Gregorian calendar) *)
CivilFromDays(z0) ==
  LET z == z0 + 719468
      era == z \div 146097
      doe == z - era * 146097
      yoe == (doe - doe \div 1460 + doe \div 36524 - doe \div 146096) \div 365
      y == yoe + era * 400
      doy == doe - (365 * yoe + yoe \div 4 - yoe \div 100)
      mp == (5 * doy + 2) \div 153
      d == doy - (153 * mp + 2) \div 5 + 1
      m == IF mp < 10 THEN mp + 3 ELSE mp - 9
  IN [y |-> IF m <= 2 THEN y + 1 ELSE y, m |-> m, d |-> d]

Rfc3339Parts(days, ms) ==
  LET c == CivilFromDays(days) IN
  [y |-> c.y, mo |-> c.m, d |-> c.d, h |-> ms \div 3600000, mi |-> (ms \div 60000) % 60, s |-> (ms \div 1000) % 60, ms |-> ms % 1000]

-----------------------------------------------------------------------------
(* symbolic u64 arithmetic: <<"n", k>> = k (k < 2^31), <<"max", k>> = 2^64 - 1 - k *)
SymAdd(a, b) ==   \* checked_add
  IF a[1] = "n" /\ b[1] = "n" THEN (IF a[2] + b[2] < 2147483647 THEN <<"n", a[2] + b[2]>> ELSE <<"skip">>)
  ELSE IF a[1] = "max" /\ b[1] = "max" THEN <<"none">>
  ELSE LET m == IF a[1] = "max" THEN a[2] ELSE b[2]
           n == IF a[1] = "n" THEN a[2] ELSE b[2]
       IN IF n > m THEN <<"none">> ELSE <<"max", m - n>>
SymSub(a, b) ==   \* checked_sub a - b
  IF a[1] = "n" /\ b[1] = "n" THEN (IF a[2] >= b[2] THEN <<"n", a[2] - b[2]>> ELSE <<"none">>)
  ELSE IF a[1] = "n" /\ b[1] = "max" THEN <<"none">>
  ELSE IF a[1] = "max" /\ b[1] = "n" THEN (IF a[2] + b[2] < 2147483647 THEN <<"max", a[2] + b[2]>> ELSE <<"skip">>)
  ELSE (IF b[2] >= a[2] THEN <<"n", b[2] - a[2]>> ELSE <<"none">>)   \* (MAX-a2) - (MAX-b2) = b2 - a2
SymVals == {<<"n", 0>>, <<"n", 1>>, <<"n", 2>>, <<"n", 1000000>>, <<"max", 0>>, <<"max", 1>>, <<"max", 2>>, <<"max", 1000000>>}

-----------------------------------------------------------------------------
VARIABLE vec
TVec(kind, rec) == [kind |-> kind] @@ rec

AmountStrings == UNION {[1..n -> AmountAlphabet] : n \in 0..5}
NameBodies ==
  { <<"i", "n", "i", "t", "_">>, <<"i", "n", "i", "t", "_", "a">>, <<"i", "n", "i", "t", "_", "a", ".", "b">>, <<"i", "n", "i", "t", "_", "a", " ">>,
    <<"i", "n", "i", "t", "_", "NONASCII">>, <<"I", "n", "i", "t", "_", "a">>, <<"i", "n", "i", "t">>, <<"a", ".", "b">>, <<"a", "b">>, <<".">>, <<>>,
    <<"a", ".", "b", ".", "c">>, <<"a", ".", " ">>, <<"_", "-", "!", "~">>, <<"a", ".", "NONASCII">>, <<"a", ".", "TAB">> }
Pads == {0, 1, 91, 92, 93, 94, 95, 96, 97, 98, 99, 100, 101}
DayVals == {0, 1, 58, 59, 365, 10957, 11016, 11017, 19675, 2932896, 2932897, 3652059}
MsVals == {0, 1, 999, 1000, 86399999, 43200123}

AllVecs ==
  { TVec("amount", [s |-> s, ok |-> AmountParse(s).ok, ccd |-> AmountParse(s).ccd, micro |-> AmountParse(s).micro]) : s \in AmountStrings }
  \cup { TVec("contract_name", [body |-> b, pad |-> p, ok |-> ContractNameOk(b, p)]) : b \in NameBodies, p \in Pads }
  \cup { TVec("receive_name", [body |-> b, pad |-> p, ok |-> ReceiveNameOk(b, p)]) : b \in NameBodies, p \in Pads }
  \cup { TVec("entrypoint_name", [body |-> b, pad |-> p, ok |-> EntrypointOk(b, p)]) : b \in NameBodies, p \in Pads }
  \cup { TVec("timestamp", [days |-> d, ms |-> m, parts |-> Rfc3339Parts(d, m)]) : d \in DayVals, m \in MsVals }
  \cup { TVec("timestamp_sym", [v |-> v]) : v \in {<<"max", 0>>, <<"max", 5>>, <<"p63", 0>>, <<"p63", 1>>, <<"p63m", 1>>} }
  \cup { TVec("contract_address", [i |-> i, sub |-> j]) : i \in SymVals, j \in {<<"n", 0>>, <<"max", 0>>} }
  \cup { TVec("checked_add", [a |-> a, b |-> b, r |-> SymAdd(a, b)]) : a \in SymVals, b \in SymVals }
  \cup { TVec("checked_sub", [a |-> a, b |-> b, r |-> SymSub(a, b)]) : a \in SymVals, b \in SymVals }

TInit == vec \in AllVecs
TSpec == TInit /\ [][UNCHANGED vec]_vec

(* design facts: the canonical print of an amount parses back; the date algorithm inverts on its boundary cases *)
PrintAmount(ccd, micro) == [ccd |-> ccd, micro |-> micro]
Sane ==
  /\ vec.kind = "amount" /\ vec.ok => vec.micro < 1000000
  /\ vec.kind = "timestamp" => /\ vec.parts.mo \in 1..12 /\ vec.parts.d \in 1..31 /\ vec.parts.h \in 0..23
                               /\ (vec.days = 0 => vec.parts.y = 1970 /\ vec.parts.mo = 1 /\ vec.parts.d = 1)
                               /\ (vec.days = 11016 => vec.parts.y = 2000 /\ vec.parts.mo = 2 /\ vec.parts.d = 29)
                               /\ (vec.days = 2932896 => vec.parts.y = 9999 /\ vec.parts.mo = 12 /\ vec.parts.d = 31)
                               /\ (vec.days = 2932897 => vec.parts.y = 10000 /\ vec.parts.mo = 1 /\ vec.parts.d = 1)
TExport == PrintT(<<"REPLAY", ToJson(vec)>>)
=============================================================================
