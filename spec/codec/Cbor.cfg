SPECIFICATION BSpec
INVARIANTS NearMissDistinct BExport
CHECK_DEADLOCK FALSE
