SPECIFICATION SSpec
INVARIANTS SExport
CHECK_DEADLOCK FALSE
