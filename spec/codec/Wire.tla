--------------------------------- MODULE Wire ---------------------------------
(***************************************************************************)
(* Independent statement of the on-chain binary wire formats of a set of   *)
(* composite types (C05), written from the protocol documentation          *)
(* (big-endian integers, length-prefixed sequences, maps and sets with     *)
(* STRICTLY INCREASING keys, feature bitmaps with defined bits only), and  *)
(* the near-miss inputs a canonical decoder must reject.                    *)
(*                                                                         *)
(* Byte strings are terms: <<"b", bytes>>, <<"r", byte, n>>, <<"u64", hi, lo>>, *)
(* <<"u32", n>>, <<"u16", n>>.  A vector is                                  *)
(*   [ty, bytes, expect ("accept" | "reject" | "any"), class, fields]       *)
(* fields: decoded value (serde form) at the given paths must equal these.  *)
(* "any": no verdict is predicted; if the decoder accepts, re-encoding must  *)
(* reproduce the consumed bytes (one accepted encoding per value).           *)
(***************************************************************************)
EXTENDS Naturals, Integers, Sequences, FiniteSets, TLC, Json

B(bs) == <<"b", bs>>
R(b, n) == <<"r", b, n>>
U64(n) == <<"u64", 0, n>>
U64hl(h, l) == <<"u64", h, l>>
U32(n) == <<"u32", n>>
U16(n) == <<"u16", n>>
U8(n) == <<"b", <<n>> >>
Addr(b) == R(b, 32)
NoFields == [x \in {} |-> 0]
Vec(ty, bytes, expect, class, fields) == [ty |-> ty, bytes |-> bytes, expect |-> expect, class |-> class, fields |-> fields]
Flat(seqs) == LET RECURSIVE go(_) go(s) == IF s = <<>> THEN <<>> ELSE s[1] \o go(Tail(s)) IN go(seqs)

-----------------------------------------------------------------------------
(* TransactionHeader: sender(32) nonce(u64) energy(u64) payload size(u32) expiry(u64) *)
HeaderBytes(n, e, ps, ex) == << Addr(3), U64(n), U64(e), U32(ps), U64(ex) >>
HeaderVecs ==
  { Vec("TransactionHeader", HeaderBytes(n, e, ps, ex), "accept", "canonical",
        [nonce |-> n, energyAmount |-> e, payloadSize |-> ps, expiry |-> ex])
      : n \in {0, 1, 2147483647}, e \in {0, 501}, ps \in {0, 41, 65536}, ex \in {0, 1700000000} }
  \cup { Vec("TransactionHeader", << Addr(3), U64hl(2147483647, 5), U64(1), U32(2), U64hl(1, 0) >>, "accept", "canonical", NoFields) }

(* TransactionHeaderV1: feature bitmap(u16) header [sponsor(32) iff bit 0] *)
HeaderV1Vecs ==
  { Vec("TransactionHeaderV1", << U16(0) >> \o HeaderBytes(7, 501, 41, 9), "accept", "canonical", [nonce |-> 7, energyAmount |-> 501]),
    Vec("TransactionHeaderV1", << U16(1) >> \o HeaderBytes(7, 501, 41, 9) \o << Addr(4) >>, "accept", "canonical", [nonce |-> 7, expiry |-> 9]),
    Vec("TransactionHeaderV1", << U16(1) >> \o HeaderBytes(7, 501, 41, 9), "reject", "sponsor bit set, sponsor missing", NoFields) }
  \cup { Vec("TransactionHeaderV1", << U16(bm) >> \o HeaderBytes(7, 501, 41, 9) \o << Addr(4) >>, "reject", "undefined feature bit", NoFields)
           : bm \in {2, 3, 4, 256, 32768, 32769, 65535} }

(* TransactionSignature: u8 #creds, then per credential: cred u8, u8 #keys, then per key: key u8, u16 len, sig; indices strictly increasing *)
SigEntry(k, len) == << U8(k), U16(len), R(170, len) >>
CredSigs(c, ks) == << U8(c), U8(Len(ks)) >> \o Flat([i \in 1..Len(ks) |-> SigEntry(ks[i], 64)])
TxSig(creds) == << U8(Len(creds)) >> \o Flat([i \in 1..Len(creds) |-> CredSigs(creds[i][1], creds[i][2])])
TxSigVecs ==
  { Vec("TransactionSignature", TxSig(<< <<0, <<0>> >> >>), "accept", "canonical", NoFields),
    Vec("TransactionSignature", TxSig(<< <<0, <<0, 1>> >>, <<1, <<0>> >> >>), "accept", "canonical", NoFields),
    Vec("TransactionSignature", TxSig(<< <<0, <<0, 255>> >>, <<255, <<3>> >> >>), "accept", "canonical", NoFields),
    Vec("TransactionSignature", TxSig(<< <<1, <<0>> >>, <<0, <<0>> >> >>), "reject", "credentials out of order", NoFields),
    Vec("TransactionSignature", TxSig(<< <<1, <<0>> >>, <<1, <<0>> >> >>), "reject", "duplicate credential", NoFields),
    Vec("TransactionSignature", TxSig(<< <<0, <<1, 0>> >> >>), "reject", "keys out of order", NoFields),
    Vec("TransactionSignature", TxSig(<< <<0, <<2, 2>> >> >>), "reject", "duplicate key", NoFields),
    Vec("TransactionSignature", << U8(2) >> \o CredSigs(0, <<0>>), "reject", "count larger than content", NoFields),
    Vec("TransactionSignature", << U8(1), U8(0), U8(1), U8(0), U16(65535), R(170, 10) >>, "reject", "signature length larger than content", NoFields),
    Vec("TransactionSignature", << U8(0) >>, "any", "no credentials", NoFields),
    Vec("TransactionSignature", << U8(1), U8(0), U8(0) >>, "any", "credential without keys", NoFields) }

(* Payload variants *)
Transfer(to, amt) == << U8(3), Addr(to), U64(amt) >>
Memo(to, n, amt) == << U8(22), Addr(to), U16(n), R(77, n), U64(amt) >>
RegData(n) == << U8(21), U16(n), R(68, n) >>
Sched(to, n) == << U8(19), Addr(to), U8(n) >> \o Flat([i \in 1..n |-> << U64(1000 * i), U64(7) >>])
(* ConfigureBaker: tag 25, u16 bitmap; bit0 capital(u64) bit1 restake(bool) bit2 open-for-delegation(u8 0..2) ... bit8 suspend(bool);
   bits 9..15 are undefined *)
CfgBaker(bm, parts) == << U8(25), U16(bm) >> \o parts
(* ConfigureDelegation: tag 26, u16 bitmap; bit0 capital(u64) bit1 restake(bool) bit2 target(0 | 1 bakerid u64); bits 3..15 undefined *)
CfgDeleg(bm, parts) == << U8(26), U16(bm) >> \o parts
PayloadVecs ==
  { Vec("Payload", Transfer(9, a), "accept", "canonical", [x \in {"transfer.amount"} |-> ToString(a)]) : a \in {0, 1, 123456} }
  \cup { Vec("Payload", Memo(9, n, 5), "accept", "canonical", NoFields) : n \in {0, 1, 255, 256} }
  \cup { Vec("Payload", Memo(9, 257, 5), "any", "memo longer than 256", NoFields) }
  \cup { Vec("Payload", RegData(n), "accept", "canonical", NoFields) : n \in {0, 1, 256} }
  \cup { Vec("Payload", RegData(257), "any", "data longer than 256", NoFields) }
  \cup { Vec("Payload", Sched(9, n), "accept", "canonical", NoFields) : n \in {1, 2, 255} }
  \cup { Vec("Payload", Sched(9, 0), "any", "empty schedule", NoFields) }
  \cup { Vec("Payload", CfgBaker(0, <<>>), "accept", "canonical", NoFields),
         Vec("Payload", CfgBaker(1, << U64(1000) >>), "accept", "canonical", [x \in {"configureBaker.capital"} |-> "1000"]),
         Vec("Payload", CfgBaker(2, << U8(1) >>), "accept", "canonical", [x \in {"configureBaker.restakeEarnings"} |-> TRUE]),
         Vec("Payload", CfgBaker(3, << U64(5), U8(0) >>), "accept", "canonical", NoFields),
         Vec("Payload", CfgBaker(256, << U8(1) >>), "accept", "canonical", [x \in {"configureBaker.suspend"} |-> TRUE]),
         Vec("Payload", CfgBaker(259, << U64(5), U8(0), U8(0) >>), "accept", "canonical", NoFields),
         Vec("Payload", CfgBaker(2, << U8(2) >>), "any", "boolean byte 2", NoFields),
         Vec("Payload", CfgBaker(1, <<>>), "reject", "bit set, field missing", NoFields) }
  \cup { Vec("Payload", CfgBaker(bm, <<>>), "reject", "undefined bitmap bit", NoFields) : bm \in {512, 1024, 32768, 65024} }
  \cup { Vec("Payload", CfgBaker(513, << U64(5) >>), "reject", "undefined bitmap bit", NoFields) }
  \cup { Vec("Payload", CfgDeleg(0, <<>>), "accept", "canonical", NoFields),
         Vec("Payload", CfgDeleg(1, << U64(77) >>), "accept", "canonical", [x \in {"configureDelegation.capital"} |-> "77"]),
         Vec("Payload", CfgDeleg(4, << U8(0) >>), "accept", "canonical", NoFields),
         Vec("Payload", CfgDeleg(4, << U8(1), U64(12) >>), "accept", "canonical", NoFields),
         Vec("Payload", CfgDeleg(7, << U64(1), U8(0), U8(1), U64(12) >>), "accept", "canonical", NoFields),
         Vec("Payload", CfgDeleg(4, << U8(2) >>), "reject", "undefined delegation target tag", NoFields) }
  \cup { Vec("Payload", CfgDeleg(bm, <<>>), "reject", "undefined bitmap bit", NoFields) : bm \in {8, 16, 32768, 65528} }
  \cup { Vec("Payload", << U8(t) >>, "reject", "undefined payload tag", NoFields) : t \in {200, 255} }

(* contract payloads: deploy = tag 0, module version u32 (0 or 1), source u32 length + bytes; init = tag 1, amount u64, module reference 32 bytes,
   init name u16 + "init_..." , parameter u16 + bytes; update = tag 2, amount, contract address (index, subindex u64), receive name u16 + "c.f",
   message u16 + bytes.  Stake payloads: remove baker = tag 5 (nothing), update stake = tag 6 amount, restake = tag 7 boolean, transfer to
   encrypted = tag 17 amount.  Token update = tag 27, token id u8 length (1..128) + characters, operations u32 length + CBOR bytes. *)
InitName == <<105, 110, 105, 116, 95, 99>>       \* init_c
RecvName == <<99, 46, 102>>                      \* c.f
Deploy(v, n) == << U8(0), U32(v), U32(n), R(0, n) >>
InitC(nameBytes, plen) == << U8(1), U64(5), R(7, 32), U16(Len(nameBytes)), B(nameBytes), U16(plen), R(1, plen) >>
UpdateC(nameBytes, plen) == << U8(2), U64(0), U64(3), U64(0), U16(Len(nameBytes)), B(nameBytes), U16(plen), R(1, plen) >>
TokenUpd(idLen, opsLen, present) == << U8(27), U8(idLen), R(65, idLen), U32(opsLen), R(128, present) >>
ContractVecs ==
  { Vec("Payload", Deploy(v, n), "accept", "canonical", NoFields) : v \in {0, 1}, n \in {0, 8} }
  \cup { Vec("Payload", Deploy(2, 8), "reject", "undefined module version", NoFields), Vec("Payload", Deploy(256, 8), "reject", "undefined module version", NoFields),
         Vec("Payload", << U8(0), U32(1), U32(9), R(0, 8) >>, "reject", "truncated", NoFields) }
  \cup { Vec("Payload", InitC(InitName, n), "accept", "canonical", NoFields) : n \in {0, 3, 1024} }
  \cup { Vec("Payload", InitC(RecvName, 0), "reject", "init name without init_ prefix", NoFields),
         Vec("Payload", InitC(InitName \o <<46, 120>>, 0), "reject", "init name with a dot", NoFields) }
  \cup { Vec("Payload", UpdateC(RecvName, n), "accept", "canonical", NoFields) : n \in {0, 3, 1024} }
  \cup { Vec("Payload", UpdateC(<<99, 102>>, 0), "reject", "receive name without a dot", NoFields),
         Vec("Payload", << U8(5) >>, "accept", "canonical", NoFields), Vec("Payload", << U8(6), U64(1000) >>, "accept", "canonical", NoFields),
         Vec("Payload", << U8(7), U8(1) >>, "accept", "canonical", NoFields), Vec("Payload", << U8(7), U8(2) >>, "any", "boolean byte 2", NoFields),
         Vec("Payload", << U8(17), U64(7) >>, "accept", "canonical", NoFields), Vec("Payload", << U8(6), U32(7) >>, "reject", "truncated", NoFields) }
  \cup { Vec("Payload", TokenUpd(n, 1, 1), "accept", "canonical", NoFields) : n \in {1, 3, 128} }
  \cup { Vec("Payload", TokenUpd(0, 1, 1), "reject", "empty token id", NoFields), Vec("Payload", TokenUpd(129, 1, 1), "reject", "token id longer than 128", NoFields),
         Vec("Payload", TokenUpd(3, 5, 4), "reject", "truncated", NoFields),
         Vec("Payload", TokenUpd(3, 2147483647, 4), "reject", "hostile length", NoFields), Vec("Payload", TokenUpd(3, 16777216, 8), "reject", "hostile length", NoFields),
         Vec("Payload", << U8(27), U8(3), B(<<65, 32, 66>>), U32(1), R(128, 1) >>, "reject", "token id with a space", NoFields) }

(* CredentialPublicKeys: u8 #keys, then per key: key index u8, scheme 0, 32-byte key; then threshold u8; indices strictly increasing *)
K1 == <<59, 106, 39, 188, 206, 182, 164, 45, 98, 163, 168, 208, 42, 111, 13, 115, 101, 50, 21, 119, 29, 226, 67, 166, 58, 192, 72, 161, 139, 89, 218, 41>>
K2 == <<215, 90, 152, 1, 130, 177, 10, 183, 213, 75, 254, 211, 201, 100, 7, 58, 14, 225, 114, 243, 218, 166, 35, 37, 175, 2, 26, 104, 247, 7, 81, 26>>
KeyEntry(i, k) == << U8(i), U8(0), B(k) >>
CredKeys(es, thr) == << U8(Len(es)) >> \o Flat(es) \o << U8(thr) >>
CredKeysVecs ==
  { Vec("CredentialPublicKeys", CredKeys(<< KeyEntry(0, K1) >>, 1), "accept", "canonical", [threshold |-> 1]),
    Vec("CredentialPublicKeys", CredKeys(<< KeyEntry(0, K1), KeyEntry(1, K2) >>, 2), "accept", "canonical", [threshold |-> 2]),
    Vec("CredentialPublicKeys", CredKeys(<< KeyEntry(3, K2), KeyEntry(255, K1) >>, 1), "accept", "canonical", [threshold |-> 1]),
    Vec("CredentialPublicKeys", CredKeys(<< KeyEntry(1, K1), KeyEntry(0, K2) >>, 1), "reject", "keys out of order", NoFields),
    Vec("CredentialPublicKeys", CredKeys(<< KeyEntry(1, K1), KeyEntry(1, K2) >>, 1), "reject", "duplicate key index", NoFields),
    Vec("CredentialPublicKeys", << U8(1), U8(0), U8(1), B(K1), U8(1) >>, "reject", "undefined scheme id", NoFields),
    Vec("CredentialPublicKeys", CredKeys(<< KeyEntry(0, K1) >>, 0), "any", "threshold 0", NoFields),
    Vec("CredentialPublicKeys", CredKeys(<< KeyEntry(0, K1) >>, 2), "any", "threshold above number of keys", NoFields),
    Vec("CredentialPublicKeys", CredKeys(<<>>, 1), "any", "no keys", NoFields) }

(* updates::AccessStructure: u16 #indices, the u16 indices (strictly increasing), threshold u16 *)
UAcc(idx, thr) == << U16(Len(idx)) >> \o [i \in 1..Len(idx) |-> U16(idx[i])] \o << U16(thr) >>
UAccVecs ==
  { Vec("UpdateAccessStructure", UAcc(<<0, 1>>, 2), "accept", "canonical", [threshold |-> 2]),
    Vec("UpdateAccessStructure", UAcc(<<0, 256, 65535>>, 1), "accept", "canonical", [threshold |-> 1]),
    Vec("UpdateAccessStructure", UAcc(<<1, 0>>, 1), "reject", "indices out of order", NoFields),
    Vec("UpdateAccessStructure", UAcc(<<5, 5>>, 1), "reject", "duplicate index", NoFields),
    Vec("UpdateAccessStructure", << U16(3), U16(0), U16(1), U16(1) >>, "reject", "count larger than content", NoFields),
    Vec("UpdateAccessStructure", UAcc(<<0, 1>>, 0), "any", "threshold 0", NoFields),
    Vec("UpdateAccessStructure", UAcc(<<0, 1>>, 3), "any", "threshold above number of keys", NoFields),
    Vec("UpdateAccessStructure", UAcc(<<>>, 1), "any", "no keys", NoFields) }

(* ExchangeRate: numerator u64, denominator u64 *)
RateVecs ==
  { Vec("ExchangeRate", << U64(1), U64(2) >>, "accept", "canonical", [numerator |-> 1, denominator |-> 2]),
    Vec("ExchangeRate", << U64(3), U64(1) >>, "accept", "canonical", [numerator |-> 3, denominator |-> 1]),
    Vec("ExchangeRate", << U64(2), U64(4) >>, "any", "not in lowest terms", NoFields),
    Vec("ExchangeRate", << U64(0), U64(1) >>, "any", "zero numerator", NoFields),
    Vec("ExchangeRate", << U64(1), U64(0) >>, "any", "zero denominator", NoFields),
    Vec("ExchangeRate", << U64(0), U64(0) >>, "any", "zero over zero", NoFields) }

(* AmountFraction: parts per hundred thousand, u32 *)
FracVecs ==
  { Vec("AmountFraction", << U32(n) >>, "accept", "canonical", NoFields) : n \in {0, 1, 99999, 100000} }
  \cup { Vec("AmountFraction", << U32(n) >>, "any", "above one", NoFields) : n \in {100001, 2147483647} }

(* AccountTransaction: signature, header, payload of exactly the declared size; BlockItem: kind tag 0 + account transaction *)
AcctTx(ps, payload) == TxSig(<< <<0, <<0>> >> >>) \o HeaderBytes(7, 501, ps, 9) \o payload
TxVecs ==
  { Vec("AccountTransaction", AcctTx(41, Transfer(9, 5)), "accept", "canonical", NoFields),
    Vec("AccountTransaction", AcctTx(42, Transfer(9, 5)), "reject", "declared payload size larger than content", NoFields),
    Vec("BlockItem", << U8(0) >> \o AcctTx(41, Transfer(9, 5)), "accept", "canonical", NoFields),
    Vec("BlockItem", << U8(7) >> \o AcctTx(41, Transfer(9, 5)), "reject", "undefined block item kind", NoFields) }

(* Length fields that claim far more than the input holds.  Decoding must fail without allocating what the
   length claims (each such vector is decoded in a process of its own under an address-space limit).
   ProtocolUpdate: u64 total length, u64 message length + message, u64 URL length + URL, 32-byte hash, auxiliary data. *)
ProtoUpd(mlen, ulen, aux) == << U64(8 + mlen + 8 + ulen + 32 + aux), U64(mlen), R(65, mlen), U64(ulen), R(66, ulen), R(7, 32), R(9, aux) >>
HostileVecs ==
  { Vec("ProtocolUpdate", ProtoUpd(1, 1, 3), "accept", "canonical", NoFields),
    Vec("ProtocolUpdate", ProtoUpd(0, 0, 0), "accept", "canonical", NoFields),
    Vec("ProtocolUpdate", ProtoUpd(5000, 3, 5000), "accept", "canonical", NoFields),
    Vec("ProtocolUpdate", << U64(100), U64(1), R(65, 1), U64hl(0, 16777216), R(66, 40) >>, "reject", "hostile length", NoFields),
    Vec("ProtocolUpdate", << U64hl(256, 0), U64(1), R(65, 1), U64hl(128, 0), R(66, 40) >>, "reject", "hostile length", NoFields),
    Vec("ProtocolUpdate", << U64hl(256, 0), U64hl(128, 0), R(65, 40) >>, "reject", "hostile length", NoFields),
    Vec("ProtocolUpdate", << U64hl(256, 0), U64(1), R(65, 1), U64(1), R(66, 1), R(7, 32), R(9, 10) >>, "reject", "hostile length", NoFields),
    Vec("WasmModule", << U32(1), U32(2147483647), R(0, 16) >>, "reject", "hostile length", NoFields),
    Vec("WasmModule", << U32(1), U32(524288), R(0, 16) >>, "reject", "hostile length", NoFields),
    Vec("WasmModule", << U32(1), U32(4), R(0, 4) >>, "accept", "canonical", NoFields),
    Vec("Payload", << U8(21), U16(65535), R(68, 3) >>, "reject", "hostile length", NoFields),
    Vec("Payload", << U8(19), Addr(9), U8(255), U64(1) >>, "reject", "hostile length", NoFields),
    Vec("UpdateAccessStructure", << U16(65535), U16(0), U16(1) >>, "reject", "hostile length", NoFields),
    Vec("TransactionSignature", << U8(255), U8(0), U8(255), U8(0), U16(65535), R(1, 5) >>, "reject", "hostile length", NoFields) }

(* UpdatePayload variants with numeric constraints.  Tag 15: pool parameters = 3 passive commissions (fractions), 3 commission ranges
   (min, max inclusive: min <= max, a single point is a range), minimum equity capital u64, capital bound (fraction), leverage bound
   numerator/denominator u64 (>= 1, in lowest terms).  Tag 19: minimum block time (ms, u64).  Tag 20: block energy limit u64. *)
Pool(rng, lev) == << U8(15), U32(1), U32(2), U32(100000) >> \o rng \o rng \o rng \o << U64(5000), U32(25000), U64(lev[1]), U64(lev[2]) >>
Rng(a, b) == << U32(a), U32(b) >>
PoolVecs ==
  { Vec("UpdatePayload", Pool(Rng(r[1], r[2]), <<3, 1>>), "accept", "canonical", NoFields) : r \in { <<0, 100000>>, <<5, 5>>, <<0, 0>>, <<100000, 100000>>, <<10, 20>> } }
  \cup { Vec("UpdatePayload", Pool(Rng(20, 10), <<3, 1>>), "reject", "inverted range", NoFields),
         Vec("UpdatePayload", Pool(Rng(0, 100001), <<3, 1>>), "reject", "fraction above one", NoFields),
         Vec("UpdatePayload", Pool(Rng(1, 2), <<1, 1>>), "accept", "canonical", NoFields),
         Vec("UpdatePayload", Pool(Rng(1, 2), <<7, 2>>), "accept", "canonical", NoFields),
         Vec("UpdatePayload", Pool(Rng(1, 2), <<1, 2>>), "reject", "leverage below one", NoFields),
         Vec("UpdatePayload", Pool(Rng(1, 2), <<4, 2>>), "reject", "leverage not in lowest terms", NoFields),
         Vec("UpdatePayload", Pool(Rng(1, 2), <<1, 0>>), "reject", "zero denominator", NoFields),
         Vec("UpdatePayload", << U8(19), U64(1000) >>, "accept", "canonical", NoFields),
         Vec("UpdatePayload", << U8(20), U64(2147483647) >>, "accept", "canonical", NoFields),
         Vec("UpdatePayload", << U8(20), U32(7) >>, "reject", "truncated", NoFields),
         Vec("UpdatePayload", << U8(0), U64(1) >>, "reject", "undefined update tag", NoFields),
         Vec("UpdatePayload", << U8(25), U64(1) >>, "reject", "undefined update tag", NoFields),
         Vec("UpdatePayload", << U8(255) >>, "reject", "undefined update tag", NoFields) }

AllVectors == ContractVecs \cup PoolVecs \cup HostileVecs \cup HeaderVecs \cup HeaderV1Vecs \cup TxSigVecs \cup PayloadVecs \cup CredKeysVecs \cup UAccVecs \cup RateVecs \cup FracVecs \cup TxVecs

VARIABLE vec
WInit == vec \in AllVectors
WSpec == WInit /\ [][UNCHANGED vec]_vec

(* design checks: within a type, two canonical vectors with different field values have different bytes; a
   rejected near-miss never coincides with a canonical encoding *)
Canonical(ty) == {v \in AllVectors : v.ty = ty /\ v.expect = "accept"}
NearMissDistinct == vec.expect = "reject" => \A c \in Canonical(vec.ty) : c.bytes # vec.bytes
EncInjective == vec.expect = "accept" => \A c \in Canonical(vec.ty) : (c.bytes = vec.bytes) => (c.fields = vec.fields)

WExport == PrintT(<<"REPLAY", ToJson(vec)>>)
=============================================================================
