SPECIFICATION CSpec
INVARIANTS NearMissDistinct CExport
CHECK_DEADLOCK FALSE
