--------------------------------- MODULE Cbor ---------------------------------
(***************************************************************************)
(* CBOR (RFC 8949) data model with deterministic encoding (shortest heads, *)
(* definite lengths, map keys in bytewise order of their encodings), and    *)
(* the protocol-level-token types as CBOR schemas transcribed from the      *)
(* repository's CDDL description (cddl/cis-7.cddl), not from the Rust        *)
(* derives (C17).                                                            *)
(*                                                                         *)
(* Values:  <<"uint", hi, lo>>  <<"nint", hi, lo>> (= -1 - n)                *)
(*          <<"bytes", byte, n>>  <<"text", codes>>  <<"array", items>>       *)
(*          <<"map", entries>> (entries = sequence of <<key, value>>, already  *)
(*          in deterministic order)  <<"tag", t, v>>  <<"bool", b>>  <<"null">> *)
(* hi, lo are the two 32-bit halves of a 64-bit argument (hi * 2^32 + lo); a    *)
(* negative lo stands for 2^32 + lo, to reach the width boundary 2^32 - 1.     *)
(* Byte terms: <<"b", bytes>>, <<"r", byte, n>>, <<"be", width, hi, lo>>.         *)
(***************************************************************************)
EXTENDS Naturals, Integers, Sequences, FiniteSets, TLC, Json

Flat(seqs) == LET RECURSIVE go(_) go(s) == IF s = <<>> THEN <<>> ELSE s[1] \o go(Tail(s)) IN go(seqs)

(* head: major type (0..7) and a 64-bit argument hi:lo in the shortest form *)
Hd(m, hi, lo) ==
  IF hi > 0 THEN << <<"b", <<m * 32 + 27>> >>, <<"be", 8, hi, lo>> >>
  ELSE IF lo < 0 THEN << <<"b", <<m * 32 + 26>> >>, <<"be", 4, 0, lo>> >>     \* 2^32 + lo, just below the 8-byte boundary
  ELSE IF lo < 24 THEN << <<"b", <<m * 32 + lo>> >> >>
  ELSE IF lo < 256 THEN << <<"b", <<m * 32 + 24, lo>> >> >>
  ELSE IF lo < 65536 THEN << <<"b", <<m * 32 + 25>> >>, <<"be", 2, 0, lo>> >>
  ELSE << <<"b", <<m * 32 + 26>> >>, <<"be", 4, 0, lo>> >>

RECURSIVE Enc(_)
Enc(v) ==
  CASE v[1] = "uint" -> Hd(0, v[2], v[3])
    [] v[1] = "nint" -> Hd(1, v[2], v[3])
    [] v[1] = "bytes" -> Hd(2, 0, v[3]) \o (IF v[3] = 0 THEN <<>> ELSE << <<"r", v[2], v[3]>> >>)
    [] v[1] = "text" -> Hd(3, 0, Len(v[2])) \o (IF v[2] = <<>> THEN <<>> ELSE << <<"b", v[2]>> >>)
    [] v[1] = "array" -> Hd(4, 0, Len(v[2])) \o Flat([i \in 1..Len(v[2]) |-> Enc(v[2][i])])
    [] v[1] = "map" -> Hd(5, 0, Len(v[2])) \o Flat([i \in 1..Len(v[2]) |-> Enc(v[2][i][1]) \o Enc(v[2][i][2])])
    [] v[1] = "tag" -> Hd(6, 0, v[2]) \o Enc(v[3])
    [] v[1] = "bool" -> << <<"b", <<IF v[2] THEN 245 ELSE 244>> >> >>
    [] v[1] = "null" -> << <<"b", <<246>> >> >>
    [] v[1] = "undef" -> << <<"b", <<247>> >> >>
    \* indefinite-length byte string: 0x5f, definite chunks of the given lengths, break
    [] v[1] = "ibytes" -> << <<"b", <<95>> >> >> \o Flat([i \in 1..Len(v[3]) |-> Hd(2, 0, v[3][i]) \o (IF v[3][i] = 0 THEN <<>> ELSE << <<"r", v[2], v[3][i]>> >>)]) \o << <<"b", <<255>> >> >>

U(n) == <<"uint", 0, n>>
T(codes) == <<"text", codes>>
Txt(s) == T(s)
\* ASCII codes of the field names used below
K_amount == <<97, 109, 111, 117, 110, 116>>
K_recipient == <<114, 101, 99, 105, 112, 105, 101, 110, 116>>
K_memo == <<109, 101, 109, 111>>
K_transfer == <<116, 114, 97, 110, 115, 102, 101, 114>>
K_mint == <<109, 105, 110, 116>>
K_burn == <<98, 117, 114, 110>>
K_pause == <<112, 97, 117, 115, 101>>
K_unpause == <<117, 110, 112, 97, 117, 115, 101>>
K_target == <<116, 97, 114, 103, 101, 116>>
K_addAllowList == <<97, 100, 100, 65, 108, 108, 111, 119, 76, 105, 115, 116>>
K_removeDenyList == <<114, 101, 109, 111, 118, 101, 68, 101, 110, 121, 76, 105, 115, 116>>
K_bogus == <<98, 111, 103, 117, 115>>
K_allowList == <<97, 108, 108, 111, 119, 76, 105, 115, 116>>
K_denyList == <<100, 101, 110, 121, 76, 105, 115, 116>>
K_paused == <<112, 97, 117, 115, 101, 100>>
K_name == <<110, 97, 109, 101>>
K_url == <<117, 114, 108>>
K_checksum == <<99, 104, 101, 99, 107, 115, 117, 109, 83, 104, 97, 50, 53, 54>>   \* checksumSha256
K_note == <<95, 110, 111, 116, 101>>        \* _note
K_zz == <<122, 122>>

(* token-amount = decfrac = #6.4([exponent, mantissa]) with exponent = -decimals *)
TokenAmount(mantHi, mantLo, decimals) ==
  <<"tag", 4, <<"array", << IF decimals = 0 THEN U(0) ELSE <<"nint", 0, decimals - 1>>, <<"uint", mantHi, mantLo>> >> >> >>
(* tagged-account-address = #6.40307({ ? 1: #6.40305({1: 919}), 3: bytes .size 32 }) *)
Account(b, withCoinInfo) ==
  <<"tag", 40307, <<"map", (IF withCoinInfo THEN << <<U(1), <<"tag", 40305, <<"map", << <<U(1), U(919)>> >> >> >> >> >> ELSE <<>>)
                            \o << <<U(3), <<"bytes", b, 32>> >> >> >> >>
(* deterministic key order: bytewise on the encoded keys, i.e. shorter text keys first *)
Transfer(amt, rcpt, memo) ==
  <<"map", << <<T(K_transfer), <<"map", (IF memo = <<>> THEN <<>> ELSE << <<T(K_memo), memo>> >>) \o << <<T(K_amount), amt>>, <<T(K_recipient), rcpt>> >> >> >> >> >>
Supply(kind, amt) == <<"map", << <<T(kind), <<"map", << <<T(K_amount), amt>> >> >> >> >> >>
ListUpd(kind, acct) == <<"map", << <<T(kind), <<"map", << <<T(K_target), acct>> >> >> >> >> >>
Pause(kind) == <<"map", << <<T(kind), <<"map", <<>> >> >> >> >>
Ops(ops) == <<"array", ops>>

Vec(ty, v, expect, class, fields) == [ty |-> ty, bytes |-> Enc(v), expect |-> expect, class |-> class, fields |-> fields, opts |-> "default"]
VecO(ty, v, expect, class, opts) == [ty |-> ty, bytes |-> Enc(v), expect |-> expect, class |-> class, fields |-> [x \in {} |-> 0], opts |-> opts]
RawVec(ty, bytes, expect, class) == [ty |-> ty, bytes |-> bytes, expect |-> expect, class |-> class, fields |-> [x \in {} |-> 0], opts |-> "default"]
NoF == [x \in {} |-> 0]

WidthBoundaries == { <<0, 0>>, <<0, 1>>, <<0, 23>>, <<0, 24>>, <<0, 255>>, <<0, 256>>, <<0, 65535>>, <<0, 65536>>, <<0, 2147483647>>,
                     <<0, -1>>, <<0, -2>>, <<1, 0>>, <<2147483647, 5>> }
A1 == TokenAmount(0, 100, 2)
R1 == Account(3, FALSE)
R2 == Account(4, TRUE)
MemoRaw == <<"bytes", 171, 3>>
MemoCbor == <<"tag", 24, <<"bytes", 171, 3>> >>

GenericVectors ==
  { Vec("Value", <<"uint", w[1], w[2]>>, "accept", "canonical", NoF) : w \in WidthBoundaries }
  \cup { Vec("Value", <<"nint", w[1], w[2]>>, "accept", "canonical", NoF) : w \in WidthBoundaries }
  \cup { Vec("Value", <<"bytes", 171, n>>, "accept", "canonical", NoF) : n \in {0, 1, 23, 24, 255, 256} }
  \cup { Vec("Value", T(<<>>), "accept", "canonical", NoF), Vec("Value", T(<<104, 105>>), "accept", "canonical", NoF),
         Vec("Value", T(<<195, 169>>), "accept", "canonical", NoF),
         Vec("Value", <<"array", <<>> >>, "accept", "canonical", NoF),
         Vec("Value", <<"array", << U(1), <<"array", << U(2), T(<<97>>) >> >>, <<"null">> >> >>, "accept", "canonical", NoF),
         Vec("Value", <<"map", <<>> >>, "accept", "canonical", NoF),
         Vec("Value", <<"map", << <<U(1), T(<<97>>)>>, <<U(2), <<"bool", TRUE>> >>, <<T(<<97>>), <<"bool", FALSE>> >> >> >>, "accept", "canonical", NoF),
         Vec("Value", <<"tag", 4, <<"array", << <<"nint", 0, 1>>, U(100) >> >> >>, "accept", "canonical", NoF),
         Vec("Value", <<"tag", 65536, <<"tag", 0, U(0)>> >>, "accept", "canonical", NoF),
         Vec("Value", <<"bool", TRUE>>, "accept", "canonical", NoF), Vec("Value", <<"null">>, "accept", "canonical", NoF) }
  \cup { RawVec("Value", Enc(U(1)) \o Enc(U(2)), "reject", "trailing data"),
         RawVec("Value", << <<"b", <<130, 1>> >> >>, "reject", "array shorter than declared"),
         RawVec("Value", << <<"b", <<161, 1>> >> >>, "reject", "map entry without value"),
         RawVec("Value", << <<"b", <<98, 104>> >> >>, "reject", "text shorter than declared"),
         RawVec("Value", << <<"b", <<98, 195, 40>> >> >>, "reject", "invalid UTF-8 in text"),
         RawVec("Value", << <<"b", <<27, 255, 255, 255, 255, 255, 255, 255, 255>> >> >>, "accept", "canonical"),
         RawVec("Value", << <<"b", <<155, 255, 255, 255, 255, 255, 255, 255, 255>> >> >>, "reject", "hostile length"),
         RawVec("Value", << <<"b", <<91, 0, 0, 0, 1, 0, 0, 0, 0, 1>> >> >>, "reject", "hostile length"),
         RawVec("Value", << <<"b", <<187, 0, 0, 0, 0, 255, 255, 255, 255>> >> >>, "reject", "hostile length"),
         RawVec("Value", << <<"b", <<24, 5>> >> >>, "any", "non-shortest head"),
         RawVec("Value", << <<"b", <<25, 0, 5>> >> >>, "any", "non-shortest head"),
         RawVec("Value", << <<"b", <<159, 1, 2, 255>> >> >>, "any", "indefinite-length array"),
         RawVec("Value", << <<"b", <<162, 1, 1, 1, 2>> >> >>, "any", "duplicate map key"),
         RawVec("Value", << <<"b", <<28>> >> >>, "reject", "reserved additional information"),
         RawVec("Value", << <<"b", <<255>> >> >>, "reject", "break outside indefinite item") }

TokenVectors ==
  { Vec("TokenAmount", TokenAmount(0, 100, 2), "accept", "canonical", [value |-> "100", decimals |-> 2]),
    Vec("TokenAmount", TokenAmount(0, 0, 0), "accept", "canonical", [value |-> "0", decimals |-> 0]),
    Vec("TokenAmount", TokenAmount(0, 1, 255), "accept", "canonical", [value |-> "1", decimals |-> 255]),
    Vec("TokenAmount", TokenAmount(2147483647, 7, 6), "accept", "canonical", NoF),
    Vec("TokenAmount", <<"tag", 4, <<"array", << U(1), U(100) >> >> >>, "reject", "positive exponent", NoF),
    Vec("TokenAmount", <<"tag", 4, <<"array", << <<"nint", 0, 255>>, U(100) >> >> >>, "reject", "more than 255 decimals", NoF),
    Vec("TokenAmount", <<"tag", 4, <<"array", << <<"nint", 0, 1>>, <<"nint", 0, 0>> >> >> >>, "reject", "negative mantissa", NoF),
    Vec("TokenAmount", <<"tag", 5, <<"array", << <<"nint", 0, 1>>, U(100) >> >> >>, "reject", "wrong tag", NoF),
    Vec("TokenAmount", <<"array", << <<"nint", 0, 1>>, U(100) >> >>, "reject", "missing tag", NoF),
    Vec("TokenAmount", <<"tag", 4, <<"array", << <<"nint", 0, 1>> >> >> >>, "reject", "array too short", NoF),
    Vec("TokenAmount", <<"tag", 4, <<"array", << <<"nint", 0, 1>>, U(100), U(1) >> >> >>, "reject", "array too long", NoF) }
  \cup
  { Vec("TokenOperations", Ops(<<>>), "accept", "canonical", NoF),
    Vec("TokenOperations", Ops(<< Transfer(A1, R1, <<>>) >>), "accept", "canonical", NoF),
    Vec("TokenOperations", Ops(<< Transfer(A1, R2, MemoRaw) >>), "accept", "canonical", NoF),
    Vec("TokenOperations", Ops(<< Transfer(A1, R1, MemoCbor), Supply(K_mint, A1), Supply(K_burn, TokenAmount(0, 5, 0)) >>), "accept", "canonical", NoF),
    Vec("TokenOperations", Ops(<< ListUpd(K_addAllowList, R1), ListUpd(K_removeDenyList, R2), Pause(K_pause), Pause(K_unpause) >>), "accept", "canonical", NoF),
    \* transfer without the mandatory amount / recipient
    Vec("TokenOperations", Ops(<< <<"map", << <<T(K_transfer), <<"map", << <<T(K_recipient), R1>> >> >> >> >> >> >>), "reject", "missing mandatory field amount", NoF),
    Vec("TokenOperations", Ops(<< <<"map", << <<T(K_transfer), <<"map", << <<T(K_amount), A1>> >> >> >> >> >> >>), "reject", "missing mandatory field recipient", NoF),
    \* ill-typed items
    Vec("TokenOperations", Ops(<< <<"map", << <<T(K_transfer), <<"map", << <<T(K_amount), U(5)>>, <<T(K_recipient), R1>> >> >> >> >> >> >>), "reject", "ill-typed amount", NoF),
    Vec("TokenOperations", Ops(<< <<"map", << <<T(K_mint), <<"array", <<A1>> >> >> >> >> >>), "reject", "ill-typed operation body", NoF),
    Vec("TokenOperations", <<"map", <<>> >>, "reject", "ill-typed operation list", NoF),
    Vec("TokenOperations", Ops(<< <<"map", << <<T(K_transfer), <<"map", << <<T(K_amount), A1>>, <<T(K_recipient), <<"tag", 40307, <<"map", << <<U(3), <<"bytes", 3, 31>> >> >> >> >> >> >> >> >> >> >> >>), "reject", "address of 31 bytes", NoF),
    \* an operation map with two operations is not an operation
    Vec("TokenOperations", Ops(<< <<"map", << <<T(K_burn), <<"map", << <<T(K_amount), A1>> >> >> >>, <<T(K_mint), <<"map", << <<T(K_amount), A1>> >> >> >> >> >> >>), "reject", "two variants in one operation", NoF) }
  \cup
  { \* undeclared field inside a transfer: rejected when the options say Fail, ignored by default
    VecO("TokenOperations", Ops(<< <<"map", << <<T(K_transfer), <<"map", << <<T(K_bogus), U(1)>>, <<T(K_amount), A1>>, <<T(K_recipient), R1>> >> >> >> >> >> >>), "reject", "undeclared field", "fail_unknown"),
    VecO("TokenOperations", Ops(<< <<"map", << <<T(K_transfer), <<"map", << <<T(K_bogus), U(1)>>, <<T(K_amount), A1>>, <<T(K_recipient), R1>> >> >> >> >> >> >>), "any", "undeclared field ignored by default options", "default"),
    \* an unknown operation is preserved where the type declares it (Upward / unknown variant)
    VecO("TokenOperationsUpward", Ops(<< <<"map", << <<T(K_bogus), <<"map", << <<T(K_amount), A1>> >> >> >> >> >>, Supply(K_mint, A1) >>), "accept", "unknown variant preserved", "default") }
  \cup
  { Vec("CborHolderAccount", R1, "accept", "canonical", NoF), Vec("CborHolderAccount", R2, "accept", "canonical", NoF),
    Vec("CborHolderAccount", <<"tag", 40307, <<"map", <<>> >> >>, "reject", "missing mandatory field address", NoF),
    Vec("CborHolderAccount", <<"tag", 40308, <<"map", << <<U(3), <<"bytes", 3, 32>> >> >> >> >>, "reject", "wrong tag", NoF),
    Vec("CborHolderAccount", <<"tag", 40307, <<"map", << <<U(1), <<"tag", 40305, <<"map", << <<U(1), U(920)>> >> >> >> >>, <<U(3), <<"bytes", 3, 32>> >> >> >> >>, "reject", "coin info other than CCD", NoF) }

(* module state, account state and metadata URL: all fields optional, further text keys are kept (CDDL: * text => any) *)
StateVectors ==
  { Vec("TokenModuleAccountState", <<"map", <<>> >>, "accept", "canonical", [additional |-> 0]),
    Vec("TokenModuleAccountState", <<"map", << <<T(K_allowList), <<"bool", TRUE>> >> >> >>, "accept", "canonical", [additional |-> 0, allow_list |-> TRUE]),
    Vec("TokenModuleAccountState", <<"map", << <<T(K_denyList), <<"bool", FALSE>> >> >> >>, "accept", "canonical", [additional |-> 0]),
    Vec("TokenModuleAccountState", <<"map", << <<T(K_zz), U(5)>> >> >>, "accept", "canonical", [additional |-> 1]),
    \* unknown entries are kept whatever their value is - also null, arrays containing null, nested maps
    Vec("TokenModuleAccountState", <<"map", << <<T(K_zz), <<"null">> >> >> >>, "accept", "canonical", [additional |-> 1]),
    Vec("TokenModuleAccountState", <<"map", << <<T(K_zz), <<"array", << <<"null">> >> >> >> >> >>, "accept", "canonical", [additional |-> 1]),
    Vec("TokenModuleAccountState", <<"map", << <<T(K_note), <<"null">> >>, <<T(K_allowList), <<"bool", TRUE>> >> >> >>, "accept_any_order", "unknown entry with null value", [additional |-> 1, allow_list |-> TRUE]),
    Vec("TokenModuleAccountState", <<"map", << <<T(K_note), T(K_zz)>>, <<T(K_allowList), <<"bool", TRUE>> >>, <<T(K_zz), <<"map", <<>> >> >> >> >>, "accept_any_order", "unknown entries", [additional |-> 2, allow_list |-> TRUE]),
    Vec("TokenModuleAccountState", <<"map", << <<T(K_allowList), U(1)>> >> >>, "reject", "ill-typed flag", NoF),
    Vec("TokenModuleAccountState", <<"map", << <<T(K_allowList), <<"undef">> >> >> >>, "reject", "undefined is not a boolean nor null", NoF),
    Vec("TokenModuleAccountState", <<"map", << <<U(1), <<"bool", TRUE>> >> >> >>, "reject", "non-text key", NoF),
    Vec("TokenModuleAccountState", <<"array", <<>> >>, "reject", "ill-typed state", NoF),
    Vec("TokenModuleState", <<"map", <<>> >>, "accept", "canonical", [additional |-> 0]),
    Vec("TokenModuleState", <<"map", << <<T(K_name), T(K_zz)>> >> >>, "accept", "canonical", [additional |-> 0]),
    Vec("TokenModuleState", <<"map", << <<T(K_paused), <<"bool", TRUE>> >> >> >>, "accept", "canonical", [additional |-> 0]),
    Vec("TokenModuleState", <<"map", << <<T(K_zz), <<"null">> >> >> >>, "accept", "canonical", [additional |-> 1]),
    Vec("TokenModuleState", <<"map", << <<T(K_name), T(K_zz)>>, <<T(K_note), <<"null">> >>, <<T(K_paused), <<"bool", FALSE>> >> >> >>, "accept_any_order", "unknown entry with null value", [additional |-> 1]),
    Vec("TokenModuleState", <<"map", << <<T(K_name), U(3)>> >> >>, "reject", "ill-typed name", NoF),
    Vec("TokenModuleState", <<"map", << <<T(K_paused), <<"undef">> >> >> >>, "reject", "undefined is not a boolean nor null", NoF),
    Vec("MetadataUrl", <<"map", << <<T(K_url), T(K_zz)>> >> >>, "accept", "canonical", [additional |-> 0]),
    Vec("MetadataUrl", <<"map", << <<T(K_url), T(K_zz)>>, <<T(K_checksum), <<"bytes", 9, 32>> >> >> >>, "accept_any_order", "with checksum", [additional |-> 0]),
    Vec("MetadataUrl", <<"map", << <<T(K_zz), <<"null">> >>, <<T(K_url), T(K_zz)>> >> >>, "accept_any_order", "unknown entry with null value", [additional |-> 1]),
    Vec("MetadataUrl", <<"map", <<>> >>, "reject", "missing mandatory field url", NoF),
    Vec("MetadataUrl", <<"map", << <<T(K_url), T(K_zz)>>, <<T(K_checksum), <<"bytes", 9, 31>> >> >> >>, "reject", "checksum of 31 bytes", NoF),
    Vec("MetadataUrl", <<"map", << <<T(K_url), T(K_zz)>>, <<T(K_checksum), <<"bytes", 9, 33>> >> >> >>, "reject", "checksum of 33 bytes", NoF),
    \* fixed-size byte strings given in chunks: the total must still be exactly the size
    Vec("MetadataUrl", <<"map", << <<T(K_url), T(K_zz)>>, <<T(K_checksum), <<"ibytes", 9, <<16>> >> >> >> >>, "reject", "chunked checksum of 16 bytes", NoF),
    Vec("MetadataUrl", <<"map", << <<T(K_url), T(K_zz)>>, <<T(K_checksum), <<"ibytes", 9, <<>> >> >> >> >>, "reject", "chunked checksum of 0 bytes", NoF),
    Vec("MetadataUrl", <<"map", << <<T(K_url), T(K_zz)>>, <<T(K_checksum), <<"ibytes", 9, <<32, 1>> >> >> >> >>, "reject", "chunked checksum of 33 bytes", NoF),
    Vec("MetadataUrl", <<"map", << <<T(K_url), T(K_zz)>>, <<T(K_checksum), <<"ibytes", 9, <<16, 16>> >> >> >> >>, "any", "chunked checksum of 32 bytes", NoF),
    Vec("CborHolderAccount", <<"tag", 40307, <<"map", << <<U(3), <<"ibytes", 3, <<16>> >> >> >> >> >>, "reject", "chunked address of 16 bytes", NoF),
    Vec("CborHolderAccount", <<"tag", 40307, <<"map", << <<U(3), <<"ibytes", 3, <<31>> >> >> >> >> >>, "reject", "chunked address of 31 bytes", NoF),
    Vec("CborHolderAccount", <<"tag", 40307, <<"map", << <<U(3), <<"ibytes", 3, <<30, 3>> >> >> >> >> >>, "reject", "chunked address of 33 bytes", NoF),
    Vec("CborHolderAccount", <<"tag", 40307, <<"map", << <<U(3), <<"ibytes", 3, <<1, 31>> >> >> >> >> >>, "any", "chunked address of 32 bytes", NoF),
    \* optional positions hold a value of the type or are absent (null is tolerated); undefined and other simple values are ill-typed
    Vec("TokenOperations", Ops(<< Transfer(A1, R1, <<"undef">>) >>), "reject", "undefined memo", NoF),
    Vec("TokenOperations", Ops(<< Transfer(A1, R1, <<"bool", TRUE>>) >>), "reject", "ill-typed memo", NoF),
    Vec("TokenOperations", Ops(<< Transfer(A1, R1, <<"null">>) >>), "any", "null memo", NoF),
    Vec("OptionU64", <<"undef">>, "reject", "undefined is not an integer nor null", NoF),
    Vec("OptionU64", <<"null">>, "accept", "canonical", NoF),
    Vec("OptionU64", U(7), "accept", "canonical", NoF),
    Vec("OptionU64", <<"bool", FALSE>>, "reject", "ill-typed", NoF) }

(* nesting up to depth 64 is inside the claim *)
RECURSIVE Nest(_)
Nest(d) == IF d = 0 THEN U(7) ELSE <<"array", << Nest(d - 1) >> >>
NestVectors == { Vec("Value", Nest(d), "accept", "canonical", NoF) : d \in {1, 16, 63, 64} }

(* token amount = value * 10^(-decimals): the decimal string has exactly `decimals` fractional digits *)
DigitChar(d) == CASE d = 0 -> "0" [] d = 1 -> "1" [] d = 2 -> "2" [] d = 3 -> "3" [] d = 4 -> "4" [] d = 5 -> "5" [] d = 6 -> "6" [] d = 7 -> "7" [] d = 8 -> "8" [] d = 9 -> "9"
RECURSIVE DigitsOf(_)
DigitsOf(n) == IF n < 10 THEN <<DigitChar(n)>> ELSE DigitsOf(n \div 10) \o <<DigitChar(n % 10)>>
PadLeft(ds, w) == IF Len(ds) >= w THEN ds ELSE [i \in 1..(w - Len(ds)) |-> "0"] \o ds
AmountString(value, decimals) ==
  IF decimals = 0 THEN DigitsOf(value)
  ELSE LET ds == PadLeft(DigitsOf(value), decimals + 1) IN SubSeq(ds, 1, Len(ds) - decimals) \o <<".">> \o SubSeq(ds, Len(ds) - decimals + 1, Len(ds))
TextVectors ==
  { [ty |-> "TokenAmountText", value |-> v, decimals |-> d, text |-> AmountString(v, d), bytes |-> Enc(TokenAmount(0, v, d)),
     expect |-> "accept", class |-> "canonical", fields |-> NoF, opts |-> "default"] : v \in {0, 1, 9, 100, 12345, 2147483647}, d \in {0, 1, 2, 6, 18, 28} }

(* decimal strings that denote no amount: negative, more digits than the token has, not a number *)
BadTextVectors ==
  { [ty |-> "TokenAmountBadText", value |-> 0, decimals |-> d, text |-> t, bytes |-> <<>>, expect |-> "reject", class |-> "not an amount", fields |-> NoF, opts |-> "default"] :
      d \in {0, 1, 2, 6}, t \in { <<"-", "1">>, <<"-", "0", ".", "5">>, <<"-", "0", ".", "0", "1">>, <<"-", "5", "0", "0">>, <<"a">>, <<>>, <<"1", ".", "2", ".", "3">>,
                                   <<"1", "8", "4", "4", "6", "7", "4", "4", "0", "7", "3", "7", "0", "9", "5", "5", "1", "6", "1", "6">> } }

AllVectors == GenericVectors \cup TokenVectors \cup StateVectors \cup NestVectors \cup TextVectors \cup BadTextVectors

VARIABLE vec
BInit == vec \in AllVectors
BSpec == BInit /\ [][UNCHANGED vec]_vec
Canonical(ty) == {v \in AllVectors : v.ty = ty /\ v.expect = "accept"}
NearMissDistinct == vec.expect = "reject" => \A c \in Canonical(vec.ty) : c.bytes # vec.bytes
BExport == PrintT(<<"REPLAY", ToJson(vec)>>)
=============================================================================
