-------------------------------- MODULE Schema --------------------------------
(***************************************************************************)
(* Smart-contract schema types, their JSON values and the contract-side    *)
(* binary encoding of those values (C10).                                  *)
(*                                                                         *)
(* A triple [t, j, b] relates a schema type t, a JSON value j that t        *)
(* accepts (already in the normal form that bytes -> JSON produces) and the *)
(* encoding b of that value.  Leaves list (type, value, bytes) for the       *)
(* primitive types from their documentation; combinators build pairs,        *)
(* lists, sets, maps, arrays, structs, enums and tagged enums from triples,  *)
(* so every triple of the closure is a test vector in both directions:       *)
(*    serial_value(t, j) = b      and      to_json(t, b) = j.                *)
(* EncType gives the binary form of the schema type itself.                  *)
(* Types are tuples: <<"U8">>, <<"Pair", t1, t2>>, <<"List", sl, t>>, ...     *)
(* Size lengths sl: 0 = u8, 1 = u16, 2 = u32, 3 = u64 (little endian).        *)
(* JSON: numbers, strings, booleans, sequences (arrays), records (objects);   *)
(* the string "__null__" stands for null.                                    *)
(* Byte terms: <<"b", bytes>>, <<"r", byte, n>>, <<"le", width, n>> (n < 2^31).  *)
(***************************************************************************)
EXTENDS Naturals, Integers, Sequences, FiniteSets, TLC, Json

Bt(bs) == << <<"b", bs>> >>
Le(w, n) == << <<"le", w, n>> >>
SlWidth(sl) == CASE sl = 0 -> 1 [] sl = 1 -> 2 [] sl = 2 -> 4 [] sl = 3 -> 8
LenPrefix(sl, n) == Le(SlWidth(sl), n)
Flat(seqs) == LET RECURSIVE go(_) go(s) == IF s = <<>> THEN <<>> ELSE s[1] \o go(Tail(s)) IN go(seqs)
Tr(t, j, b) == [t |-> t, j |-> j, b |-> b]
Codes(s) == s    \* strings are given as sequences of ASCII codes where bytes are needed

-----------------------------------------------------------------------------
(* the binary form of a schema type (schema.rs, impl Serial for Type) *)
StrBytes(codes) == Le(4, Len(codes)) \o (IF codes = <<>> THEN <<>> ELSE Bt(codes))
RECURSIVE EncType(_)
EncFields(f) ==
  CASE f[1] = "named" -> Bt(<<0>>) \o Le(4, Len(f[2])) \o Flat([i \in 1..Len(f[2]) |-> StrBytes(f[2][i][2]) \o EncType(f[2][i][3])])
    [] f[1] = "unnamed" -> Bt(<<1>>) \o Le(4, Len(f[2])) \o Flat([i \in 1..Len(f[2]) |-> EncType(f[2][i])])
    [] f[1] = "none" -> Bt(<<2>>)
EncType(t) ==
  LET k == t[1] IN
  CASE k = "Unit" -> Bt(<<0>>) [] k = "Bool" -> Bt(<<1>>) [] k = "U8" -> Bt(<<2>>) [] k = "U16" -> Bt(<<3>>) [] k = "U32" -> Bt(<<4>>)
    [] k = "U64" -> Bt(<<5>>) [] k = "I8" -> Bt(<<6>>) [] k = "I16" -> Bt(<<7>>) [] k = "I32" -> Bt(<<8>>) [] k = "I64" -> Bt(<<9>>)
    [] k = "Amount" -> Bt(<<10>>) [] k = "ContractAddress" -> Bt(<<12>>) [] k = "Timestamp" -> Bt(<<13>>) [] k = "Duration" -> Bt(<<14>>)
    [] k = "Pair" -> Bt(<<15>>) \o EncType(t[2]) \o EncType(t[3])
    [] k = "List" -> Bt(<<16, t[2]>>) \o EncType(t[3])
    [] k = "Set" -> Bt(<<17, t[2]>>) \o EncType(t[3])
    [] k = "Map" -> Bt(<<18, t[2]>>) \o EncType(t[3]) \o EncType(t[4])
    [] k = "Array" -> Bt(<<19>>) \o Le(4, t[2]) \o EncType(t[3])
    [] k = "Struct" -> Bt(<<20>>) \o EncFields(t[2])
    [] k = "Enum" -> Bt(<<21>>) \o Le(4, Len(t[2])) \o Flat([i \in 1..Len(t[2]) |-> StrBytes(t[2][i][2]) \o EncFields(t[2][i][3])])
    [] k = "String" -> Bt(<<22, t[2]>>)
    [] k = "U128" -> Bt(<<23>>) [] k = "I128" -> Bt(<<24>>)
    [] k = "ContractName" -> Bt(<<25, t[2]>>)
    [] k = "ReceiveName" -> Bt(<<26, t[2]>>)
    [] k = "ULeb128" -> Bt(<<27>>) \o Le(4, t[2])
    [] k = "ILeb128" -> Bt(<<28>>) \o Le(4, t[2])
    [] k = "ByteList" -> Bt(<<29, t[2]>>)
    [] k = "ByteArray" -> Bt(<<30>>) \o Le(4, t[2])
    [] k = "TaggedEnum" -> Bt(<<31>>) \o Le(4, Len(t[2])) \o Flat([i \in 1..Len(t[2]) |-> Bt(<<t[2][i][1]>>) \o StrBytes(t[2][i][3]) \o EncFields(t[2][i][4])])

-----------------------------------------------------------------------------
Sls == {0, 1, 2, 3}
LongStr(n) == [__rep__ |-> "a", n |-> n]     \* the JSON string of n letters a
HI == <<104, 105>>   \* "hi"
Leaves ==
  << Tr(<<"Unit">>, "__null__", <<>>),
     Tr(<<"Bool">>, TRUE, Bt(<<1>>)), Tr(<<"Bool">>, FALSE, Bt(<<0>>)),
     Tr(<<"U8">>, 0, Bt(<<0>>)), Tr(<<"U8">>, 255, Bt(<<255>>)),
     Tr(<<"U16">>, 513, Le(2, 513)), Tr(<<"U32">>, 65536, Le(4, 65536)),
     Tr(<<"U64">>, 2147483647, Le(8, 2147483647)), Tr(<<"U64">>, 0, Le(8, 0)),
     Tr(<<"I8">>, -1, Bt(<<255>>)), Tr(<<"I8">>, -128, Bt(<<128>>)), Tr(<<"I16">>, -2, Bt(<<254, 255>>)),
     Tr(<<"I32">>, -1, Bt(<<255, 255, 255, 255>>)), Tr(<<"I64">>, -1, << <<"r", 255, 8>> >>), Tr(<<"I64">>, 7, Le(8, 7)),
     Tr(<<"U128">>, "5", Le(8, 5) \o Le(8, 0)), Tr(<<"I128">>, "-1", << <<"r", 255, 16>> >>),
     Tr(<<"Amount">>, "1500000", Le(8, 1500000)),
     Tr(<<"ContractAddress">>, [index |-> 5, subindex |-> 7], Le(8, 5) \o Le(8, 7)),
     Tr(<<"Timestamp">>, "1970-01-01T00:00:01+00:00", Le(8, 1000)),
     Tr(<<"Duration">>, "1d 1h 1m 1s 1ms", Le(8, 90061001)),
     Tr(<<"ByteArray", 2>>, "abcd", Bt(<<171, 205>>)), Tr(<<"ByteArray", 0>>, "", <<>>),
     Tr(<<"ULeb128", 5>>, "0", Bt(<<0>>)), Tr(<<"ULeb128", 5>>, "127", Bt(<<127>>)), Tr(<<"ULeb128", 5>>, "128", Bt(<<128, 1>>)),
     Tr(<<"ULeb128", 5>>, "300", Bt(<<172, 2>>)),
     Tr(<<"ILeb128", 5>>, "-1", Bt(<<127>>)), Tr(<<"ILeb128", 5>>, "63", Bt(<<63>>)), Tr(<<"ILeb128", 5>>, "64", Bt(<<192, 0>>)),
     Tr(<<"ILeb128", 5>>, "-64", Bt(<<64>>)), Tr(<<"ILeb128", 5>>, "-65", Bt(<<191, 127>>)) >>
  \o [sl \in 1..4 |-> Tr(<<"String", sl - 1>>, "hi", LenPrefix(sl - 1, 2) \o Bt(HI))]
  \o << Tr(<<"String", 0>>, "", LenPrefix(0, 0)), Tr(<<"String", 2>>, "", LenPrefix(2, 0)) >>
  \o [sl \in 1..4 |-> Tr(<<"ByteList", sl - 1>>, "abcd", LenPrefix(sl - 1, 2) \o Bt(<<171, 205>>))]
  \o << Tr(<<"ContractName", 1>>, [contract |-> "a"], LenPrefix(1, 6) \o Bt(<<105, 110, 105, 116, 95, 97>>)),
        Tr(<<"ContractName", 2>>, [contract |-> "a"], LenPrefix(2, 6) \o Bt(<<105, 110, 105, 116, 95, 97>>)),
        Tr(<<"ReceiveName", 1>>, [contract |-> "a", func |-> "b"], LenPrefix(1, 3) \o Bt(<<97, 46, 98>>)),
        Tr(<<"ReceiveName", 0>>, [contract |-> "a", func |-> "b"], LenPrefix(0, 3) \o Bt(<<97, 46, 98>>)),
        \* the contract name ends at the FIRST dot: entrypoint names may contain dots
        Tr(<<"ReceiveName", 1>>, [contract |-> "a", func |-> "b.c"], LenPrefix(1, 5) \o Bt(<<97, 46, 98, 46, 99>>)),
        \* strings around and beyond 4096 bytes (decoders read long strings in chunks)
        Tr(<<"String", 1>>, LongStr(4096), LenPrefix(1, 4096) \o << <<"r", 97, 4096>> >>),
        Tr(<<"String", 1>>, LongStr(4097), LenPrefix(1, 4097) \o << <<"r", 97, 4097>> >>),
        Tr(<<"String", 2>>, LongStr(5000), LenPrefix(2, 5000) \o << <<"r", 97, 5000>> >>),
        Tr(<<"String", 3>>, LongStr(4160), LenPrefix(3, 4160) \o << <<"r", 97, 4160>> >>) >>

(* representatives used as components (keeps the closure small but covers every constructor) *)
Reps == << Tr(<<"U8">>, 255, Bt(<<255>>)), Tr(<<"Unit">>, "__null__", <<>>), Tr(<<"String", 0>>, "hi", LenPrefix(0, 2) \o Bt(HI)),
           Tr(<<"I16">>, -2, Bt(<<254, 255>>)), Tr(<<"Bool">>, TRUE, Bt(<<1>>)) >>

F_N == <<102>>   \* "f"
G_N == <<103>>   \* "g"
A_N == <<65>>    \* "A"
B_N == <<66>>    \* "B"
C_N == <<67>>    \* "C"

(* sequences are used instead of sets: the JSON values of different triples have different TLA+ types *)
Map1(S, f(_)) == [i \in 1..Len(S) |-> f(S[i])]
Map2(S, R, f(_, _)) == Flat([i \in 1..Len(S) |-> [k \in 1..Len(R) |-> f(S[i], R[k])]])
SameT(S, x) == SelectSeq(S, LAMBDA z : z.t = x.t)
EnumT(x) == <<"Enum", << <<"A", A_N, <<"none">> >>, <<"B", B_N, <<"unnamed", <<x.t>> >> >>, <<"C", C_N, <<"named", << <<"f", F_N, x.t>> >> >> >> >> >>

Combine(S, R) ==
  Map2(S, R, LAMBDA x, y : Tr(<<"Pair", x.t, y.t>>, <<x.j, y.j>>, x.b \o y.b))
  \o Flat([i \in 1..Len(S) |-> Flat([sl \in 1..4 |-> Map1(SameT(S, S[i]), LAMBDA y : Tr(<<"List", sl - 1, S[i].t>>, <<S[i].j, y.j>>, LenPrefix(sl - 1, 2) \o S[i].b \o y.b))])])
  \o Map1(S, LAMBDA x : Tr(<<"List", 2, x.t>>, <<>>, LenPrefix(2, 0)))
  \o Map1(S, LAMBDA x : Tr(<<"Set", 1, x.t>>, <<x.j>>, LenPrefix(1, 1) \o x.b))
  \o Map2(R, S, LAMBDA x, y : Tr(<<"Map", 0, x.t, y.t>>, << <<x.j, y.j>> >>, LenPrefix(0, 1) \o x.b \o y.b))
  \o Map1(S, LAMBDA x : Tr(<<"Array", 2, x.t>>, <<x.j, x.j>>, x.b \o x.b))
  \o Map1(R, LAMBDA x : Tr(<<"Array", 0, x.t>>, <<>>, <<>>))
  \o Map2(S, R, LAMBDA x, y : Tr(<<"Struct", <<"named", << <<"f", F_N, x.t>>, <<"g", G_N, y.t>> >> >> >>, [f |-> x.j, g |-> y.j], x.b \o y.b))
  \o Map2(S, R, LAMBDA x, y : Tr(<<"Struct", <<"unnamed", <<x.t, y.t>> >> >>, <<x.j, y.j>>, x.b \o y.b))
  \o << Tr(<<"Struct", <<"none">> >>, <<>>, <<>>) >>
  \o Map1(S, LAMBDA x : Tr(EnumT(x), [B |-> <<x.j>>], Bt(<<1>>) \o x.b))
  \o Map1(S, LAMBDA x : Tr(EnumT(x), [C |-> [f |-> x.j]], Bt(<<2>>) \o x.b))
  \o Map1(R, LAMBDA x : Tr(EnumT(x), [A |-> <<>>], Bt(<<0>>)))
  \o Map1(S, LAMBDA x : Tr(<<"TaggedEnum", << <<5, "A", A_N, <<"none">> >>, <<200, "B", B_N, <<"unnamed", <<x.t>> >> >> >> >>, [B |-> <<x.j>>], Bt(<<200>>) \o x.b))

Level1 == Leaves \o Combine(Leaves, Reps)
Reps2 == SelectSeq(Combine(Reps, Reps), LAMBDA x : x.t[1] \in {"Pair", "Struct", "Enum"} \/ (x.t[1] = "List" /\ x.t[2] = 0))
Level2 == Combine(Reps2, Reps)
Level3 == Combine(SelectSeq(Level2, LAMBDA x : x.t[1] = "Pair" /\ x.t[2][1] \in {"Pair", "Struct"}), << Tr(<<"U8">>, 255, Bt(<<255>>)) >>)

(* JSON values a type does not accept *)
BadJson ==
  << Tr(<<"U8">>, 256, <<>>), Tr(<<"U8">>, -1, <<>>), Tr(<<"U8">>, "1", <<>>), Tr(<<"Bool">>, 1, <<>>), Tr(<<"I8">>, 128, <<>>),
    Tr(<<"U16">>, 65536, <<>>), Tr(<<"String", 0>>, 5, <<>>), Tr(<<"Pair", <<"U8">>, <<"U8">> >>, <<1>>, <<>>),
    Tr(<<"Pair", <<"U8">>, <<"U8">> >>, <<1, 2, 3>>, <<>>), Tr(<<"Array", 2, <<"U8">> >>, <<1>>, <<>>),
    Tr(<<"Struct", <<"named", << <<"f", F_N, <<"U8">> >> >> >> >>, [g |-> 1], <<>>),
    Tr(<<"Struct", <<"named", << <<"f", F_N, <<"U8">> >> >> >> >>, [f |-> 1, g |-> 2], <<>>),
    Tr(<<"Enum", << <<"A", A_N, <<"none">> >> >> >>, [Z |-> <<>>], <<>>),
    Tr(<<"ByteArray", 2>>, "abcdef", <<>>), Tr(<<"ByteArray", 2>>, "zz", <<>>), Tr(<<"ByteList", 0>>, "abc", <<>>),
    Tr(<<"ULeb128", 1>>, "128", <<>>), Tr(<<"ULeb128", 5>>, "-1", <<>>), Tr(<<"Amount">>, "1.5", <<>>),
    Tr(<<"ContractName", 1>>, [contract |-> "a.b"], <<>>), Tr(<<"Timestamp">>, "yesterday", <<>>) >>

(* bytes that are not an encoding of any value of the type *)
BadBytes ==
  << Tr(<<"Bool">>, 0, Bt(<<2>>)), Tr(<<"U16">>, 0, Bt(<<1>>)), Tr(<<"String", 0>>, 0, Bt(<<2, 195, 40>>)), Tr(<<"String", 2>>, 0, Le(4, 5) \o Bt(HI)),
    Tr(<<"Enum", << <<"A", A_N, <<"none">> >> >> >>, 0, Bt(<<1>>)), Tr(<<"TaggedEnum", << <<5, "A", A_N, <<"none">> >> >> >>, 0, Bt(<<6>>)),
    Tr(<<"ULeb128", 2>>, 0, Bt(<<128, 128, 1>>)), Tr(<<"List", 3, <<"U8">> >>, 0, Le(8, 2147483647) \o Bt(<<1>>)),
    Tr(<<"ByteList", 2>>, 0, Le(4, 2147483647) \o Bt(<<1, 2, 3, 4, 5>>)), Tr(<<"ByteArray", 2147483647>>, 0, Bt(<<1, 2, 3>>)),
    Tr(<<"ContractName", 1>>, 0, Le(2, 3) \o Bt(<<97, 46, 98>>)), Tr(<<"Array", 2147483647, <<"U8">> >>, 0, Bt(<<1, 2>>)),
    \* long strings that end early: declared 5000 / 100000 / 2^31-1 bytes, fewer present
    Tr(<<"String", 1>>, 0, LenPrefix(1, 5000) \o << <<"r", 97, 10>> >>), Tr(<<"String", 2>>, 0, LenPrefix(2, 100000) \o << <<"r", 97, 70>> >>),
    Tr(<<"String", 3>>, 0, LenPrefix(3, 2147483647) \o << <<"r", 97, 5>> >>), Tr(<<"String", 1>>, 0, LenPrefix(1, 4097) \o << <<"r", 97, 4096>> >>),
    Tr(<<"ContractName", 2>>, 0, LenPrefix(2, 5000) \o << <<"r", 97, 10>> >>), Tr(<<"ReceiveName", 1>>, 0, LenPrefix(1, 5000) \o << <<"r", 46, 10>> >>) >>

(* enums at the tag-width boundary: up to 256 variants the tag is one byte, above that two bytes (little endian) *)
RECURSIVE DigitCodes(_)
DigitCodes(n) == IF n < 10 THEN <<48 + n>> ELSE DigitCodes(n \div 10) \o <<48 + (n % 10)>>
VName(i) == "V" \o ToString(i)
BigEnumT(n) == <<"Enum", [i \in 1..n |-> <<VName(i - 1), <<86>> \o DigitCodes(i - 1), (IF i = n THEN <<"unnamed", << <<"U16">> >> >> ELSE <<"none">>)>>]>>
TagBytes(n, i) == IF n <= 256 THEN Bt(<<i>>) ELSE Le(2, i)
BigEnums ==
  Flat([k \in 1..3 |-> LET n == 254 + k IN
        << Tr(BigEnumT(n), (VName(0) :> <<>>), TagBytes(n, 0)),
           Tr(BigEnumT(n), (VName(n - 2) :> <<>>), TagBytes(n, n - 2)),
           Tr(BigEnumT(n), (VName(n - 1) :> <<258>>), TagBytes(n, n - 1) \o Le(2, 258)) >>])

-----------------------------------------------------------------------------
(* Module schemas, versions 0..3 (schema.rs).  Maps are u32 count + entries, names are u32 length + bytes, options are a 0/1 byte.       *)
(* The versioned form is ff ff <version> ++ module.  A module here has one contract "c" with an optional init and receive functions.    *)
OptT(o) == IF o = <<>> THEN Bt(<<0>>) ELSE Bt(<<1>>) \o EncType(o[1])
FnV1(f) == CASE f.p # <<>> /\ f.r = <<>> -> Bt(<<0>>) \o EncType(f.p[1])
             [] f.p = <<>> /\ f.r # <<>> -> Bt(<<1>>) \o EncType(f.r[1])
             [] f.p # <<>> /\ f.r # <<>> -> Bt(<<2>>) \o EncType(f.p[1]) \o EncType(f.r[1])
FnV2Tag(f) == CASE f.p # <<>> /\ f.r = <<>> /\ f.e = <<>> -> 0 [] f.p = <<>> /\ f.r # <<>> /\ f.e = <<>> -> 1 [] f.p # <<>> /\ f.r # <<>> /\ f.e = <<>> -> 2
                [] f.p = <<>> /\ f.r = <<>> /\ f.e # <<>> -> 3 [] f.p # <<>> /\ f.r = <<>> /\ f.e # <<>> -> 4 [] f.p = <<>> /\ f.r # <<>> /\ f.e # <<>> -> 5
                [] f.p # <<>> /\ f.r # <<>> /\ f.e # <<>> -> 6 [] OTHER -> 7
FnV2(f) == Bt(<<FnV2Tag(f)>>) \o (IF f.p = <<>> THEN <<>> ELSE EncType(f.p[1])) \o (IF f.r = <<>> THEN <<>> ELSE EncType(f.r[1])) \o (IF f.e = <<>> THEN <<>> ELSE EncType(f.e[1]))
EncFn(ver, f) == CASE ver = 0 -> EncType(f.p[1]) [] ver = 1 -> FnV1(f) [] OTHER -> FnV2(f)
OptFn(ver, o) == IF o = <<>> THEN Bt(<<0>>) ELSE Bt(<<1>>) \o EncFn(ver, o[1])
R_N == <<114>>    \* "r"
S_N == <<115>>    \* "s"
C_NAME == <<99>>  \* "c"
EncContract(ver, c) ==
  (IF ver = 0 THEN OptT(c.state) ELSE <<>>) \o OptFn(ver, c.init)
  \o Le(4, Len(c.receive)) \o Flat([i \in 1..Len(c.receive) |-> StrBytes(c.receive[i][2]) \o EncFn(ver, c.receive[i][3])])
  \o (IF ver = 3 THEN OptT(c.event) ELSE <<>>)
EncModule(ver, c) == Le(4, 1) \o StrBytes(C_NAME) \o EncContract(ver, c)
Fn(p, r, e) == [p |-> p, r |-> r, e |-> e]
ModTypes == << <<"U8">>, <<"String", 1>>, <<"Pair", <<"U8">>, <<"Bool">> >> >>
FnsFor(ver) ==
  IF ver = 0 THEN [i \in 1..3 |-> Fn(<<ModTypes[i]>>, <<>>, <<>>)]
  ELSE IF ver = 1 THEN << Fn(<<ModTypes[1]>>, <<>>, <<>>), Fn(<<>>, <<ModTypes[2]>>, <<>>), Fn(<<ModTypes[3]>>, <<ModTypes[1]>>, <<>>) >>
  ELSE << Fn(<<ModTypes[1]>>, <<>>, <<>>), Fn(<<>>, <<ModTypes[2]>>, <<>>), Fn(<<ModTypes[3]>>, <<ModTypes[1]>>, <<>>), Fn(<<>>, <<>>, <<ModTypes[1]>>),
          Fn(<<ModTypes[2]>>, <<>>, <<ModTypes[1]>>), Fn(<<>>, <<ModTypes[1]>>, <<ModTypes[3]>>), Fn(<<ModTypes[1]>>, <<ModTypes[2]>>, <<ModTypes[3]>>), Fn(<<>>, <<>>, <<>>) >>
Contracts(ver) ==
  Flat([i \in 1..Len(FnsFor(ver)) |->
     << [state |-> <<>>, init |-> <<FnsFor(ver)[i]>>, receive |-> << <<"r", R_N, FnsFor(ver)[i]>> >>, event |-> <<>>],
        [state |-> << <<"U8">> >>, init |-> <<>>, receive |-> << <<"r", R_N, FnsFor(ver)[i]>>, <<"s", S_N, FnsFor(ver)[1]>> >>, event |-> << <<"String", 1>> >>],
        [state |-> <<>>, init |-> <<FnsFor(ver)[i]>>, receive |-> <<>>, event |-> <<>>] >>])
ParamOf(f) == IF f.p = <<>> THEN <<>> ELSE <<EncType(f.p[1])>>
ModVec(ver, c) == [kind |-> "module", ver |-> ver, mb |-> EncModule(ver, c),
                   init_param |-> IF c.init = <<>> THEN <<>> ELSE ParamOf(c.init[1]), has_init |-> c.init # <<>>,
                   recv_param |-> IF c.receive = <<>> THEN <<>> ELSE ParamOf(c.receive[1][3]), has_recv |-> c.receive # <<>>,
                   t |-> <<"Unit">>, j |-> 0, b |-> <<>>, tb |-> EncType(<<"Unit">>)]
ModuleVecs == Flat([v \in 1..4 |-> [i \in 1..Len(Contracts(v - 1)) |-> ModVec(v - 1, Contracts(v - 1)[i])]])

Kinded(kind, S) == [i \in 1..Len(S) |-> [kind |-> kind, t |-> S[i].t, j |-> S[i].j, b |-> S[i].b, tb |-> EncType(S[i].t)]]
AllVecs == Kinded("roundtrip", Level1 \o Level2 \o Level3 \o BigEnums) \o Kinded("bad_json", BadJson) \o Kinded("bad_bytes", BadBytes) \o ModuleVecs

VARIABLE idx
SInit == idx \in 1..Len(AllVecs)
SSpec == SInit /\ [][UNCHANGED idx]_idx
SExport == PrintT(<<"REPLAY", ToJson(AllVecs[idx])>>)
=============================================================================
