SPECIFICATION WSpec
INVARIANTS NearMissDistinct EncInjective WExport
CHECK_DEADLOCK FALSE
