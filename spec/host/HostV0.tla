-------------------------------- MODULE HostV0 --------------------------------
(***************************************************************************)
(* The legacy (V0) host interface of a receive function (C14): the flat     *)
(* contract state of at most 16 KiB (state_size, load_state, write_state,    *)
(* resize_state), logs, the parameter, and the action tree (accept,          *)
(* simple_transfer, combine_and / combine_or over indices of earlier         *)
(* actions).  Same conventions as HostV1: negative integers are values       *)
(* >= 2^31, windows outside the 64 KiB memory trap.                           *)
(***************************************************************************)
EXTENDS Naturals, Integers, Sequences, FiniteSets, TLC, Json

CONSTANTS MaxOps, Hostile

MemLen == 65536
MaxState == 16384
MaxLogSize == 512
MaxNumLogs == 64
InMem(p, l) == p >= 0 /\ l >= 0 /\ p <= MemLen /\ l <= MemLen /\ p + l <= MemLen
Min(a, b) == IF a < b THEN a ELSE b
Max(a, b) == IF a > b THEN a ELSE b

Ptrs == IF Hostile THEN {0, 1024, 65535, 65536, 65537, -1} ELSE {0, 1024}
Lens == IF Hostile THEN {0, 1, 100, 16384, 16385, 65536, 65537, -1} ELSE {0, 1, 100, 513, 16384, 16385, 40000}
Offs == IF Hostile THEN {0, 1, 99, 100, 101, 16383, 16384, 16385, -1} ELSE {0, 100, 101, 16384}
Sizes == {0, 1, 100, 16383, 16384, 16385, 65536, -1}

VARIABLES limited, pl, slen, logs, nact, outcome, hist
vvars == <<limited, pl, slen, logs, nact, outcome, hist>>
vview == <<limited, pl, slen, logs, nact, outcome>>

VInit == /\ limited \in BOOLEAN /\ pl \in {0, 5} /\ slen \in {0, 100, 16384}
         /\ logs = 0 /\ nact = 0 /\ outcome = "running" /\ hist = <<[f |-> "init", args |-> <<slen>>, r |-> <<"i", slen>>]>>

Running == outcome = "running" /\ Len(hist) <= MaxOps
Op(f, args, r) == [f |-> f, args |-> args, r |-> r]
Step(op, s2, l2, n2) ==
  /\ hist' = Append(hist, op)
  /\ slen' = s2 /\ logs' = l2 /\ nact' = n2
  /\ outcome' = IF op.r[1] \in {"trap", "trap_or_ooe"} THEN "trap" ELSE "running"
  /\ UNCHANGED <<limited, pl>>

StateSize == Running /\ Step(Op("state_size", <<>>, <<"i", slen>>), slen, logs, nact)
LoadState(p, l, o) ==
  /\ Running
  /\ LET r == IF ~InMem(p, l) THEN <<"trap_or_ooe">> ELSE IF o < 0 \/ o > slen THEN <<"trap">> ELSE <<"i", Min(l, slen - o)>>
     IN Step(Op("load_state", <<p, l, o>>, r), slen, logs, nact)
WriteState(p, l, o) ==
  /\ Running
  /\ LET ok == InMem(p, l) /\ o >= 0 /\ o <= slen
         end == Min(o + l, MaxState)
         r == IF ~InMem(p, l) THEN <<"trap_or_ooe">> ELSE IF ~ok THEN <<"trap">> ELSE <<"i", end - o>>
     IN Step(Op("write_state", <<p, l, o>>, r), IF ok THEN Max(slen, end) ELSE slen, logs, nact)
ResizeState(n) ==
  /\ Running
  /\ LET ok == n >= 0 /\ n <= MaxState
     IN Step(Op("resize_state", <<n>>, <<"i", IF ok THEN 1 ELSE 0>>), IF ok THEN n ELSE slen, logs, nact)
LogEvent(p, l) ==
  /\ Running
  /\ LET full == limited /\ logs >= MaxNumLogs
         r == IF ~InMem(p, l) THEN <<"trap">> ELSE IF l > MaxLogSize THEN <<"i", -1>> ELSE IF full THEN <<"i", 0>> ELSE <<"i", 1>>
     IN Step(Op("log_event", <<p, l>>, r), slen, IF r = <<"i", 1>> THEN logs + 1 ELSE logs, nact)
LogBurst == Running /\ logs = 0 /\ Step(Op("log_burst", <<63>>, <<"i", 1>>), slen, 63, nact)
GetParameterSize == Running /\ Step(Op("get_parameter_size", <<>>, <<"i", pl>>), slen, logs, nact)
GetParameterSection(p, l, o) ==
  /\ Running
  /\ LET r == IF ~InMem(p, l) THEN <<"trap_or_ooe">> ELSE IF o < 0 \/ o > pl THEN <<"trap">> ELSE <<"i", Min(l, pl - o)>>
     IN Step(Op("get_parameter_section", <<p, l, o>>, r), slen, logs, nact)
(* w only weights the choice in random simulation *)
Accept(w) == Running /\ Step(Op("accept", <<>>, <<"i", nact>>) @@ [w |-> w], slen, logs, nact + 1)
SimpleTransfer(p) == Running /\ Step(Op("simple_transfer", <<p>>, IF InMem(p, 32) THEN <<"i", nact>> ELSE <<"trap">>), slen, logs, IF InMem(p, 32) THEN nact + 1 ELSE nact)
Combine(f, l, r) ==
  /\ Running
  /\ LET ok == l >= 0 /\ r >= 0 /\ l < nact /\ r < nact
     IN Step(Op(f, <<l, r>>, IF ok THEN <<"i", nact>> ELSE <<"trap">>), slen, logs, IF ok THEN nact + 1 ELSE nact)
Finish == Running /\ Len(hist) > 1 /\ outcome' = "success" /\ UNCHANGED <<limited, pl, slen, logs, nact>>
          /\ hist' = Append(hist, Op("finish", <<>>, <<"success", slen, logs, nact>>))

VNext ==
  \/ StateSize \/ GetParameterSize \/ LogBurst \/ Finish
  \/ \E w \in (IF Hostile THEN {1} ELSE 1..40) : Accept(w)
  \/ \E p \in Ptrs, l \in Lens, o \in Offs : LoadState(p, l, o) \/ WriteState(p, l, o)
  \/ \E n \in Sizes : ResizeState(n)
  \/ \E p \in Ptrs, l \in {0, 1, 512, 513, 65536, -1} : LogEvent(p, l)
  \/ \E p \in Ptrs, l \in {0, 1, 5, 6, 65536, -1}, o \in {0, 1, 5, 6, -1} : GetParameterSection(p, l, o)
  \/ \E p \in Ptrs \cup {65504, 65505} : SimpleTransfer(p)
  \/ \E f \in {"combine_and", "combine_or"}, l \in {0, 1, 2, -1}, r \in {0, 1, 2, -1} : Combine(f, l, r)
VSpec == VInit /\ [][VNext]_vvars

StateLimit == slen <= MaxState
LogLimit == limited => logs <= MaxNumLogs
Outcomes == outcome \in {"running", "success", "trap"}
Bound == Len(hist) <= MaxOps + 1
ExportDone == outcome # "running" => PrintT(<<"REPLAY", ToJson([limited |-> limited, pl |-> pl, ops |-> hist])>>)
ExportEdge == PrintT(<<"REPLAY", ToJson([limited |-> limited, pl |-> pl, ops |-> hist'])>>)
=============================================================================
