SPECIFICATION VSpec
CONSTANTS
  MaxOps = 3
  Hostile = TRUE
INVARIANTS StateLimit LogLimit Outcomes
VIEW vview
CONSTRAINT Bound
CHECK_DEADLOCK FALSE
