SPECIFICATION HSpec
CONSTANTS
  MaxOps = 4
  Hostile = TRUE
INVARIANTS Outcomes LogLimit RvLimit NoOutsideAccess
VIEW hview
CONSTRAINT Bound
CHECK_DEADLOCK FALSE
