SPECIFICATION HSpec
CONSTANTS
  MaxOps = 7
  Hostile = FALSE
INVARIANTS Outcomes LogLimit RvLimit NoOutsideAccess ExportDone
CHECK_DEADLOCK FALSE
