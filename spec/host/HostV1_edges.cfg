SPECIFICATION HSpec
CONSTANTS
  MaxOps = 1
  Hostile = TRUE
INVARIANTS Outcomes LogLimit RvLimit NoOutsideAccess
VIEW hview
CONSTRAINT Bound
ACTION_CONSTRAINT ExportEdge
CHECK_DEADLOCK FALSE
