SPECIFICATION VSpec
CONSTANTS
  MaxOps = 7
  Hostile = FALSE
INVARIANTS StateLimit LogLimit Outcomes ExportDone
CHECK_DEADLOCK FALSE
