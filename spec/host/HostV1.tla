-------------------------------- MODULE HostV1 --------------------------------
(***************************************************************************)
(* The V1 host interface as seen from inside a receive function (C14):     *)
(* one action per host call, with the condition under which the call traps  *)
(* (a pointer/length window outside the 64 KiB linear memory, an offset     *)
(* beyond the data, an unknown or unsupported invoke tag, a payload of the   *)
(* wrong length), the value it returns otherwise, its effect on the          *)
(* contract-visible state (return value length, number of logs) and the      *)
(* energy it must charge at least (constants.rs, transcribed).               *)
(* Integers are i32 operands: negative numbers stand for values >= 2^31.     *)
(* Protocol parameter sets: P4 limits logs (64) and return values (16 KiB)   *)
(* and has no queries; P5 adds queries; P6 signature checks; P7 inspection.  *)
(* State host functions on well-formed arguments are specified by            *)
(* spec/trie/InstanceHandles.tla; here they appear with hostile windows and  *)
(* garbage handles only.                                                      *)
(***************************************************************************)
EXTENDS Naturals, Integers, Sequences, FiniteSets, TLC, Json

CONSTANTS MaxOps, Hostile   \* Hostile = TRUE: every boundary class of pointers and lengths; FALSE: windows inside memory (longer scripts)

MemLen == 65536
MaxLogSize == 512
MaxNumLogs == 64
MaxRv == 16384

InMem(p, l) == p >= 0 /\ l >= 0 /\ p <= MemLen /\ l <= MemLen /\ p + l <= MemLen
Min(a, b) == IF a < b THEN a ELSE b
Max(a, b) == IF a > b THEN a ELSE b

Ptrs == IF Hostile THEN {0, 1024, 65535, 65536, 65537, 2147483647, -1} ELSE {0, 1024}
Lens == IF Hostile THEN {0, 1, 40, 512, 513, 65536, 65537, -1} ELSE {0, 1, 40, 512, 513}
SmallLens == {0, 1, 40, 512, 513}
Offs == {0, 1, 5, 6, 2000, -1}

VARIABLES proto, pl, logs, rv, outcome, hist, entry    \* entry: the script is the body of a receive function or of an init function
hvars == <<proto, pl, logs, rv, outcome, hist, entry>>
hview == <<proto, pl, logs, rv, outcome, entry>>
(* functions that only a receive function may call trap inside init, and get_init_origin traps inside receive *)
ReceiveOnly(f) == f \in {"invoke", "invoke_call", "get_receive_invoker", "get_receive_self_address", "get_receive_self_balance", "get_receive_sender", "get_receive_owner",
                         "get_receive_entrypoint_size", "get_receive_entrypoint"}
WrongEntry(f) == (entry = "init" /\ ReceiveOnly(f)) \/ (entry = "receive" /\ f = "get_init_origin")

Limited == proto = 4
Queries == proto >= 5
SigChecks == proto >= 6
Inspection == proto >= 7

HInit == /\ proto \in {4, 5, 6, 7} /\ pl \in {0, 5, 2000} /\ entry \in {"receive", "init"}
         /\ logs = 0 /\ rv = 0 /\ outcome = "running" /\ hist = <<>>

Running == outcome = "running" /\ Len(hist) < MaxOps
(* op record: function, i32/i64 arguments, expected result, energy the call must charge at least *)
Op(f, args, r, minE) == [f |-> f, args |-> args, r |-> r, min_energy |-> minE]
Step(op0, newLogs0, newRv0) ==
  LET wrong == WrongEntry(op0.f)
      op == IF wrong THEN [op0 EXCEPT !.r = <<"trap">>, !.min_energy = 0] ELSE op0
      newLogs == IF wrong THEN logs ELSE newLogs0
      newRv == IF wrong THEN rv ELSE newRv0
  IN
  /\ hist' = Append(hist, op)
  /\ logs' = newLogs /\ rv' = newRv
  /\ outcome' = IF op.r[1] \in {"trap", "trap_or_ooe"} THEN "trap" ELSE IF op.r[1] = "interrupt" THEN "interrupt" ELSE "running"
  /\ UNCHANGED <<proto, pl, entry>>

CopyParamCost(len) == IF len < 0 THEN 2147483647 ELSE IF len <= 1024 THEN 10 + len ELSE IF len > 2000000 THEN 2147483647 ELSE 10 + 1000 * len
Lin(base, per, len) == IF len < 0 \/ len > 20000000 THEN 2147483647 ELSE base + per * len

GetParameterSize(i) == Running /\ Step(Op("get_parameter_size", <<i>>, <<"i", IF i = 0 THEN pl ELSE -1>>, 0), logs, rv)

GetParameterSection(i, p, l, o) ==
  /\ Running
  /\ LET r == IF i # 0 THEN <<"i", -1>>
              ELSE IF ~InMem(p, l) THEN <<"trap_or_ooe">>
              ELSE IF o < 0 \/ o > pl THEN <<"trap">>
              ELSE <<"i", Min(l, pl - o)>>
     IN Step(Op("get_parameter_section", <<i, p, l, o>>, r, CopyParamCost(l)), logs, rv)

WriteOutput(p, l, o) ==
  /\ Running
  /\ LET ok == InMem(p, l) /\ o >= 0 /\ o <= rv
         end == IF Limited THEN Min(o + l, MaxRv) ELSE o + l
         r == IF ~InMem(p, l) THEN <<"trap_or_ooe">> ELSE IF ~ok THEN <<"trap">> ELSE <<"i", end - o>>
     IN Step(Op("write_output", <<p, l, o>>, r, Lin(10, 1, l)), logs, IF ok THEN Max(rv, end) ELSE rv)

LogEvent(p, l) ==
  /\ Running
  /\ LET full == Limited /\ logs >= MaxNumLogs
         r == IF ~InMem(p, l) THEN <<"trap">> ELSE IF l > MaxLogSize THEN <<"i", -1>> ELSE IF full THEN <<"i", 0>> ELSE <<"i", 1>>
     IN Step(Op("log_event", <<p, l>>, r, IF InMem(p, l) /\ l <= MaxLogSize THEN 500 + 1000 * l ELSE 0), IF r = <<"i", 1>> THEN logs + 1 ELSE logs, rv)

(* sixty-three one-byte logs in a row (to reach the limit of 64 within a short script); every one returns 1 unless the limit is hit *)
LogBurst ==
  /\ Running /\ logs = 0
  /\ Step(Op("log_burst", <<63>>, <<"i", 1>>, 0), 63, rv)

(* getters that write a fixed number of bytes at a pointer: invoker 32, self address 16, sender (an account) 33, owner 32, entrypoint name 5 *)
GetterSize(f) == CASE f = "get_init_origin" -> 32 [] f = "get_receive_invoker" -> 32 [] f = "get_receive_self_address" -> 16 [] f = "get_receive_sender" -> 33
                   [] f = "get_receive_owner" -> 32 [] f = "get_receive_entrypoint" -> 5
Getter(f, p) == Running /\ Step(Op(f, <<p>>, IF InMem(p, GetterSize(f)) THEN <<"void">> ELSE <<"trap">>, 0), logs, rv)
Scalar(f) == Running /\ Step(Op(f, <<>>, <<"ctx">>, 0), logs, rv)      \* get_slot_time, get_receive_self_balance, get_receive_entrypoint_size

Hash(f, p, l, out) ==
  /\ Running
  /\ Step(Op(f, <<p, l, out>>, IF InMem(p, l) /\ InMem(out, 32) THEN <<"hash">> ELSE <<"trap_or_ooe">>,
             Lin(500, IF f = "hash_sha2_256" THEN 7 ELSE 5, l)), logs, rv)

(* signature checks read three windows: public key (32 / 33 bytes), signature (64) and message (given length / 32); the verdict itself is
   not specified here (0 or 1), only that every window is checked before anything is read *)
VerifyEd25519(pk, sig, msg, l) ==
  /\ Running
  /\ Step(Op("verify_ed25519_signature", <<pk, sig, msg, l>>, IF InMem(pk, 32) /\ InMem(sig, 64) /\ InMem(msg, l) THEN <<"any01">> ELSE <<"trap_or_ooe">>,
             IF InMem(pk, 32) /\ InMem(sig, 64) /\ InMem(msg, l) THEN 100000 + 100 * l ELSE 0), logs, rv)
VerifySecp256k1(pk, sig, msg) ==
  /\ Running
  /\ Step(Op("verify_ecdsa_secp256k1_signature", <<pk, sig, msg>>, IF InMem(pk, 33) /\ InMem(sig, 64) /\ InMem(msg, 32) THEN <<"any01">> ELSE <<"trap_or_ooe">>,
             IF InMem(pk, 33) /\ InMem(sig, 64) /\ InMem(msg, 32) THEN 100000 ELSE 0), logs, rv)

(* memory.grow by a number of pages that can never be granted: fails with -1, memory is unchanged, and the request is charged
   100 energy per page before anything else (pages as an i32 operand; the charge is computed in the harness in 64 bits) *)
MemoryGrow(pages) == Running /\ Step(Op("memory.grow", <<pages>>, <<"i", -1>>, 0), logs, rv)

(* state functions taking a key window: on the empty state with a window in memory they find nothing; outside memory they trap (or run out
   of energy first: the charge is a function of the claimed length) *)
KeyFn(f, p, l) ==
  /\ Running
  /\ LET r == IF ~InMem(p, l) THEN <<"trap_or_ooe">>
              ELSE CASE f = "state_lookup_entry" -> <<"i64none">> [] f = "state_create_entry" -> <<"i64some">> [] f = "state_delete_entry" -> <<"i", 1>>
                     [] f = "state_delete_prefix" -> <<"i", 1>> [] f = "state_iterate_prefix" -> <<"i64none">>
     IN Step(Op(f, <<p, l>>, r, 0), logs, rv)
(* handle functions with a handle that was never issued: u32::MAX when the window is in memory *)
HandleFn(f, p, l, o) ==
  /\ Running
  /\ Step(Op(f, <<"garbage", p, l, o>>, IF InMem(p, l) THEN <<"i", -1>> ELSE <<"trap_or_ooe">>, 0), logs, rv)

(* invoke: tag, payload window.  Payload lengths: transfer 40, account balance 32, contract balance 16, exchange rates 0, signature
   check >= 32, account keys 32, module reference 16, contract name 16; a call payload is parsed (see CallPayload in the harness) *)
Supported(tag) == tag \in {0, 1} \/ (tag \in {2, 3, 4} /\ Queries) \/ (tag \in {5, 6} /\ SigChecks) \/ (tag \in {7, 8} /\ Inspection)
LenOk(tag, l) == CASE tag = 0 -> l = 40 [] tag = 2 -> l = 32 [] tag = 3 -> l = 16 [] tag = 4 -> l = 0 [] tag = 5 -> l >= 32 [] tag = 6 -> l = 32
                   [] tag = 7 -> l = 16 [] tag = 8 -> l = 16 [] OTHER -> TRUE
Invoke(tag, p, l) ==
  /\ Running /\ tag # 1
  /\ LET r == IF ~Supported(tag) THEN <<"trap">> ELSE IF ~LenOk(tag, l) THEN <<"trap">>
              ELSE IF tag # 4 /\ ~InMem(p, l) THEN <<"trap">>      \* the exchange-rate query has no payload: its pointer is never used
              ELSE <<"interrupt", tag>>
     IN Step(Op("invoke", <<tag, p, l>>, r, 500), logs, rv)
(* call: the payload is address (16) ++ u16 parameter length ++ parameter ++ u16 name length ++ name ++ amount (8); the parameter may be at
   most 1024 bytes in P4 and 65535 bytes later; plen is the declared parameter length, the payload carries it in full *)
InvokeCall(plen, truncated) ==
  /\ Running
  /\ LET tooBig == plen > (IF Limited THEN 1024 ELSE 65535)
         r == IF tooBig \/ truncated THEN <<"trap">> ELSE <<"interrupt", 1>>
     IN Step(Op("invoke_call", <<plen, IF truncated THEN 1 ELSE 0>>, r, 500), logs, rv)

Finish == Running /\ hist # <<>> /\ outcome' = "success" /\ UNCHANGED <<proto, pl, logs, rv, entry>> /\ hist' = Append(hist, Op("finish", <<>>, <<"success", rv, logs>>, 0))

HNext ==
  \/ \E i \in {0, 1, -1} : GetParameterSize(i)
  \/ \E i \in {0, 1}, p \in Ptrs, l \in Lens, o \in Offs : GetParameterSection(i, p, l, o)
  \/ \E p \in Ptrs, l \in Lens \cup {16384, 16385}, o \in {0, 1, 16383, 16384, 16385, -1} : WriteOutput(p, l, o)
  \/ \E p \in Ptrs, l \in Lens : LogEvent(p, l)
  \/ LogBurst
  \/ \E f \in {"get_init_origin", "get_receive_invoker", "get_receive_self_address", "get_receive_sender", "get_receive_owner", "get_receive_entrypoint"}, p \in Ptrs \cup {65503, 65504, 65505, 65520, 65521, 65531, 65532} : Getter(f, p)
  \/ \E f \in {"get_slot_time", "get_receive_self_balance", "get_receive_entrypoint_size"} : Scalar(f)
  \/ \E f \in {"hash_sha2_256", "hash_sha3_256", "hash_keccak_256"}, p \in Ptrs, l \in {0, 1, 40, 65536, -1}, out \in {2048, 65504, 65505, -1} : Hash(f, p, l, out)
  \/ \E f \in {"state_lookup_entry", "state_create_entry", "state_delete_entry", "state_delete_prefix", "state_iterate_prefix"}, p \in Ptrs, l \in {0, 1, 40, 65536, 65537, -1} : KeyFn(f, p, l)
  \/ \E f \in {"state_entry_read", "state_entry_write", "state_iterator_key_read"}, p \in Ptrs, l \in {0, 1, 65536, 65537, -1}, o \in {0, 1, -1} : HandleFn(f, p, l, o)
  \/ \E tag \in {0, 2, 3, 4, 5, 6, 7, 8, 9, -1}, p \in {0, 1024, 65535, 65536, -1}, l \in {0, 16, 32, 40, 41, 65536} : Invoke(tag, p, l)
  \/ \E plen \in {0, 5, 1024, 1025, 60000}, t \in BOOLEAN : InvokeCall(plen, t)
  \/ \E pk \in {0, 65504, 65505, -1}, sig \in {1024, 65472, 65473, -1}, msg \in {2048, 65535, 65536, -1}, l \in {0, 1, 40, 65536} : Hostile /\ VerifyEd25519(pk, sig, msg, l)
  \/ \E pk \in {0, 65503, 65504, -1}, sig \in {1024, 65472, 65473, -1}, msg \in {2048, 65504, 65505, -1} : Hostile /\ VerifySecp256k1(pk, sig, msg)
  \/ \E pages \in {65536, 42949672, 42949673, 2147483647, -1} : MemoryGrow(pages)
  \/ Finish
HSpec == HInit /\ [][HNext]_hvars

(* ----- properties of the interface ----- *)
Outcomes == outcome \in {"running", "success", "trap", "interrupt"}
LogLimit == Limited => logs <= MaxNumLogs
RvLimit == Limited => rv <= MaxRv
(* no successful call ever names a window outside memory *)
NoOutsideAccess == \A i \in 1..Len(hist) : LET op == hist[i] IN
   (op.f \in {"write_output", "log_event"} /\ op.r[1] = "i" /\ op.r[2] >= 0) => InMem(op.args[1], op.args[2])
Bound == Len(hist) <= MaxOps
ExportDone == outcome # "running" => PrintT(<<"REPLAY", ToJson([proto |-> proto, pl |-> pl, entry |-> entry, ops |-> hist])>>)
ExportEdge == PrintT(<<"REPLAY", ToJson([proto |-> proto, pl |-> pl, entry |-> entry, ops |-> hist'])>>)
=============================================================================
