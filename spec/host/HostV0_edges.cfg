SPECIFICATION VSpec
CONSTANTS
  MaxOps = 1
  Hostile = TRUE
INVARIANTS StateLimit LogLimit Outcomes
VIEW vview
CONSTRAINT Bound
ACTION_CONSTRAINT ExportEdge
CHECK_DEADLOCK FALSE
