--------------------------------- MODULE ALU ---------------------------------
(***************************************************************************)
(* Exact WebAssembly integer arithmetic, written so that no intermediate   *)
(* value leaves TLC's 32-bit integers.  A value is a little-endian         *)
(* sequence of 16-bit limbs: 2 limbs = i32, 4 limbs = i64.                 *)
(* Written from the WebAssembly 1.0 specification (numerics section) and   *)
(* the sign-extension operators proposal; not from the engine.             *)
(***************************************************************************)
EXTENDS Naturals, Integers, Sequences

B == 65536
Zero(n) == [i \in 1..n |-> 0]
One(n) == [i \in 1..n |-> IF i = 1 THEN 1 ELSE 0]
Bits(x) == 16 * Len(x)

(* small naturals (< 2^31) to limbs *)
FromNat(v, n) == [i \in 1..n |-> IF i = 1 THEN v % B ELSE IF i = 2 THEN v \div B ELSE 0]

RECURSIVE AddC(_, _, _, _)
AddC(x, y, i, c) ==
  IF i > Len(x) THEN <<>>
  ELSE LET s == x[i] + y[i] + c IN <<s % B>> \o AddC(x, y, i + 1, s \div B)

NotL(x) == [i \in DOMAIN x |-> B - 1 - x[i]]
Add(x, y) == AddC(x, y, 1, 0)
Sub(x, y) == AddC(x, NotL(y), 1, 1)
Neg(x) == AddC(NotL(x), Zero(Len(x)), 1, 1)

(* integers in -(2^31-1)..2^31-1 to limbs (two's complement) *)
FromInt(v, n) == IF v >= 0 THEN FromNat(v, n) ELSE Neg(FromNat(-v, n))
MinVal(n) == [i \in 1..n |-> IF i = n THEN 32768 ELSE 0]
MaxVal(n) == [i \in 1..n |-> IF i = n THEN 32767 ELSE 65535]
AllOnes(n) == [i \in 1..n |-> 65535]

IsZero(x) == \A i \in DOMAIN x : x[i] = 0
IsNeg(x) == x[Len(x)] >= 32768

RECURSIVE LtUFrom(_, _, _)
LtUFrom(x, y, i) ==
  IF i = 0 THEN FALSE
  ELSE IF x[i] < y[i] THEN TRUE
  ELSE IF x[i] > y[i] THEN FALSE
  ELSE LtUFrom(x, y, i - 1)
LtU(x, y) == LtUFrom(x, y, Len(x))
LtS(x, y) == IF IsNeg(x) # IsNeg(y) THEN IsNeg(x) ELSE LtU(x, y)

(* bit views, least significant bit first *)
Pow2(k) == CASE k = 0 -> 1 [] k = 1 -> 2 [] k = 2 -> 4 [] k = 3 -> 8 [] k = 4 -> 16 [] k = 5 -> 32 [] k = 6 -> 64
             [] k = 7 -> 128 [] k = 8 -> 256 [] k = 9 -> 512 [] k = 10 -> 1024 [] k = 11 -> 2048 [] k = 12 -> 4096
             [] k = 13 -> 8192 [] k = 14 -> 16384 [] k = 15 -> 32768 [] k = 16 -> 65536
ToBits(x) == [i \in 1..(16 * Len(x)) |-> (x[((i - 1) \div 16) + 1] \div Pow2((i - 1) % 16)) % 2]
LimbOf(b, j) ==
  LET o == 16 * (j - 1) IN
  b[o + 1] + 2 * b[o + 2] + 4 * b[o + 3] + 8 * b[o + 4] + 16 * b[o + 5] + 32 * b[o + 6] + 64 * b[o + 7] + 128 * b[o + 8]
  + 256 * b[o + 9] + 512 * b[o + 10] + 1024 * b[o + 11] + 2048 * b[o + 12] + 4096 * b[o + 13] + 8192 * b[o + 14]
  + 16384 * b[o + 15] + 32768 * b[o + 16]
FromBits(b) == [j \in 1..(Len(b) \div 16) |-> LimbOf(b, j)]

BitOp(x, y, f(_, _)) == LET bx == ToBits(x) by == ToBits(y) IN FromBits([i \in DOMAIN bx |-> f(bx[i], by[i])])
And(x, y) == BitOp(x, y, LAMBDA a, b : a * b)
Or(x, y) == BitOp(x, y, LAMBDA a, b : IF a + b > 0 THEN 1 ELSE 0)
Xor(x, y) == BitOp(x, y, LAMBDA a, b : (a + b) % 2)

(* shift counts are taken modulo the bit width; the count is itself a value of the same type *)
ShiftCount(x, y) == y[1] % Bits(x)
Shl(x, y) == LET s == ShiftCount(x, y) b == ToBits(x) IN FromBits([i \in DOMAIN b |-> IF i - s >= 1 THEN b[i - s] ELSE 0])
ShrU(x, y) == LET s == ShiftCount(x, y) b == ToBits(x) n == Len(b) IN FromBits([i \in DOMAIN b |-> IF i + s <= n THEN b[i + s] ELSE 0])
ShrS(x, y) == LET s == ShiftCount(x, y) b == ToBits(x) n == Len(b) IN FromBits([i \in DOMAIN b |-> IF i + s <= n THEN b[i + s] ELSE b[n]])
Rotl(x, y) == LET s == ShiftCount(x, y) b == ToBits(x) n == Len(b) IN FromBits([i \in DOMAIN b |-> b[((i - 1 - s + n) % n) + 1]])
Rotr(x, y) == LET s == ShiftCount(x, y) b == ToBits(x) n == Len(b) IN FromBits([i \in DOMAIN b |-> b[((i - 1 + s) % n) + 1]])

RECURSIVE CountLeadingZeros(_, _)
CountLeadingZeros(b, i) == IF i = 0 THEN 0 ELSE IF b[i] = 1 THEN 0 ELSE 1 + CountLeadingZeros(b, i - 1)
RECURSIVE CountTrailingZeros(_, _)
CountTrailingZeros(b, i) == IF i > Len(b) THEN 0 ELSE IF b[i] = 1 THEN 0 ELSE 1 + CountTrailingZeros(b, i + 1)
RECURSIVE CountOnes(_, _)
CountOnes(b, i) == IF i > Len(b) THEN 0 ELSE b[i] + CountOnes(b, i + 1)
Clz(x) == FromNat(CountLeadingZeros(ToBits(x), Bits(x)), Len(x))
Ctz(x) == FromNat(CountTrailingZeros(ToBits(x), 1), Len(x))
Popcnt(x) == FromNat(CountOnes(ToBits(x), 1), Len(x))

(* multiplication modulo 2^N, schoolbook on bytes (column sums stay below 2^21) *)
ToBytes(x) == [i \in 1..(2 * Len(x)) |-> IF i % 2 = 1 THEN x[(i + 1) \div 2] % 256 ELSE x[i \div 2] \div 256]
FromBytes(b) == [j \in 1..(Len(b) \div 2) |-> b[2 * j - 1] + 256 * b[2 * j]]
RECURSIVE ColSum(_, _, _, _)
ColSum(a, b, k, i) == IF i > k THEN 0 ELSE a[i] * b[k + 1 - i] + ColSum(a, b, k, i + 1)
RECURSIVE MulGo(_, _, _, _)
MulGo(a, b, k, carry) ==
  IF k > Len(a) THEN <<>>
  ELSE LET s == carry + ColSum(a, b, k, 1) IN <<s % 256>> \o MulGo(a, b, k + 1, s \div 256)
Mul(x, y) == FromBytes(MulGo(ToBytes(x), ToBytes(y), 1, 0))

(* unsigned division: restoring division, remainder kept with one extra limb *)
Ext(x) == x \o <<0>>
RECURSIVE DivGo(_, _, _, _, _)
DivGo(xb, ye, i, r, q) ==   \* xb: bits of dividend; i: current bit (from the top); r: remainder (extended); q: quotient bits
  IF i = 0 THEN <<q, r>>
  ELSE LET r2 == AddC(r, r, 1, xb[i])
           ge == ~LtU(r2, ye)
       IN DivGo(xb, ye, i - 1, IF ge THEN Sub(r2, ye) ELSE r2, [q EXCEPT ![i] = IF ge THEN 1 ELSE 0])
DivRemU(x, y) ==   \* y # 0;  returns <<quotient, remainder>>
  LET res == DivGo(ToBits(x), Ext(y), Bits(x), Zero(Len(x) + 1), [i \in 1..Bits(x) |-> 0])
  IN <<FromBits(res[1]), SubSeq(res[2], 1, Len(x))>>

Abs(x) == IF IsNeg(x) THEN Neg(x) ELSE x

(* results: [trap |-> BOOLEAN, v |-> value] *)
Ok(v) == [trap |-> FALSE, v |-> v]
Trap == [trap |-> TRUE, v |-> <<>>]
Bool32(b) == IF b THEN One(2) ELSE Zero(2)

DivU(x, y) == IF IsZero(y) THEN Trap ELSE Ok(DivRemU(x, y)[1])
RemU(x, y) == IF IsZero(y) THEN Trap ELSE Ok(DivRemU(x, y)[2])
DivS(x, y) ==
  IF IsZero(y) THEN Trap
  ELSE IF x = MinVal(Len(x)) /\ y = AllOnes(Len(x)) THEN Trap      \* overflow: result 2^(N-1) is not representable
  ELSE LET q == DivRemU(Abs(x), Abs(y))[1] IN Ok(IF IsNeg(x) # IsNeg(y) THEN Neg(q) ELSE q)
RemS(x, y) ==   \* sign of the dividend; rem_s(MIN, -1) = 0
  IF IsZero(y) THEN Trap
  ELSE LET r == DivRemU(Abs(x), Abs(y))[2] IN Ok(IF IsNeg(x) THEN Neg(r) ELSE r)

BinopNames == {"add", "sub", "mul", "div_s", "div_u", "rem_s", "rem_u", "and", "or", "xor", "shl", "shr_s", "shr_u", "rotl", "rotr"}
RelopNames == {"eq", "ne", "lt_s", "lt_u", "gt_s", "gt_u", "le_s", "le_u", "ge_s", "ge_u"}
UnopNames == {"clz", "ctz", "popcnt"}

Binop(name, x, y) ==
  CASE name = "add" -> Ok(Add(x, y))
    [] name = "sub" -> Ok(Sub(x, y))
    [] name = "mul" -> Ok(Mul(x, y))
    [] name = "div_s" -> DivS(x, y)
    [] name = "div_u" -> DivU(x, y)
    [] name = "rem_s" -> RemS(x, y)
    [] name = "rem_u" -> RemU(x, y)
    [] name = "and" -> Ok(And(x, y))
    [] name = "or" -> Ok(Or(x, y))
    [] name = "xor" -> Ok(Xor(x, y))
    [] name = "shl" -> Ok(Shl(x, y))
    [] name = "shr_s" -> Ok(ShrS(x, y))
    [] name = "shr_u" -> Ok(ShrU(x, y))
    [] name = "rotl" -> Ok(Rotl(x, y))
    [] name = "rotr" -> Ok(Rotr(x, y))

Relop(name, x, y) ==
  Bool32(CASE name = "eq" -> x = y
           [] name = "ne" -> x # y
           [] name = "lt_s" -> LtS(x, y)
           [] name = "lt_u" -> LtU(x, y)
           [] name = "gt_s" -> LtS(y, x)
           [] name = "gt_u" -> LtU(y, x)
           [] name = "le_s" -> ~LtS(y, x)
           [] name = "le_u" -> ~LtU(y, x)
           [] name = "ge_s" -> ~LtS(x, y)
           [] name = "ge_u" -> ~LtU(x, y))

Unop(name, x) ==
  CASE name = "clz" -> Clz(x)
    [] name = "ctz" -> Ctz(x)
    [] name = "popcnt" -> Popcnt(x)

Eqz(x) == Bool32(IsZero(x))

(* conversions and sign extension *)
Wrap(x) == SubSeq(x, 1, 2)                                   \* i32.wrap_i64
ExtendU(x) == x \o <<0, 0>>                                  \* i64.extend_i32_u
ExtendS(x) == x \o (IF IsNeg(x) THEN <<65535, 65535>> ELSE <<0, 0>>)   \* i64.extend_i32_s
SignExtendFrom(x, w) ==   \* keep the low w bits, replicate bit w upwards (extend8_s, extend16_s, extend32_s)
  LET b == ToBits(x) IN FromBits([i \in DOMAIN b |-> IF i <= w THEN b[i] ELSE b[w]])

(* little-endian byte views for memory access *)
ValueBytes(x, nbytes) == SubSeq(ToBytes(x), 1, nbytes)
(* value of nlimbs limbs from nbytes little-endian bytes, zero- or sign-extended *)
BytesValue(bs, nlimbs, signed) ==
  LET nb == Len(bs)
      neg == signed /\ bs[nb] >= 128
      full == [i \in 1..(2 * nlimbs) |-> IF i <= nb THEN bs[i] ELSE IF neg THEN 255 ELSE 0]
  IN FromBytes(full)
=============================================================================
